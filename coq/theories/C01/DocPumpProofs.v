(** C01/DocPumpProofs.v — the doc parser's token pump re-emits the comment group as a tiling of its range,
    for every sequence of primitives and every oracle that respects the Reader discipline. *)
From Coq Require Import PeanoNat.
From EV Require Import C01.Model C01.Proofs C01.LexProofs C01.Pump C01.PumpProofs C01.DocPump.
Local Open Scope N_scope.

Definition tstart (t : leaf) : N := fst (snd t).
Definition tlen (t : leaf) : N := snd (snd t).
Definition tend (t : leaf) : N := tstart t + tlen t.

Lemma deats_app : forall a b, deats (a ++ b) = deats a ++ deats b.
Proof. induction a as [|d a IH]; intros b; [reflexivity|]. cbn [app deats]. destruct d; rewrite IH; reflexivity. Qed.

Lemma tiles_skipn_cons : forall (toks : list leaf) i t a b,
  nth_error toks i = Some t -> tiles (skipn i toks) a b -> tstart t = a /\ tiles (skipn (S i) toks) (a + tlen t) b.
Proof.
  intros toks i t a b Hn H. rewrite (skipn_cons_nth _ _ _ Hn) in H. destruct t as [k [s l]]. cbn [tiles] in H.
  unfold tstart, tlen. cbn [fst snd]. destruct H as [H1 H2]. subst. auto.
Qed.

Lemma tiles_skipn_end : forall (toks : list leaf) i a b,
  nth_error toks i = None -> tiles (skipn i toks) a b -> a = b.
Proof. intros toks i a b Hn H. apply nth_error_None in Hn. rewrite skipn_all2 in H by exact Hn. exact H. Qed.

Lemma none_invalid : doc_invalid TK_None = true.
Proof. vm_compute. reflexivity. Qed.
Lemma eof_invalid : doc_invalid TK_TkEof = true.
Proof. vm_compute. reflexivity. Qed.
Lemma whole_valid : forall k, whole_kind k = true -> doc_invalid k = false.
Proof.
  intros k H. unfold whole_kind in H. apply orb_true_iff in H. destruct H as [H|H]; [apply orb_true_iff in H; destruct H as [H|H]|];
    apply N.eqb_eq in H; subst; vm_compute; reflexivity.
Qed.

Section Group.
  Variable G1 : N.   (* end of the comment group *)

  (** where the next [lex_token] will read from: position [F] *)
  Inductive frontier (st : dst) (F : N) : Prop :=
  | FValid : forall pos e t, d_lx st = Some (pos, e) -> pos < e -> pos = F ->
             nth_error (d_toks st) (d_oidx st) = Some t -> tend t = e ->
             tiles (skipn (S (d_oidx st)) (d_toks st)) e G1 -> frontier st F
  | FNext : lx_invalid (d_lx st) = true -> (d_oidx st = 0%nat -> d_cur st <> TK_None) ->
            tiles (skipn (S (d_oidx st)) (d_toks st)) F G1 -> frontier st F
  | FInit : lx_invalid (d_lx st) = true -> d_oidx st = 0%nat -> d_cur st = TK_None ->
            tiles (d_toks st) F G1 -> frontier st F.

  (** the same, once the caller has stored a non-None kind in [current_token] *)
  Inductive frontier' (st : dst) (F : N) : Prop :=
  | FValid' : forall pos e t, d_lx st = Some (pos, e) -> pos < e -> pos = F ->
              nth_error (d_toks st) (d_oidx st) = Some t -> tend t = e ->
              tiles (skipn (S (d_oidx st)) (d_toks st)) e G1 -> frontier' st F
  | FNext' : lx_invalid (d_lx st) = true -> tiles (skipn (S (d_oidx st)) (d_toks st)) F G1 -> frontier' st F.

  Definition nonempty_toks (toks : list leaf) : Prop := Forall (fun t => 1 <= tlen t) toks.

  Lemma lex_token_spec : forall fuel st F st' k s n,
    frontier st F -> nonempty_toks (d_toks st) -> (1 <= fuel)%nat ->
    lex_token fuel st = Some (st', (k, (s, n))) ->
    d_toks st' = d_toks st /\ d_cur st' = d_cur st /\ d_crange st' = d_crange st /\ d_out st' = d_out st /\ d_disc st' = d_disc st /\
    (d_lex_ok st' = true -> d_lex_ok st = true) /\
    ((k = TK_TkEof /\ n = 0 /\ F = G1 /\ st' = st /\ frontier' st F) \/
     (d_lex_ok st' = true -> s = F /\ 1 <= n /\ doc_invalid k = false /\ frontier' st' (F + n))).
  Proof.
    intros fuel st F st' k s n Hf Hne Hfuel H. destruct fuel as [|fuel]; [lia|]. cbn [lex_token] in H.
    (* what one answer does *)
    assert (Hround : forall st1 pos e t,
               d_toks st1 = d_toks st -> d_cur st1 = d_cur st -> d_crange st1 = d_crange st -> d_out st1 = d_out st ->
               d_disc st1 = d_disc st -> d_lex_ok st1 = d_lex_ok st ->
               pos < e -> pos = F -> nth_error (d_toks st1) (d_oidx st1) = Some t -> tend t = e ->
               tiles (skipn (S (d_oidx st1)) (d_toks st1)) e G1 ->
               (if e <=? pos then lex_token fuel st1
                else match d_answers st1 with
                     | [] => None
                     | (k0, n0) :: rest =>
                         Some (set_lex st1 (d_oidx st1) (Some (pos + n0, e)) rest
                                 (d_lex_ok st1 && (1 <=? n0) && (pos + n0 <=? e) && negb (doc_invalid k0)), (k0, (pos, n0)))
                     end) = Some (st', (k, (s, n))) ->
               d_toks st' = d_toks st /\ d_cur st' = d_cur st /\ d_crange st' = d_crange st /\ d_out st' = d_out st /\ d_disc st' = d_disc st /\
               (d_lex_ok st' = true -> d_lex_ok st = true) /\
               ((k = TK_TkEof /\ n = 0 /\ F = G1 /\ st' = st /\ frontier' st F) \/
                (d_lex_ok st' = true -> s = F /\ 1 <= n /\ doc_invalid k = false /\ frontier' st' (F + n)))).
    { intros st1 pos e t E1 E2 E3 E4 E5 E6 Hlt Hpos Hn He Ht Hr.
      destruct (N.leb_spec e pos) as [|_]; [lia|].
      destruct (d_answers st1) as [|[k0 n0] rest]; [discriminate|]. inversion Hr; subst st' k s n; clear Hr.
      cbn [set_lex d_toks d_cur d_crange d_out d_disc d_lex_ok d_lx d_oidx].
      repeat (split; [assumption|]). split.
      { intros Hok. rewrite E6 in Hok. apply andb_true_iff in Hok. destruct Hok as [Hok _]. apply andb_true_iff in Hok.
        destruct Hok as [Hok _]. apply andb_true_iff in Hok. apply Hok. }
      right. intros Hok. apply andb_true_iff in Hok. destruct Hok as [Hok Hk]. apply andb_true_iff in Hok.
      destruct Hok as [Hok Hin]. apply andb_true_iff in Hok. destruct Hok as [_ H1]. apply N.leb_le in H1, Hin.
      split; [exact Hpos|]. split; [exact H1|]. split; [destruct (doc_invalid k0); [discriminate|reflexivity]|].
      destruct (N.eq_dec (pos + n0) e) as [Ee|Ene].
      - apply FNext'; cbn [set_lex d_lx d_oidx d_toks lx_invalid]; [apply N.leb_le; lia|]. subst pos. rewrite Ee. exact Ht.
      - eapply (FValid' _ _ (pos + n0) e t); cbn [set_lex d_lx d_oidx d_toks]; try eassumption; try reflexivity; lia. }
    destruct Hf as [pos e t Hlx Hlt Hpos Hn He Ht | Hinv Hnn Ht | Hinv H0 Hc Ht].
    - (* valid lexer *)
      assert (lx_invalid (d_lx st) = false) as Hv by (rewrite Hlx; cbn; apply N.leb_gt; exact Hlt).
      rewrite Hv, Hlx in H. eapply (Hround st pos e t); eauto.
    - rewrite Hinv in H.
      assert (Hnext : (if Nat.eqb (d_oidx st) 0 && (d_cur st =? TK_None) then O else S (d_oidx st)) = S (d_oidx st)).
      { destruct (Nat.eqb_spec (d_oidx st) 0) as [E0|E0]; [|reflexivity]. cbn [andb].
        destruct (N.eqb_spec (d_cur st) TK_None) as [Ec|Ec]; [exfalso; apply (Hnn E0 Ec)|reflexivity]. }
      rewrite Hnext in H. clear Hnext.
      destruct (nth_error (d_toks st) (S (d_oidx st))) as [t|] eqn:Hn.
      + destruct (tiles_skipn_cons _ _ _ _ _ Hn Ht) as [Hs Hrest].
        destruct (whole_kind (fst t)) eqn:Hw.
        * destruct t as [k0 [s0 l0]]. inversion H; subst st' k s n; clear H.
          cbn [set_lex d_toks d_cur d_crange d_out d_disc d_lex_ok].
          repeat (split; [reflexivity|]). split; [auto|]. right. intros _.
          unfold tstart, tlen in *. cbn [fst snd] in *.
          split; [exact Hs|]. split.
          { unfold nonempty_toks in Hne. rewrite Forall_forall in Hne. apply (Hne _ (nth_error_In _ _ Hn)). }
          split; [apply whole_valid; exact Hw|].
          apply FNext'; cbn [set_lex d_lx d_oidx d_toks]; [exact Hinv|exact Hrest].
        * assert (Hl : 1 <= tlen t).
          { unfold nonempty_toks in Hne. rewrite Forall_forall in Hne. apply (Hne _ (nth_error_In _ _ Hn)). }
          apply (Hround (set_lex st (S (d_oidx st)) (Some (tstart t, tstart t + tlen t)) (d_answers st) (d_lex_ok st))
                        (tstart t) (tstart t + tlen t) t); try reflexivity; cbn [set_lex d_toks d_oidx].
          -- lia.
          -- exact Hs.
          -- exact Hn.
          -- rewrite Hs. exact Hrest.
          -- exact H.
      + inversion H; subst. repeat (split; [reflexivity|]). split; [auto|]. left.
        split; [reflexivity|]. split; [reflexivity|]. split; [eapply tiles_skipn_end; eauto|]. split; [reflexivity|].
        apply FNext'; assumption.
    - rewrite Hinv in H. rewrite H0, Hc in H. cbn [Nat.eqb andb] in H. rewrite N.eqb_refl in H. cbn [andb] in H.
      destruct (nth_error (d_toks st) 0) as [t|] eqn:Hn.
      + destruct (tiles_skipn_cons (d_toks st) 0 t F G1 Hn Ht) as [Hs Hrest].
        destruct (whole_kind (fst t)) eqn:Hw.
        * destruct t as [k0 [s0 l0]]. inversion H; subst st' k s n; clear H.
          cbn [set_lex d_toks d_cur d_crange d_out d_disc d_lex_ok].
          repeat (split; [reflexivity|]). split; [auto|]. right. intros _.
          unfold tstart, tlen in *. cbn [fst snd] in *.
          split; [exact Hs|]. split.
          { unfold nonempty_toks in Hne. rewrite Forall_forall in Hne. apply (Hne _ (nth_error_In _ _ Hn)). }
          split; [apply whole_valid; exact Hw|].
          apply FNext'; cbn [set_lex d_lx d_oidx d_toks]; [exact Hinv|exact Hrest].
        * assert (Hl : 1 <= tlen t).
          { unfold nonempty_toks in Hne. rewrite Forall_forall in Hne. apply (Hne _ (nth_error_In _ _ Hn)). }
          apply (Hround (set_lex st 0%nat (Some (tstart t, tstart t + tlen t)) (d_answers st) (d_lex_ok st))
                        (tstart t) (tstart t + tlen t) t); try reflexivity; cbn [set_lex d_toks d_oidx].
          -- lia.
          -- exact Hs.
          -- exact Hn.
          -- rewrite Hs. exact Hrest.
          -- exact H.
      + inversion H; subst. repeat (split; [reflexivity|]). split; [auto|]. left.
        split; [reflexivity|]. split; [reflexivity|]. split; [eapply (tiles_skipn_end (d_toks st') 0); eauto|]. split; [reflexivity|].
        apply FNext'; [assumption|]. destruct (d_toks st'); [exact Ht|discriminate].
  Qed.

  Variable G0 : N.   (* start of the comment group *)

  (** the invariant of the doc pump: [E] = end of what has been emitted, [F] = end of what has been lexed *)
  Record dinv (st : dst) : Prop := {
    di_toks : nonempty_toks (d_toks st);
    di_EF : exists E F,
      tiles (deats (d_out st)) G0 E /\
      (doc_invalid (d_cur st) = false -> fst (d_crange st) = E /\ E + snd (d_crange st) = F) /\
      (doc_invalid (d_cur st) = true -> E = F) /\
      (d_cur st = TK_TkEof -> F = G1) /\
      frontier st F
  }.

  Lemma frontier'_cur : forall st F k r, frontier' st F -> k <> TK_None -> frontier (with_cur st k r) F.
  Proof.
    intros st F k r [pos e t A B C D E0 G | A B] Hk.
    - eapply FValid; cbn [with_cur d_lx d_toks d_oidx]; eauto.
    - apply FNext; cbn [with_cur d_lx d_toks d_oidx d_cur]; auto.
  Qed.

  Lemma valid_not_none : forall k, doc_invalid k = false -> k <> TK_None.
  Proof. intros k H E. subst. rewrite none_invalid in H. discriminate. Qed.

  Lemma eof_not_none : TK_TkEof <> TK_None.
  Proof. intro E. vm_compute in E. discriminate. Qed.

  Lemma frontier_emit : forall st F, frontier st F -> frontier (emit_cur st) F.
  Proof.
    intros st F [pos e t A B C D E0 G | A B C | A B C D].
    - eapply FValid; cbn [emit_cur d_lx d_toks d_oidx]; eauto.
    - apply FNext; cbn [emit_cur d_lx d_toks d_oidx d_cur]; auto.
    - apply FInit; cbn [emit_cur d_lx d_toks d_oidx d_cur]; auto.
  Qed.

  Lemma lex_token_mono : forall fuel st st' tok, lex_token fuel st = Some (st', tok) ->
    d_disc st' = d_disc st /\ d_out st' = d_out st /\ d_toks st' = d_toks st /\ (d_lex_ok st' = true -> d_lex_ok st = true).
  Proof.
    induction fuel as [|fuel IH]; intros st st' tok H; cbn [lex_token] in H; [discriminate|].
    assert (Hround : forall st1 pos e, d_disc st1 = d_disc st -> d_out st1 = d_out st -> d_toks st1 = d_toks st -> d_lex_ok st1 = d_lex_ok st ->
              (if e <=? pos then lex_token fuel st1
               else match d_answers st1 with
                    | [] => None
                    | (k0, n0) :: rest =>
                        Some (set_lex st1 (d_oidx st1) (Some (pos + n0, e)) rest
                                (d_lex_ok st1 && (1 <=? n0) && (pos + n0 <=? e) && negb (doc_invalid k0)), (k0, (pos, n0)))
                    end) = Some (st', tok) ->
              d_disc st' = d_disc st /\ d_out st' = d_out st /\ d_toks st' = d_toks st /\ (d_lex_ok st' = true -> d_lex_ok st = true)).
    { intros st1 pos e A B C D Hr. destruct (e <=? pos).
      - destruct (IH _ _ _ Hr) as (I1 & I2 & I3 & I4). repeat split; try congruence. intros Hok. rewrite <- D. auto.
      - destruct (d_answers st1) as [|[k0 n0] rest]; [discriminate|]. inversion Hr; subst. cbn [set_lex d_disc d_out d_toks d_lex_ok].
        repeat split; try assumption. intros Hok. rewrite D in Hok. repeat (apply andb_true_iff in Hok; destruct Hok as [Hok _]). exact Hok. }
    destruct (lx_invalid (d_lx st)).
    - destruct (nth_error (d_toks st) _) as [t|].
      + destruct (whole_kind (fst t)).
        * inversion H; subst. cbn [set_lex d_disc d_out d_toks d_lex_ok]. auto.
        * eapply Hround; [..|exact H]; reflexivity.
      + inversion H; subst. auto.
    - destruct (d_lx st) as [[pos e]|]; [|discriminate]. eapply Hround; [..|exact H]; reflexivity.
  Qed.

  Lemma eat_lex_mono : forall st st', eat_lex st = Some st' ->
    d_disc st' = d_disc st /\ d_toks st' = d_toks st /\ (d_lex_ok st' = true -> d_lex_ok st = true).
  Proof.
    intros st st' H. unfold eat_lex in H.
    destruct (lex_token (lex_fuel (emit_cur st)) (emit_cur st)) as [[st1 [k r]]|] eqn:Hl; [|discriminate].
    inversion H; subst. destruct (lex_token_mono _ _ _ _ Hl) as (A & B & C & D). cbn [with_cur emit_cur d_disc d_toks d_lex_ok] in *. auto.
  Qed.

  Lemma skip_loop_mono : forall fuel sk st st', skip_loop fuel sk st = Some st' ->
    d_disc st' = d_disc st /\ d_toks st' = d_toks st /\ (d_lex_ok st' = true -> d_lex_ok st = true).
  Proof.
    induction fuel as [|fuel IH]; intros sk st st' H; cbn [skip_loop] in H; [discriminate|].
    destruct (in_skip sk (d_cur st)).
    - destruct (eat_lex st) as [st1|] eqn:He; [|discriminate].
      destruct (eat_lex_mono _ _ He) as (A & B & C). destruct (IH _ _ _ H) as (A' & B' & C'). repeat split; try congruence. auto.
    - inversion H; subst. auto.
  Qed.

  (** consuming the result of one [lex_token] call made at frontier [F] with everything before [F] emitted *)
  Lemma take_token : forall st F st' k s n,
    nonempty_toks (d_toks st) -> frontier st F -> tiles (deats (d_out st)) G0 F ->
    lex_token (lex_fuel st) st = Some (st', (k, (s, n))) ->
    forall r0, (* the range kept when the returned range is empty *)
    let st2 := with_cur st' k (if n =? 0 then r0 else (s, n)) in
    d_disc st2 = d_disc st /\ (d_lex_ok st2 = true -> d_lex_ok st = true) /\ d_out st2 = d_out st /\
    (d_lex_ok st2 = true -> dinv st2).
  Proof.
    intros st F st' k s n Hne Hf Hout H r0 st2.
    assert (Hfuel : (1 <= lex_fuel st)%nat) by (unfold lex_fuel; lia).
    destruct (lex_token_spec _ st F st' k s n Hf Hne Hfuel H) as (T1 & T2 & T3 & T4 & T5 & T6 & T7).
    subst st2. cbn [with_cur d_disc d_lex_ok d_out]. split; [exact T5|]. split; [exact T6|]. split; [exact T4|].
    intros Hok. constructor; cbn [with_cur d_toks d_out d_cur d_crange]; [rewrite T1; exact Hne|].
    rewrite T4. destruct T7 as [(E1 & E2 & E3 & E4 & E5)|T7].
    - subst k n st'. exists F, F. split; [exact Hout|]. split; [intros C; rewrite eof_invalid in C; discriminate|].
      split; [reflexivity|]. split; [intros _; exact E3|]. apply frontier'_cur; [exact E5|apply eof_not_none].
    - destruct (T7 Hok) as (S1 & S2 & S3 & S4). subst s.
      destruct (N.eqb_spec n 0) as [E0|E0]; [lia|].
      exists F, (F + n). split; [exact Hout|]. cbn [fst snd].
      split; [intros _; split; reflexivity|]. split; [intros C; congruence|].
      split; [intros C; subst k; rewrite eof_invalid in S3; discriminate|].
      apply frontier'_cur; [exact S4|apply valid_not_none; exact S3].
  Qed.

  Lemma emitted_frontier : forall st E F,
    tiles (deats (d_out st)) G0 E -> fst (d_crange st) = E -> E + snd (d_crange st) = F ->
    tiles (deats (d_out (emit_cur st))) G0 F.
  Proof.
    intros st E F H1 H2 H3. cbn [emit_cur d_out]. rewrite deats_app. cbn [deats]. rewrite H2, <- H3. apply tiles_snoc. exact H1.
  Qed.

  Lemma eat_lex_spec : forall st st', dinv st -> doc_invalid (d_cur st) = false -> eat_lex st = Some st' ->
    d_disc st' = d_disc st /\ (d_lex_ok st' = true -> d_lex_ok st = true /\ dinv st').
  Proof.
    intros st st' [Hne (E & F & I1 & I2 & I3 & I4 & I5)] Hp H. unfold eat_lex in H.
    destruct (lex_token (lex_fuel (emit_cur st)) (emit_cur st)) as [[st1 [k [s n]]]|] eqn:Hl; [|discriminate].
    inversion H; subst st'; clear H. destruct (I2 Hp) as [J1 J2].
    pose proof (take_token (emit_cur st) F st1 k s n Hne (frontier_emit _ _ I5) (emitted_frontier _ _ _ I1 J1 J2) Hl (d_crange st1)) as T.
    cbn [snd] in *. cbn zeta in T. destruct T as (T1 & T2 & T3 & T4). split; [exact T1|]. intros Hok. split; [apply T2; exact Hok|apply T4; exact Hok].
  Qed.

  Lemma in_skip_valid : forall sk k, in_skip sk k = true -> doc_invalid k = false.
  Proof.
    intros sk k H. unfold in_skip in H.
    assert (forall c, (k =? c) = true -> doc_invalid c = false -> doc_invalid k = false) as A.
    { intros c Hc Hd. apply N.eqb_eq in Hc. subst. exact Hd. }
    destruct (sk =? 0); [|destruct (sk =? 1); [|destruct (sk =? 2); [|discriminate]]].
    - apply orb_true_iff in H. destruct H as [H|H]; [apply orb_true_iff in H; destruct H as [H|H]|]; eapply A; eauto; vm_compute; reflexivity.
    - eapply A; eauto; vm_compute; reflexivity.
    - apply orb_true_iff in H. destruct H as [H|H]; eapply A; eauto; vm_compute; reflexivity.
  Qed.

  Lemma skip_loop_spec : forall fuel sk st st', dinv st -> skip_loop fuel sk st = Some st' ->
    d_lex_ok st' = true -> dinv st'.
  Proof.
    induction fuel as [|fuel IH]; intros sk st st' Hi H Hok; cbn [skip_loop] in H; [discriminate|].
    destruct (in_skip sk (d_cur st)) eqn:Hs.
    - destruct (eat_lex st) as [st1|] eqn:He; [|discriminate].
      destruct (skip_loop_mono _ _ _ _ H) as (_ & _ & M).
      destruct (eat_lex_spec _ _ Hi (in_skip_valid _ _ Hs) He) as [_ B]. destruct (B (M Hok)) as [_ B2].
      eapply IH; eauto.
    - inversion H; subst. exact Hi.
  Qed.

  Lemma d_bump_mono : forall sk st st', d_bump sk st = Some st' ->
    d_disc st' = d_disc st /\ d_toks st' = d_toks st /\ (d_lex_ok st' = true -> d_lex_ok st = true).
  Proof.
    intros sk st st' H. unfold d_bump in H.
    set (st0 := if doc_invalid (d_cur st) then st else emit_cur st) in *.
    assert (A0 : d_disc st0 = d_disc st /\ d_toks st0 = d_toks st /\ d_lex_ok st0 = d_lex_ok st) by (subst st0; destruct (doc_invalid (d_cur st)); auto).
    destruct A0 as (A1 & A2 & A3).
    destruct (lex_token (lex_fuel st0) st0) as [[st1 [k r]]|] eqn:Hl; [|discriminate].
    destruct (lex_token_mono _ _ _ _ Hl) as (B1 & B2 & B3 & B4).
    destruct (k =? TK_TkEof).
    - inversion H; subst. cbn [with_cur d_disc d_toks d_lex_ok]. repeat split; try congruence. intros Hok. rewrite <- A3. auto.
    - destruct (skip_loop_mono _ _ _ _ H) as (C1 & C2 & C3). cbn [with_cur d_disc d_toks d_lex_ok] in *.
      repeat split; try congruence. intros Hok. rewrite <- A3. auto.
  Qed.

  Lemma d_bump_spec : forall sk st st', dinv st -> d_bump sk st = Some st' -> d_lex_ok st' = true -> dinv st'.
  Proof.
    intros sk st st' [Hne (E & F & I1 & I2 & I3 & I4 & I5)] H Hok. unfold d_bump in H.
    set (st0 := if doc_invalid (d_cur st) then st else emit_cur st) in *.
    assert (H0 : nonempty_toks (d_toks st0) /\ frontier st0 F /\ tiles (deats (d_out st0)) G0 F).
    { subst st0. destruct (doc_invalid (d_cur st)) eqn:Hp.
      - pose proof (I3 eq_refl) as EF. subst F. auto.
      - destruct (I2 eq_refl) as [J1 J2]. split; [exact Hne|]. split; [apply frontier_emit; exact I5|eapply emitted_frontier; eauto]. }
    destruct H0 as (N0 & F0 & T0).
    destruct (lex_token (lex_fuel st0) st0) as [[st1 [k [s n]]]|] eqn:Hl; [|discriminate].
    pose proof (take_token st0 F st1 k s n N0 F0 T0 Hl (s, n)) as T. cbn zeta in T.
    replace (if n =? 0 then (s, n) else (s, n)) with (s, n) in T by (destruct (n =? 0); reflexivity).
    destruct T as (_ & _ & _ & T4).
    destruct (k =? TK_TkEof).
    - inversion H; subst. apply T4. exact Hok.
    - destruct (skip_loop_mono _ _ _ _ H) as (_ & _ & M). eapply skip_loop_spec; [apply T4; apply M; exact Hok|exact H|exact Hok].
  Qed.

  (** resetting the doc lexer to the start of the pending current token *)
  Lemma reset_spec : forall st st1 E F,
    nonempty_toks (d_toks st) -> frontier st F -> lx_invalid (d_lx st) = false ->
    fst (d_crange st) = E -> E <= F ->
    reset_to_current st = Some st1 ->
    st1 = set_lex st (d_oidx st) (d_lx st1) (d_answers st) (d_lex_ok st) /\
    exists e t, d_lx st1 = Some (E, e) /\ E < e /\ nth_error (d_toks st) (d_oidx st) = Some t /\ tend t = e /\
                tiles (skipn (S (d_oidx st)) (d_toks st)) e G1.
  Proof.
    intros st st1 E F Hne Hf Hv HE HEF H. unfold reset_to_current in H.
    destruct Hf as [pos e t A B C D E0 G | A _ _ | A _ _ _]; try congruence.
    rewrite D in H. fold (tstart t) (tlen t) in H. fold (tend t) in H. rewrite E0, HE in H.
    destruct (N.ltb_spec e E) as [|_]; [lia|]. inversion H; subst st1. cbn [set_lex d_lx]. split; [reflexivity|].
    exists e, t. repeat split; auto. lia.
  Qed.

  Lemma exec_pop_mono : forall st o st', exec_pop st o = Some st' ->
    (d_disc st' = true -> d_disc st = true) /\ d_toks st' = d_toks st /\ (d_lex_ok st' = true -> d_lex_ok st = true).
  Proof.
    intros st o st' H. destruct o; cbn [exec_pop] in H.
    - destruct (d_bump_mono _ _ _ H) as (A & B & C). repeat split; auto. congruence.
    - destruct (eat_lex_mono _ _ H) as (A & B & C). cbn [with_ddisc d_disc d_toks d_lex_ok] in *. repeat split; auto.
      intros D. rewrite A in D. apply andb_true_iff in D. apply D.
    - unfold reset_to_current in H. cbn [with_cur with_ddisc d_toks d_oidx d_crange] in H.
      destruct (nth_error (d_toks st) (d_oidx st)); [|discriminate]. destruct (_ <? _); [discriminate|]. inversion H; subst.
      cbn [set_lex with_cur with_ddisc d_disc d_toks d_lex_ok]. repeat split; auto. intros D. apply andb_true_iff in D. apply D.
    - destruct (reset_to_current (with_ddisc st _)) as [st1|] eqn:Hr; [|discriminate].
      destruct (lex_token (lex_fuel st1) st1) as [[st2 [k r]]|] eqn:Hl; [|discriminate]. inversion H; subst.
      destruct (lex_token_mono _ _ _ _ Hl) as (A & B & C & D).
      unfold reset_to_current in Hr. cbn [with_ddisc d_toks d_oidx d_crange] in Hr.
      destruct (nth_error (d_toks st) (d_oidx st)); [|discriminate]. destruct (_ <? _); [discriminate|]. inversion Hr; subst.
      cbn [set_lex with_cur with_ddisc d_disc d_toks d_lex_ok] in *. repeat split; auto.
      intros X. rewrite A in X. apply andb_true_iff in X. apply X.
    - inversion H; subst. cbn [with_cur with_ddisc d_disc d_toks d_lex_ok]. repeat split; auto. intros D. apply andb_true_iff in D. apply D.
    - inversion H; subst. cbn [d_disc d_toks d_lex_ok]. repeat split; auto. intros D. apply andb_true_iff in D. apply D.
  Qed.

  Lemma dinv_ddisc : forall st b, dinv st -> dinv (with_ddisc st b).
  Proof.
    intros st b [Hne (E & F & I1 & I2 & I3 & I4 & I5)]. constructor; cbn [with_ddisc d_toks d_out d_cur d_crange]; [exact Hne|].
    exists E, F. split; [exact I1|]. split; [exact I2|]. split; [exact I3|]. split; [exact I4|].
    destruct I5 as [pos e t X1 X2 X3 X4 X5 X6 | X1 X2 X3 | X1 X2 X3 X4];
      [eapply FValid|apply FNext|apply FInit]; cbn [with_ddisc d_lx d_toks d_oidx d_cur]; eauto.
  Qed.

  Lemma exec_pop_inv : forall st o st', dinv st -> exec_pop st o = Some st' ->
    d_disc st' = true -> d_lex_ok st' = true -> dinv st'.
  Proof.
    intros st o st' Hi H Hd Hok. destruct o; cbn [exec_pop] in H.
    - eapply d_bump_spec; eauto.
    - destruct (eat_lex_mono _ _ H) as (A & _ & _). cbn [with_ddisc d_disc] in A. rewrite A in Hd.
      apply andb_true_iff in Hd. destruct Hd as [_ Hp]. apply negb_true_iff in Hp.
      assert (Hi2 : dinv (with_ddisc st (negb (doc_invalid (d_cur st))))) by (apply dinv_ddisc; exact Hi).
      destruct (eat_lex_spec _ _ Hi2 Hp H) as [_ B]. apply B. exact Hok.
    - (* re_calc_detail *)
      destruct Hi as [Hne (E & F & I1 & I2 & I3 & I4 & I5)].
      set (st0 := with_cur (with_ddisc st (negb (lx_invalid (d_lx st)) && negb (doc_invalid (d_cur st)))) TK_None (d_crange st)) in *.
      assert (Hflags : lx_invalid (d_lx st) = false /\ doc_invalid (d_cur st) = false).
      { unfold reset_to_current in H. cbn [st0 with_cur with_ddisc d_toks d_oidx d_crange] in H.
        destruct (nth_error (d_toks st) (d_oidx st)); [|discriminate]. destruct (_ <? _); [discriminate|]. inversion H; subst st'.
        cbn [set_lex with_cur with_ddisc d_disc] in Hd. apply andb_true_iff in Hd. destruct Hd as [_ Hd].
        apply andb_true_iff in Hd. destruct Hd as [A B]. apply negb_true_iff in A, B. auto. }
      destruct Hflags as [Hv Hp]. destruct (I2 Hp) as [J1 J2].
      assert (F0 : frontier st0 F).
      { destruct I5 as [pos e t A B C D E0 G | A _ _ | A _ _ _]; try congruence.
        eapply FValid; cbn [st0 with_cur with_ddisc d_lx d_toks d_oidx]; eauto. }
      destruct (reset_spec st0 st' E F Hne F0 Hv J1 ltac:(lia) H) as (S1 & e & t & S2 & S3 & S4 & S5 & S6).
      rewrite S1. constructor; cbn [set_lex st0 with_cur with_ddisc d_toks d_out d_cur d_crange]; [exact Hne|].
      exists E, E. split; [exact I1|]. split; [rewrite none_invalid; discriminate|]. split; [reflexivity|].
      split; [intros C; vm_compute in C; discriminate|].
      eapply (FValid _ _ E e t); cbn [set_lex st0 with_cur with_ddisc d_lx d_toks d_oidx]; eauto.
    - (* re_calc_cast_type *)
      destruct Hi as [Hne (E & F & I1 & I2 & I3 & I4 & I5)].
      set (st0 := with_ddisc st (negb (lx_invalid (d_lx st)) && negb (doc_invalid (d_cur st)))) in *.
      destruct (reset_to_current st0) as [st1|] eqn:Hr; [|discriminate].
      destruct (lex_token (lex_fuel st1) st1) as [[st2 [k [s n]]]|] eqn:Hl; [|discriminate]. inversion H; subst st'; clear H.
      destruct (lex_token_mono _ _ _ _ Hl) as (M1 & M2 & M3 & M4).
      assert (Hflags : lx_invalid (d_lx st) = false /\ doc_invalid (d_cur st) = false).
      { unfold reset_to_current in Hr. cbn [st0 with_ddisc d_toks d_oidx d_crange] in Hr.
        destruct (nth_error (d_toks st) (d_oidx st)); [|discriminate]. destruct (_ <? _); [discriminate|]. inversion Hr; subst st1.
        cbn [with_cur d_disc] in Hd. rewrite M1 in Hd. cbn [set_lex with_ddisc d_disc] in Hd.
        apply andb_true_iff in Hd. destruct Hd as [_ Hd]. apply andb_true_iff in Hd. destruct Hd as [A B]. apply negb_true_iff in A, B. auto. }
      destruct Hflags as [Hv Hp]. destruct (I2 Hp) as [J1 J2].
      assert (F0 : frontier st0 F).
      { destruct I5 as [pos e t A B C D E0 G | A _ _ | A _ _ _]; try congruence.
        eapply FValid; cbn [st0 with_ddisc d_lx d_toks d_oidx]; eauto. }
      destruct (reset_spec st0 st1 E F Hne F0 Hv J1 ltac:(lia) Hr) as (S1 & e & t & S2 & S3 & S4 & S5 & S6).
      assert (F1 : frontier st1 E).
      { rewrite S1. eapply (FValid _ _ E e t); cbn [set_lex st0 with_ddisc d_lx d_toks d_oidx]; eauto. }
      assert (N1 : nonempty_toks (d_toks st1)) by (rewrite S1; exact Hne).
      assert (O1 : tiles (deats (d_out st1)) G0 E) by (rewrite S1; exact I1).
      pose proof (take_token st1 E st2 k s n N1 F1 O1 Hl (d_crange st2)) as T. cbn zeta in T. cbn [snd] in *.
      destruct T as (_ & _ & _ & T4). apply T4. exact Hok.
    - (* set kind *)
      inversion H; subst st'; clear H. cbn [with_cur with_ddisc d_disc] in Hd.
      apply andb_true_iff in Hd. destruct Hd as [_ Hd]. apply andb_true_iff in Hd. destruct Hd as [A B]. apply negb_true_iff in A, B.
      destruct Hi as [Hne (E & F & I1 & I2 & I3 & I4 & I5)].
      constructor; cbn [with_cur with_ddisc d_toks d_out d_cur d_crange]; [exact Hne|].
      exists E, F. split; [exact I1|]. split; [intros _; apply I2; exact A|]. split; [congruence|].
      split; [intros C; subst k; rewrite eof_invalid in B; discriminate|].
      destruct I5 as [pos e t X1 X2 X3 X4 X5 X6 | X1 X2 X3 | X1 X2 X3 X4].
      + eapply FValid; cbn [with_cur with_ddisc d_lx d_toks d_oidx]; eauto.
      + apply FNext; cbn [with_cur with_ddisc d_lx d_toks d_oidx d_cur]; auto. intros _. apply valid_not_none. exact B.
      + rewrite X3, none_invalid in A. discriminate.
    - (* marker operation *)
      inversion H; subst st'; clear H. cbn [d_disc] in Hd. apply andb_true_iff in Hd. destruct Hd as [_ Hd].
      destruct Hi as [Hne (E & F & I1 & I2 & I3 & I4 & I5)].
      constructor; cbn [d_toks d_out d_cur d_crange]; [exact Hne|].
      exists E, F. split; [rewrite deats_app; destruct d; try discriminate; cbn [deats]; rewrite app_nil_r; exact I1|].
      split; [exact I2|]. split; [exact I3|]. split; [exact I4|].
      destruct I5 as [pos e t X1 X2 X3 X4 X5 X6 | X1 X2 X3 | X1 X2 X3 X4];
        [eapply FValid|apply FNext|apply FInit]; cbn [d_lx d_toks d_oidx d_cur]; eauto.
  Qed.

  Lemma exec_pops_mono : forall ops st st', exec_pops st ops = Some st' ->
    (d_disc st' = true -> d_disc st = true) /\ (d_lex_ok st' = true -> d_lex_ok st = true).
  Proof.
    induction ops as [|o ops IH]; intros st st' H; cbn [exec_pops] in H.
    - inversion H; subst. auto.
    - destruct (exec_pop st o) as [st1|] eqn:E; [|discriminate]. destruct (IH _ _ H) as [A B].
      destruct (exec_pop_mono _ _ _ E) as (M1 & _ & M3). auto.
  Qed.

  Lemma exec_pops_inv : forall ops st st', dinv st -> exec_pops st ops = Some st' ->
    d_disc st' = true -> d_lex_ok st' = true -> dinv st' /\ d_disc st = true /\ d_lex_ok st = true.
  Proof.
    induction ops as [|o ops IH]; intros st st' Hi H Hd Hok; cbn [exec_pops] in H.
    - inversion H; subst. auto.
    - destruct (exec_pop st o) as [st1|] eqn:E; [|discriminate].
      destruct (exec_pop_mono _ _ _ E) as (M1 & M2 & M3).
      assert (Hi1 : dinv st1 -> dinv st' /\ d_disc st1 = true /\ d_lex_ok st1 = true) by (intros X; eapply IH; eauto).
      (* flags of st1 follow from those of st' by monotonicity of the remaining run *)
      assert (Hm : d_disc st1 = true /\ d_lex_ok st1 = true) by (destruct (exec_pops_mono _ _ _ H); auto).
      destruct Hm as [D1 K1]. destruct (Hi1 (exec_pop_inv _ _ _ Hi E D1 K1)) as (A & _ & _). auto.
  Qed.

  (** doc_pump_tiles *)
  Lemma doc_pump_tiles : forall toks answers ops st,
    nonempty_toks toks -> tiles toks G0 G1 ->
    doc_run toks answers ops = Some st ->
    d_disc st = true -> d_lex_ok st = true -> d_cur st = TK_TkEof ->
    tiles (deats (d_out st)) G0 G1.
  Proof.
    intros toks answers ops st Hne Ht H Hd Hok Hc.
    assert (I0 : dinv (dst_new toks answers)).
    { constructor; cbn [dst_new d_toks d_out d_cur d_crange]; [exact Hne|]. exists G0, G0. cbn [deats tiles].
      split; [reflexivity|]. split; [rewrite none_invalid; discriminate|]. split; [reflexivity|].
      split; [intros C; vm_compute in C; discriminate|]. apply FInit; cbn [dst_new d_lx d_oidx d_cur d_toks]; auto. }
    assert (Hfin : forall st0, dinv st0 -> exec_pops st0 ops = Some st -> tiles (deats (d_out st)) G0 G1).
    { intros st0 I H1. destruct (exec_pops_inv _ _ _ I H1 Hd Hok) as ([_ (E & F & J1 & J2 & J3 & J4 & J5)] & _ & _).
      rewrite Hc, eof_invalid in J3. rewrite (J3 eq_refl), (J4 Hc) in J1. exact J1. }
    unfold doc_run in H. destruct toks as [|t0 toks'].
    - eapply Hfin; eauto.
    - destruct (d_bump 2 (dst_new (t0 :: toks') answers)) as [st1|] eqn:Hb; [|discriminate].
      assert (Hm : d_lex_ok st1 = true) by (destruct (exec_pops_mono _ _ _ H); auto).
      eapply Hfin; [eapply d_bump_spec; eauto|exact H].
  Qed.
End Group.
