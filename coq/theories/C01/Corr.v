(** C01/Corr.v — executable comparison of implementation observations with the model (correspondence check;
    the harness writes the case terms). *)
From EV Require Import C01.Model.
Local Open Scope N_scope.

Fixpoint tree_eqb (a b : tree) {struct a} : bool :=
  match a, b with
  | Tok k s l, Tok k' s' l' => (k =? k') && (s =? s') && (l =? l')
  | Node k cs, Node k' cs' =>
      (k =? k') &&
      (fix go (x y : list tree) {struct x} : bool :=
         match x, y with
         | [], [] => true
         | c :: r, c' :: r' => tree_eqb c c' && go r r'
         | _, _ => false
         end) cs cs'
  | _, _ => false
  end.

(** an event list and what the real [LuaTreeBuilder] made of it ([None] = it panicked) *)
Record bcase := { b_events : list event; b_tree : option tree }.

Definition check_build (c : bcase) : bool :=
  match run (b_events c), b_tree c with
  | Some t, Some t' => tree_eqb t t'
  | None, None => true
  | _, _ => false
  end.

(** *** the token pump: replay of the real parser's recorded operation sequence *)
From EV Require Import C01.Pump.

Definition event_eqb (a b : event) : bool :=
  match a, b with
  | NodeStart k p, NodeStart k' p' => (k =? k') && Nat.eqb p p'
  | EatToken k s l, EatToken k' s' l' => (k =? k') && (s =? s') && (l =? l')
  | NodeEnd, NodeEnd => true
  | Trivia, Trivia => true
  | _, _ => false
  end.

Fixpoint events_eqb (a b : list event) : bool :=
  match a, b with
  | [], [] => true
  | x :: r, y :: r' => event_eqb x y && events_eqb r r'
  | _, _ => false
  end.

(** the lexer's tokens, doc on/off, the recorded operations, and what the real parser ended with *)
Record pcase := { pc_tokens : list leaf; pc_doc : bool; pc_ops : list op; pc_events : list event; pc_level : Z }.

Definition pump_run (c : pcase) : option pst := exec_ops true (pst_new (pc_tokens c) (pc_doc c)) (pc_ops c).

(** the model pump, driven by the recorded operations, produces the real event list and mark level *)
Definition check_pump (c : pcase) : bool :=
  match pump_run c with
  | Some st => events_eqb (fst (p_m st)) (pc_events c) && Z.eqb (snd (p_m st)) (pc_level c)
  | None => false
  end.

(** the obligation of the (un-modelled) doc parser on this trace: every run re-emitted a tiling of its range *)
Definition pump_doc_ok (c : pcase) : bool :=
  match pump_run c with Some st => p_doc_ok st | None => true end.

(** the hypotheses of [mark_level_exact] / [pump_emits_all] that concern the client, on this trace *)
Definition pump_disc_ok (c : pcase) : bool :=
  match pump_run c with Some st => p_disc st | None => true end.

(** the unproved part of markers_balanced, on this trace: no prefix closes more than it opened *)
Definition pump_prefix_ok (c : pcase) : bool := prefix_ok (pc_events c) 0.

(** 4 bits: replay agrees, doc obligation met, client discipline respected, prefixes balanced *)
Definition pump_report (c : pcase) : N :=
  (if check_pump c then 1 else 0) + (if pump_doc_ok c then 2 else 0) + (if pump_disc_ok c then 4 else 0) + (if pump_prefix_ok c then 8 else 0).

(** *** the Lua lexer: model token list = real token list *)
From EV Require Import C01.LuaLexer.

Fixpoint leaves_eqb (a b : list leaf) : bool :=
  match a, b with
  | [], [] => true
  | (k, (s, l)) :: r, (k', (s', l')) :: r' => (k =? k') && (s =? s') && (l =? l') && leaves_eqb r r'
  | _, _ => false
  end.

(** text, language level (index of LuaLanguageLevel), the non-ASCII characters of the text that Rust classifies as
    alphabetic / alphanumeric, and the token list of the real lexer *)
Record lcase := { lc_text : text; lc_level : N; lc_alpha : list N; lc_alnum : list N; lc_tokens : list leaf }.

Definition check_lex (c : lcase) : bool :=
  leaves_eqb (lua_tokenize (level_features (lc_level c)) (fun ch => mem ch (lc_alpha c)) (fun ch => mem ch (lc_alnum c)) (lc_text c))
             (lc_tokens c).

(** *** the doc parser's token pump: replay of the recorded primitives over the recorded lexer answers *)
From EV Require Import C01.DocPump.

Definition dop_eqb (a b : dop) : bool :=
  match a, b with
  | DMark k, DMark k' => k =? k'
  | DSetKind p k, DSetKind p' k' => Nat.eqb p p' && (k =? k')
  | DComplete p, DComplete p' => Nat.eqb p p'
  | DUndo p, DUndo p' => Nat.eqb p p'
  | DPrecede s k, DPrecede s' k' => Nat.eqb s s' && (k =? k')
  | DRawEnd, DRawEnd => true
  | DEat k s l, DEat k' s' l' => (k =? k') && (s =? s') && (l =? l')
  | _, _ => false
  end.

Fixpoint dops_eqb (a b : list dop) : bool :=
  match a, b with
  | [], [] => true
  | x :: r, y :: r' => dop_eqb x y && dops_eqb r r'
  | _, _ => false
  end.

(** the comment group handed to the doc parser, the results of the doc lexer, the primitives performed, and what the
    real doc parser did to the event list (marker operations and eaten tokens, in order) *)
Record dcase := { dc_toks : list leaf; dc_answers : list (tkind * N); dc_ops : list pop; dc_out : list dop }.

(** bits: 1 the model pump reproduces the real output; 2 lexer answers respected the Reader discipline;
    4 client discipline respected; 8 the run ended with current = TkEof; 16 the group's tokens are non-empty *)
Definition doc_report (c : dcase) : N :=
  match doc_run (dc_toks c) (dc_answers c) (dc_ops c) with
  | Some st =>
      (if dops_eqb (d_out st) (dc_out c) then 1 else 0) + (if d_lex_ok st then 2 else 0) + (if d_disc st then 4 else 0) +
      (if d_cur st =? TK_TkEof then 8 else 0) + (if forallb (fun t => 1 <=? snd (snd t)) (dc_toks c) then 16 else 0)
  | None => 0
  end.
