(** C01/Proofs.v — lemmas about the builder model (layer d). *)
From Coq Require Import PeanoNat.
From EV Require Import C01.Model.
Local Open Scope N_scope.

Lemma leaves_node : forall k cs, leaves (Node k cs) = leaves_list cs.
Proof.
  intros k cs. cbn [leaves]. unfold leaves_list. induction cs as [|c r IH]; [reflexivity|].
  cbn [flat_map]. rewrite <- IH. reflexivity.
Qed.

Lemma leaves_list_app : forall a b, leaves_list (a ++ b) = leaves_list a ++ leaves_list b.
Proof. intros. unfold leaves_list. apply flat_map_app. Qed.

Lemma leaves_list_cons : forall a b, leaves_list (a :: b) = leaves a ++ leaves_list b.
Proof. reflexivity. Qed.

Lemma leaves_list_split : forall n cs, leaves_list (firstn n cs) ++ leaves_list (skipn n cs) = leaves_list cs.
Proof. intros. rewrite <- leaves_list_app, firstn_skipn. reflexivity. Qed.

(** *** finish_node keeps the leaves of [children], in order *)

Lemma scan_end_le : forall p cs lo e r, scan_end p cs lo e = Some r -> (r <= e)%nat.
Proof.
  induction e as [|e IH]; intros r H; cbn [scan_end] in H.
  - inversion H. lia.
  - destruct (Nat.ltb lo (S e)).
    + destruct (nth_error cs (S e)) as [t|]; [|discriminate].
      destruct (p t).
      * apply IH in H. lia.
      * inversion H. lia.
    + inversion H. lia.
Qed.

Lemma skipn_skipn' : forall A (l : list A) x y, skipn x (skipn y l) = skipn (y + x) l.
Proof.
  intros A l x y. revert l. induction y as [|y IH]; intros l; [reflexivity|].
  destruct l as [|a l]; [cbn; destruct x; reflexivity|]. cbn [skipn Nat.add]. apply IH.
Qed.

Lemma firstn_app_exact : forall A (l1 l2 : list A) n, n = length l1 -> firstn n (l1 ++ l2) = l1.
Proof. intros A l1 l2 n ->. induction l1; cbn; [destruct l2; reflexivity|f_equal; assumption]. Qed.

Lemma skipn_app_exact : forall A (l1 l2 : list A) n, n = length l1 -> skipn n (l1 ++ l2) = l2.
Proof. intros A l1 l2 n ->. induction l1; cbn; auto. Qed.

Lemma three_way : forall (cs : list tree) a b, (a <= S b)%nat -> (S b <= length cs)%nat ->
  cs = firstn a cs ++ firstn (S b - a) (skipn a cs) ++ skipn (S b) cs.
Proof.
  intros cs a b Hab Hb.
  rewrite <- (firstn_skipn a cs) at 1. f_equal.
  rewrite <- (firstn_skipn (S b - a) (skipn a cs)) at 1. f_equal.
  rewrite skipn_skipn'. f_equal. lia.
Qed.

Lemma finish_trim_leaves : forall p pk fs ps cs s',
  cs <> [] -> finish_trim p pk fs ps cs = Some s' ->
  leaves_list (children s') = leaves_list cs /\ parents s' = ps.
Proof.
  intros p pk fs ps cs s' Hne H. unfold finish_trim in H.
  set (a := scan_fwd p (skipn fs cs) fs) in *.
  destruct (scan_end p cs a (length cs - 1)) as [b|] eqn:Hb; [|discriminate].
  apply scan_end_le in Hb.
  assert (Hlen : (1 <= length cs)%nat) by (destruct cs; [congruence|cbn; lia]).
  assert (Hsplit : (a <= S b)%nat -> cs = firstn a cs ++ firstn (S b - a) (skipn a cs) ++ skipn (S b) cs).
  { intros Hab. apply three_way; lia. }
  remember (S b) as sb eqn:Hsb.
  destruct (Nat.ltb_spec sb a) as [Hpanic|Hab]; [discriminate|].
  specialize (Hsplit Hab).
  assert (Hfa : length (firstn a cs) = a) by (rewrite firstn_length; lia).
  destruct (Nat.ltb_spec sb (length cs)) as [Hlt|Hge]; injection H as H; subst s'; cbn [children parents]; (split; [|reflexivity]).
  - rewrite firstn_app_exact by (symmetry; exact Hfa).
    rewrite skipn_app_exact by (symmetry; exact Hfa).
    rewrite leaves_list_app, leaves_list_cons, leaves_node.
    rewrite Hsplit at 4. rewrite !leaves_list_app. reflexivity.
  - (* the push branch: nothing trails, so the node lands where it was cut out *)
    assert (Hnil : skipn sb cs = []) by (apply skipn_all2; lia).
    rewrite Hsplit at 4. rewrite Hnil.
    rewrite !leaves_list_app, leaves_list_cons, leaves_node.
    change (leaves_list (@nil tree)) with (@nil leaf). rewrite !app_nil_r. reflexivity.
Qed.

Lemma finish_node_leaves : forall s s', gb_finish_node s = Some s' ->
  leaves_list (children s') = leaves_list (children s).
Proof.
  intros [ps cs] s' H. unfold gb_finish_node in H. cbn [parents children] in *.
  destruct ps as [|[pk fs] ps]; [inversion H; reflexivity|].
  destruct cs as [|c cs]; [inversion H; reflexivity|].
  set (l := c :: cs) in *.
  destruct (mem pk gb_pull_kinds).
  - destruct (scan_back l fs) as [a|]; [|discriminate].
    destruct (Nat.ltb (length l) _); [discriminate|].
    inversion H; subst s'. cbn [children].
    rewrite leaves_list_app, leaves_list_cons, leaves_node. cbn [leaves_list flat_map].
    rewrite app_nil_r. apply leaves_list_split.
  - destruct (mem pk gb_wsonly_kinds); eapply finish_trim_leaves in H; try (subst l; discriminate); apply H.
Qed.

Lemma finish_node_parents : forall s s', gb_finish_node s = Some s' ->
  (length (parents s') <= length (parents s))%nat /\
  (parents s <> [] -> children s <> [] -> S (length (parents s')) = length (parents s)).
Proof.
  intros [ps cs] s' H. unfold gb_finish_node in H. cbn [parents children] in *.
  destruct ps as [|[pk fs] ps]; [inversion H; cbn; split; [lia|congruence]|].
  destruct cs as [|c cs]; [inversion H; cbn; split; [lia|congruence]|].
  set (l := c :: cs) in *.
  assert (parents s' = ps).
  { destruct (mem pk gb_pull_kinds).
    - destruct (scan_back l fs) as [a|]; [|discriminate].
      destruct (Nat.ltb (length l) _); [discriminate|]. inversion H; reflexivity.
    - destruct (mem pk gb_wsonly_kinds); eapply finish_trim_leaves in H; try (subst l; discriminate); apply H. }
  rewrite H0. cbn. split; [lia|reflexivity].
Qed.

(** *** token and start_node *)
Lemma token_leaves : forall s k a b, leaves_list (children (gb_token s k a b)) = leaves_list (children s) ++ [(k, (a, b))].
Proof. intros. cbn [gb_token children]. rewrite leaves_list_app. reflexivity. Qed.

Lemma start_nodes_children : forall ks s, children (fold_left gb_start_node ks s) = children s.
Proof. induction ks as [|k ks IH]; intros s; [reflexivity|]. cbn [fold_left]. rewrite IH. reflexivity. Qed.

(** *** the event array: mutations only erase [NodeStart]s *)
Lemma set_nth_length : forall A (l : list A) i x, length (set_nth l i x) = length l.
Proof. induction l as [|a l IH]; intros [|i] x; cbn; auto. Qed.

Definition toks_from (j : nat) (evs : list event) : list leaf := tokens_of (skipn j evs).

Lemma set_nth_start_tokens : forall evs p k q k' q' j,
  nth_error evs p = Some (NodeStart k q) ->
  toks_from j (set_nth evs p (NodeStart k' q')) = toks_from j evs.
Proof.
  unfold toks_from.
  induction evs as [|e evs IH]; intros p k q k' q' j H.
  - destruct p; discriminate.
  - destruct p as [|p]; cbn [nth_error] in H.
    + inversion H; subst e. cbn [set_nth]. destruct j; reflexivity.
    + cbn [set_nth]. destruct j as [|j].
      * cbn [skipn tokens_of]. specialize (IH p k q k' q' O H). cbn [skipn] in IH.
        destruct e; rewrite ?IH; reflexivity.
      * cbn [skipn]. eapply IH; eauto.
Qed.

Lemma set_nth_skip : forall (evs : list event) i x, skipn (S i) (set_nth evs i x) = skipn (S i) evs.
Proof.
  induction evs as [|e evs IH]; intros [|i] x; try reflexivity.
  cbn [set_nth]. change (skipn (S (S i)) (e :: ?l)) with (skipn (S i) l). apply IH.
Qed.

Lemma follow_parents_inv : forall fuel evs pp acc evs' ks,
  follow_parents fuel evs pp acc = Some (evs', ks) ->
  length evs' = length evs /\ forall j, toks_from j evs' = toks_from j evs.
Proof.
  induction fuel as [|f IH]; intros evs pp acc evs' ks H.
  - destruct pp; cbn in H; [inversion H; auto|discriminate].
  - destruct pp as [|pp]; cbn [follow_parents] in H; [inversion H; auto|].
    destruct (nth_error evs (S pp)) as [[k p| | |]|] eqn:Hn; try discriminate.
    apply IH in H. destruct H as [Hl Ht]. rewrite set_nth_length in Hl. split; [exact Hl|].
    intros j. rewrite Ht. eapply set_nth_start_tokens; eauto.
Qed.

Lemma toks_from_step : forall evs i e, nth_error evs i = Some e ->
  toks_from i evs = match e with EatToken k s l => [(k, (s, l))] | _ => [] end ++ toks_from (S i) evs.
Proof.
  unfold toks_from. induction evs as [|a evs IH]; intros [|i] e H; try discriminate.
  - cbn in H. inversion H; subst a. cbn [skipn]. destruct e; reflexivity.
  - cbn [nth_error] in H. cbn [skipn]. apply IH; assumption.
Qed.

Lemma toks_from_set_nth_S : forall evs i x, toks_from (S i) (set_nth evs i x) = toks_from (S i) evs.
Proof. intros. unfold toks_from. rewrite set_nth_skip. reflexivity. Qed.

(** invariant of the main loop: what is already in [children] followed by the tokens still to come *)
Lemma build_step_inv : forall evs g i evs' g',
  build_step (evs, g) i = Some (evs', g') ->
  length evs' = length evs /\
  leaves_list (children g') ++ toks_from (S i) evs' = leaves_list (children g) ++ toks_from i evs.
Proof.
  intros evs g i evs' g' H. unfold build_step in H.
  destruct (nth_error evs i) as [e|] eqn:Hn; [|discriminate].
  rewrite (toks_from_step _ _ _ Hn).
  destruct e as [k parent|k s l| |].
  - destruct (k =? SK_None).
    + inversion H; subst. rewrite set_nth_length, toks_from_set_nth_S. auto.
    + destruct (follow_parents _ _ _ _) as [[evs2 ks]|] eqn:Hf; [|discriminate].
      inversion H; subst. apply follow_parents_inv in Hf. destruct Hf as [Hl Ht].
      rewrite set_nth_length in Hl. split; [exact Hl|].
      rewrite start_nodes_children, Ht, toks_from_set_nth_S. reflexivity.
  - inversion H; subst. rewrite set_nth_length, toks_from_set_nth_S, token_leaves, <- app_assoc. auto.
  - destruct (gb_finish_node g) as [g2|] eqn:Hg; [|discriminate]. inversion H; subst.
    rewrite set_nth_length, toks_from_set_nth_S, (finish_node_leaves _ _ Hg). auto.
  - inversion H; subst. rewrite set_nth_length, toks_from_set_nth_S. auto.
Qed.

Lemma build_loop_inv : forall n i evs g evs' g',
  build_loop n i (evs, g) = Some (evs', g') ->
  length evs' = length evs /\
  leaves_list (children g') ++ toks_from (n + i) evs' = leaves_list (children g) ++ toks_from i evs.
Proof.
  induction n as [|n IH]; intros i evs g evs' g' H; cbn [build_loop] in H.
  - inversion H; subst. auto.
  - destruct (build_step (evs, g) i) as [[evs1 g1]|] eqn:Hs; [|discriminate].
    apply build_step_inv in Hs. destruct Hs as [Hl1 Ht1].
    apply IH in H. destruct H as [Hl2 Ht2]. split; [congruence|].
    replace (S n + i)%nat with (n + S i)%nat by lia. rewrite Ht2, Ht1. reflexivity.
Qed.

Lemma toks_from_all : forall evs n, (length evs <= n)%nat -> toks_from n evs = [].
Proof. intros. unfold toks_from. rewrite skipn_all2 by assumption. reflexivity. Qed.

(** after [build], [children] holds exactly the event list's tokens, in order — for EVERY event list *)
Lemma build_leaves : forall evs g, build evs = Some g -> leaves_list (children g) = tokens_of evs.
Proof.
  intros evs g H. unfold build in H.
  destruct (build_loop _ _ _) as [[evs' g1]|] eqn:Hl; [|discriminate].
  apply build_loop_inv in Hl. destruct Hl as [Hlen Ht].
  rewrite toks_from_all in Ht by lia. rewrite app_nil_r in Ht.
  rewrite (finish_node_leaves _ _ H), Ht. reflexivity.
Qed.

(** *** finish *)
Lemma close_open_leaves : forall fuel s s', close_open fuel s = Some s' ->
  leaves_list (children s') = leaves_list (children s).
Proof.
  induction fuel as [|f IH]; intros s s' H; cbn [close_open] in H.
  - assert (s' = s) by (destruct (parents s); destruct (children s); congruence). subst. reflexivity.
  - destruct (parents s) eqn:Hp; [inversion H; reflexivity|].
    destruct (children s) eqn:Hc; [inversion H; subst; rewrite Hc; reflexivity|].
    destruct (gb_finish_node s) as [s1|] eqn:Hf; [|discriminate].
    apply IH in H. rewrite H, (finish_node_leaves _ _ Hf), Hc. reflexivity.
Qed.

(** with enough fuel (the number of open parents) nothing stays open next to a non-empty [children] *)
Lemma close_open_closed : forall fuel s s', (length (parents s) <= fuel)%nat -> close_open fuel s = Some s' ->
  parents s' = [] \/ children s' = [].
Proof.
  induction fuel as [|f IH]; intros s s' Hle H; cbn [close_open] in H.
  - destruct (parents s) eqn:Hp; [inversion H; subst; auto|cbn in Hle; lia].
  - destruct (parents s) eqn:Hp; [inversion H; subst; auto|].
    destruct (children s) eqn:Hc; [inversion H; subst; auto|].
    destruct (gb_finish_node s) as [s1|] eqn:Hf; [|discriminate].
    apply finish_node_parents in Hf. destruct Hf as [_ Hf].
    eapply IH; [|exact H]. rewrite Hp, Hc in Hf. cbn [length] in *.
    assert (S (length (parents s1)) = S (length l)) by (apply Hf; discriminate). lia.
Qed.

Lemma adopt_rest_leaves : forall cs, leaves_list (adopt_rest cs) = leaves_list cs.
Proof.
  intros [|first [|x rest]]; try reflexivity.
  cbn [adopt_rest]. destruct first as [k s l|k sub].
  - cbn [leaves_list flat_map]. rewrite app_nil_r, leaves_node. reflexivity.
  - destruct (k =? SK_Chunk).
    + cbn [leaves_list flat_map]. rewrite app_nil_r, !leaves_node, leaves_list_app. reflexivity.
    + cbn [leaves_list flat_map]. rewrite app_nil_r, leaves_node. reflexivity.
Qed.

Lemma adopt_rest_short : forall cs, (length (adopt_rest cs) <= 1)%nat.
Proof.
  intros [|first [|x rest]]; cbn; try lia.
  destruct first as [k s l|k sub]; [cbn; lia|]. destruct (k =? SK_Chunk); cbn; lia.
Qed.

Lemma finish_leaves : forall s t, gb_finish s = Some t -> leaves t = leaves_list (children s).
Proof.
  intros s t H. unfold gb_finish in H.
  destruct (close_open _ s) as [s1|] eqn:Hc; [|discriminate].
  apply close_open_leaves in Hc. rewrite <- Hc, <- adopt_rest_leaves.
  pose proof (adopt_rest_short (children s1)) as Hs.
  destruct (adopt_rest (children s1)) as [|root [|x r]]; [| |cbn in Hs; lia].
  - inversion H. reflexivity.
  - inversion H. destruct (is_chunk root).
    + cbn [leaves_list flat_map]. rewrite app_nil_r. reflexivity.
    + rewrite leaves_node. reflexivity.
Qed.

(** the root is always a Chunk *)
Lemma finish_root_chunk : forall s t, gb_finish s = Some t -> is_chunk t = true.
Proof.
  intros s t H. unfold gb_finish in H.
  destruct (close_open _ s) as [s1|]; [|discriminate].
  destruct (adopt_rest (children s1)) as [|root r]; inversion H.
  - cbn. apply N.eqb_refl.
  - destruct (is_chunk root) eqn:E; [exact E|]. cbn. apply N.eqb_refl.
Qed.

(** *** builder_yield *)
Lemma builder_yield : forall evs t, run evs = Some t -> leaves t = tokens_of evs.
Proof.
  intros evs t H. unfold run in H. destruct (build evs) as [g|] eqn:Hb; [|discriminate].
  rewrite (finish_leaves _ _ H). apply build_leaves. exact Hb.
Qed.

Lemma builder_root_chunk : forall evs t, run evs = Some t -> is_chunk t = true.
Proof.
  intros evs t H. unfold run in H. destruct (build evs) as [g|]; [|discriminate].
  eapply finish_root_chunk; eauto.
Qed.

(** the ORIGINAL [finish] keeps only [children.first()]: a suffix is lost as soon as the event list closes the
    Chunk early.  Witness: the shape of the events of ["{,then"] (one NodeEnd too many). *)
Definition orig_witness : list event :=
  [NodeStart SK_Block 0; EatToken TK_TkLeftBrace 0 1; NodeEnd; NodeEnd; EatToken TK_TkComma 1 1; EatToken TK_TkThen 2 4; NodeEnd].

Lemma builder_yield_orig_refuted : exists evs t, run_orig evs = Some t /\ leaves t <> tokens_of evs.
Proof.
  exists orig_witness. eexists. split; [vm_compute; reflexivity|]. vm_compute. discriminate.
Qed.

(** the original is lossless exactly when a single element is left at top level and nothing is open *)
Lemma builder_yield_orig_disciplined : forall evs g,
  build evs = Some g -> length (children g) = 1%nat ->
  leaves (gb_finish_orig g) = tokens_of evs.
Proof.
  intros evs g Hb Hl. rewrite <- (build_leaves _ _ Hb). unfold gb_finish_orig.
  destruct (children g) as [|root [|x r]]; try discriminate.
  cbn [leaves_list flat_map]. rewrite app_nil_r.
  destruct (is_chunk root); [reflexivity|]. rewrite leaves_node. cbn [leaves_list flat_map]. rewrite app_nil_r. reflexivity.
Qed.

(** *** text level *)
Lemma concat_slices_app : forall t a b x y,
  concat_slices t a = Some x -> concat_slices t b = Some y -> concat_slices t (a ++ b) = Some (x ++ y).
Proof.
  induction a as [|[k [s l]] a IH]; intros b x y Ha Hb; cbn [concat_slices app] in *.
  - inversion Ha. exact Hb.
  - destruct (slice t s (s + l)) as [p|]; [|discriminate].
    destruct (concat_slices t a) as [q|] eqn:Hq; [|discriminate]. inversion Ha; subst x.
    rewrite (IH b q y eq_refl Hb), app_assoc. reflexivity.
Qed.
