(** C01/LuaLexer.v — transcription of [crates/emmylua_parser/src/lexer/lua_lexer.rs] ([lex], [lex_new_line],
    [lex_white_space], [skip_sep], [lex_string], [lex_long_string], [lex_number], [name_to_kind]) over the Reader
    model, branch for branch.  Definitions only.  Error reporting ([self.error]) does not touch the reader or the
    token kind and is omitted.  [char::is_alphabetic] / [is_alphanumeric] are exact for ASCII; for other characters
    they are the parameters [uni_alpha] / [uni_alnum] (Unicode tables are not transcribed). *)
From EV Require Export Base.Reader C01.Model C01.LexModel.
Local Open Scope N_scope.

(** [enum LexerState] *)
Inductive lstate : Type :=
| LNormal
| LString (quote : cp)
| LLongString (sep : N)
| LLongComment (sep : N).

Section Lexer.
  Variable feats : list N.                (* LexerConfig.features as the list of supported LuaFeatures *)
  Variable uni_alpha : cp -> bool.        (* char::is_alphabetic on non-ASCII characters *)
  Variable uni_alnum : cp -> bool.        (* char::is_alphanumeric on non-ASCII characters *)

  Definition sup (f : N) : bool := mem f feats.

  Definition is_digit (c : cp) : bool := (48 <=? c) && (c <=? 57).
  Definition is_ascii_alpha (c : cp) : bool := ((65 <=? c) && (c <=? 90)) || ((97 <=? c) && (c <=? 122)).
  Definition is_alphabetic (c : cp) : bool := if c <? 128 then is_ascii_alpha c else uni_alpha c.
  Definition is_alphanumeric (c : cp) : bool := if c <? 128 then is_ascii_alpha c || is_digit c else uni_alnum c.
  Definition is_hex_digit (c : cp) : bool := is_digit c || ((97 <=? c) && (c <=? 102)) || ((65 <=? c) && (c <=? 70)).
  (** [fn is_name_start] / [fn is_name_continue] (lexer/mod.rs) *)
  Definition is_name_start (c : cp) : bool := is_alphabetic c || (c =? 95).
  Definition is_name_continue (c : cp) : bool := is_alphanumeric c || (c =? 95).

  Definition cur_is (r : reader) (c : cp) : bool := current_char r =? c.

  Fixpoint text_eqb (a b : text) : bool :=
    match a, b with
    | [], [] => true
    | x :: r, y :: r' => (x =? y) && text_eqb r r'
    | _, _ => false
    end.

  (** [fn name_to_kind] over the generated keyword table *)
  Fixpoint kw_lookup (tbl : list (list N * N * N)) (name : text) : tkind :=
    match tbl with
    | [] => TK_TkName
    | (w, k, f) :: rest =>
        if text_eqb w name then (if (f =? 0) || sup f then k else TK_TkName) else kw_lookup rest name
    end.
  Definition name_to_kind (name : text) : tkind := kw_lookup keyword_table name.

  (** [fn lex_new_line]: the reader part *)
  Definition lex_new_line (r : reader) : reader :=
    if cur_is r 10 then let r := bump r in if cur_is r 13 then bump r else r
    else if cur_is r 13 then let r := bump r in if cur_is r 10 then bump r else r
    else r.

  (** [fn lex_white_space] *)
  Definition lex_white_space (r : reader) : reader := fst (eat_while (fun c => (c =? 32) || (c =? 9)) r).

  (** [fn lex_string]: the loop, one iteration per unread character at most *)
  Fixpoint lex_string_loop (fuel : text) (quote : cp) (r : reader) : reader :=
    match fuel with
    | [] => r
    | _ :: fuel' =>
        if is_eof r then r
        else
          let c := current_char r in
          if (c =? quote) || (c =? 10) || (c =? 13) then r
          else if negb (c =? 92) then lex_string_loop fuel' quote (bump r)
          else
            let r := bump r in
            if cur_is r 122 (* 'z' *) then
              let r := bump r in
              lex_string_loop fuel' quote (fst (eat_while (fun c => (c =? 32) || (c =? 9) || (c =? 13) || (c =? 10)) r))
            else if cur_is r 13 || cur_is r 10 then lex_string_loop fuel' quote (lex_new_line r)
            else lex_string_loop fuel' quote (bump r)
    end.

  Definition lex_string (quote : cp) (st : lstate) (r : reader) : tkind * lstate * reader :=
    let r := lex_string_loop (r_rest r) quote r in
    let st := if cur_is r quote || negb (is_eof r) then LNormal else st in
    if negb (cur_is r quote) then (TK_TkString, st, r)
    else (TK_TkString, st, bump r).

  (** [fn lex_long_string]: returns (end reached, reader) *)
  Fixpoint lex_long_loop (fuel : text) (sep : N) (r : reader) : bool * reader :=
    match fuel with
    | [] => (false, r)
    | _ :: fuel' =>
        if is_eof r then (false, r)
        else if cur_is r 93 (* ']' *) then
          let r := bump r in
          let '(r, count) := eat_when 61 r in
          if (count =? sep) && cur_is r 93 then (true, bump r)
          else lex_long_loop fuel' sep r
        else lex_long_loop fuel' sep (bump r)
    end.

  Definition lex_long_string (sep : N) (st : lstate) (r : reader) : tkind * lstate * reader :=
    let '(ended, r) := lex_long_loop (r_rest r) sep r in
    let st := if ended || negb (is_eof r) then LNormal else st in
    (TK_TkLongString, st, r).

  (** [fn lex_number] *)
  Inductive nstate : Type := NInt | NFloat | NHex | NHexFloat | NWithExpo | NBin.

  Fixpoint number_prefix_loop (fuel : text) (r : reader) : nstate * reader :=
    (* first == '0' => loop { match current { 'x'|'X' => …; 'b'|'B' if BinaryInteger => …; '_' if Underscore => bump; _ => break } } *)
    match fuel with
    | [] => (NInt, r)
    | _ :: fuel' =>
        if cur_is r 120 || cur_is r 88 then (NHex, bump r)
        else if (cur_is r 98 || cur_is r 66) && sup F_BinaryInteger then (NBin, bump r)
        else if cur_is r 95 && sup F_UnderscoreNumber && negb (is_eof r) then number_prefix_loop fuel' (bump r)
        else (NInt, r)
    end.

  Definition sign_next (r : reader) : reader :=
    if (next_char r =? 43) || (next_char r =? 45) then bump r else r.

  Fixpoint number_loop (fuel : text) (ns : nstate) (r : reader) : nstate * reader :=
    match fuel with
    | [] => (ns, r)
    | _ :: fuel' =>
        if is_eof r then (ns, r)
        else
          let c := current_char r in
          if sup F_UnderscoreNumber && (c =? 95) then number_loop fuel' ns (bump r)
          else
            let '(cont, ns', r') :=
              match ns with
              | NInt => if is_digit c then (true, NInt, r)
                        else if c =? 46 then (true, NFloat, r)
                        else if (c =? 101) || (c =? 69) then (true, NWithExpo, sign_next r)
                        else (false, NInt, r)
              | NFloat => if is_digit c then (true, NFloat, r)
                          else if (c =? 101) || (c =? 69) then (true, NWithExpo, sign_next r)
                          else (false, NFloat, r)
              | NHex => if is_hex_digit c then (true, NHex, r)
                        else if c =? 46 then (true, NHexFloat, r)
                        else if (c =? 80) || (c =? 112) then (true, NWithExpo, sign_next r)
                        else (false, NHex, r)
              | NHexFloat => if is_hex_digit c then (true, NHexFloat, r)
                             else if (c =? 80) || (c =? 112) then (true, NWithExpo, sign_next r)
                             else (false, NHexFloat, r)
              | NWithExpo => (is_digit c, NWithExpo, r)
              | NBin => ((c =? 48) || (c =? 49), NBin, r)
              end in
            if cont then number_loop fuel' ns' (bump r') else (ns', r')
    end.

  Definition lex_number (r : reader) : tkind * reader :=
    let first := current_char r in
    let fuel := r_rest r in
    let r := bump r in
    let '(ns, r) :=
      if first =? 48 then number_prefix_loop fuel r
      else if first =? 46 then (NFloat, r)
      else (NInt, r) in
    let '(ns, r) := number_loop fuel ns r in
    if sup F_ComplexNumber && (cur_is r 105 || cur_is r 73) then (TK_TkComplex, bump r)
    else if sup F_LLInteger && match ns with NInt | NHex | NBin => true | _ => false end then
      (TK_TkInt, fst (eat_while (fun c => (c =? 117) || (c =? 85) || (c =? 108) || (c =? 76)) r))
    else (match ns with NInt | NHex => TK_TkInt | _ => TK_TkFloat end, r).

  (** the ["/*" … "*/"] loop *)
  Fixpoint slash_star_loop (fuel : text) (r : reader) : reader :=
    match fuel with
    | [] => r
    | _ :: fuel' =>
        if cur_is r 42 && negb (is_eof r) then
          let r := bump r in
          if cur_is r 47 then bump r else slash_star_loop fuel' r
        else if is_eof r then r
        else slash_star_loop fuel' (bump r)
    end.

  (** [fn lex] *)
  Definition lex (st : lstate) (r0 : reader) : tkind * lstate * reader :=
    let r := reset_buff r0 in
    let c := current_char r in
    let simple (k : tkind) (r : reader) := (k, st, r) in
    if (c =? 10) || (c =? 13) then simple TK_TkEndOfLine (lex_new_line r)
    else if (c =? 32) || (c =? 9) then simple TK_TkWhitespace (lex_white_space r)
    else if c =? 45 (* '-' *) then
      let r := bump r in
      if cur_is r 61 && sup F_MinusAssign then simple TK_TkMinusAssign (bump r)
      else if cur_is r 62 && sup F_ShortFunction then simple TK_TkArrow (bump r)
      else if negb (cur_is r 45) then simple TK_TkMinus r
      else
        let r := bump r in
        let long :=
          if cur_is r 91 then
            let r1 := bump r in
            let '(r1, sep) := eat_when 61 r1 in
            if cur_is r1 91 then Some (bump r1, sep) else None
          else None in
        match long with
        | Some (r2, sep) =>
            let '(_, st', r3) := lex_long_string sep (LLongComment sep) r2 in
            (TK_TkLongComment, st', r3)
        | None =>
            (* note: the characters of a failed long-bracket probe stay consumed *)
            let r := if cur_is r 91 then fst (eat_when 61 (bump r)) else r in
            simple TK_TkShortComment (fst (eat_while not_newline r))
        end
    else if c =? 91 (* '[' *) then
      let r := bump r in
      let '(r, sep) := eat_when 61 r in
      if (sep =? 0) && negb (cur_is r 91) then simple TK_TkLeftBracket r
      else if negb (cur_is r 91) then simple TK_TkLongString r
      else lex_long_string sep (LLongString sep) (bump r)
    else if c =? 61 (* '=' *) then
      let r := bump r in
      if negb (cur_is r 61) then simple TK_TkAssign r else simple TK_TkEq (bump r)
    else if c =? 60 (* '<' *) then
      let r := bump r in
      if cur_is r 61 then simple TK_TkLe (bump r)
      else if cur_is r 60 then
        let r := bump r in
        if cur_is r 61 && sup F_ShiftLeftAssign then simple TK_TkShiftLeftAssign (bump r) else simple TK_TkShl r
      else simple TK_TkLt r
    else if c =? 62 (* '>' *) then
      let r := bump r in
      if cur_is r 61 then simple TK_TkGe (bump r)
      else if cur_is r 62 then
        let r := bump r in
        if cur_is r 61 && sup F_ShiftRightAssign then simple TK_TkShiftRightAssign (bump r) else simple TK_TkShr r
      else simple TK_TkGt r
    else if c =? 126 (* '~' *) then
      let r := bump r in
      if cur_is r 61 then simple TK_TkNe (bump r)
      else if cur_is r 62 && sup F_ShiftRightArithmetic && (next_char r =? 62) then
        let r := bump (bump r) in
        if sup F_ShrArithmeticAssign && cur_is r 61 then simple TK_TkShrArithmeticAssign (bump r)
        else simple TK_TkShrArithmetic r
      else simple TK_TkBitXor r
    else if c =? 58 (* ':' *) then
      let r := bump r in
      if negb (cur_is r 58) then simple TK_TkColon r else simple TK_TkDbColon (bump r)
    else if (c =? 34) || (c =? 39) || (c =? 96) (* quotes *) then
      if (c =? 96) && negb (sup F_StringInterpolation) then simple TK_TkUnknown (bump r)
      else lex_string c (LString c) (bump r)
    else if c =? 46 (* '.' *) then
      if is_digit (next_char r) then let '(k, r) := lex_number r in simple k r
      else
        let r := bump r in
        if negb (cur_is r 46) then simple TK_TkDot r
        else
          let r := bump r in
          if negb (cur_is r 46) then
            if sup F_ConcatAssign && cur_is r 61 then simple TK_TkConcatAssign (bump r) else simple TK_TkConcat r
          else simple TK_TkDots (bump r)
    else if is_digit c then let '(k, r) := lex_number r in simple k r
    else if c =? 47 (* '/' *) then
      let r := bump r in
      let c2 := current_char r in
      if (c2 =? 42) && sup F_SlashStar then simple TK_TkLongComment (slash_star_loop (r_rest r) (bump r))
      else if (c2 =? 61) && sup F_SlashAssign then simple TK_TkSlashAssign (bump r)
      else if negb (c2 =? 47) then simple TK_TkDiv r
      else if sup F_DoubleSlash then simple TK_TkShortComment (fst (eat_while not_newline (bump r)))
      else
        let r := bump r in
        if cur_is r 61 && sup F_DoubleSlashAssign then simple TK_TkDoubleSlashAssign (bump r) else simple TK_TkIDiv r
    else if c =? 42 then
      let r := bump r in if cur_is r 61 && sup F_StarAssign then simple TK_TkStarAssign (bump r) else simple TK_TkMul r
    else if c =? 43 then
      let r := bump r in if cur_is r 61 && sup F_PlusAssign then simple TK_TkPlusAssign (bump r) else simple TK_TkPlus r
    else if c =? 37 then
      let r := bump r in if cur_is r 61 && sup F_PercentAssign then simple TK_TkPercentAssign (bump r) else simple TK_TkMod r
    else if c =? 94 then
      let r := bump r in if cur_is r 61 && sup F_CaretAssign then simple TK_TkCaretAssign (bump r) else simple TK_TkPow r
    else if c =? 35 then simple TK_TkLen (bump r)
    else if c =? 33 (* '!' *) then
      if negb (sup F_Exclamation) then simple TK_TkUnknown (bump r)
      else
        let r := bump r in
        if cur_is r 61 && sup F_NotEqual then simple TK_TkNe (bump r) else simple TK_TkToggle r
    else if c =? 38 (* '&' *) then
      let r := bump r in
      if cur_is r 38 && sup F_DoubleAmpAnd then simple TK_TkLogicalAnd (bump r)
      else if cur_is r 61 && sup F_AmpAssign then simple TK_TkAmpAssign (bump r)
      else simple TK_TkBitAnd r
    else if c =? 124 (* '|' *) then
      let r := bump r in
      if cur_is r 124 && sup F_DoublePipeOr then simple TK_TkLogicalOr (bump r)
      else if cur_is r 61 && sup F_PipeAssign then simple TK_TkPipeAssign (bump r)
      else simple TK_TkBitOr r
    else if c =? 40 then simple TK_TkLeftParen (bump r)
    else if c =? 41 then simple TK_TkRightParen (bump r)
    else if c =? 123 then simple TK_TkLeftBrace (bump r)
    else if c =? 125 then simple TK_TkRightBrace (bump r)
    else if c =? 93 then simple TK_TkRightBracket (bump r)
    else if c =? 59 then simple TK_TkSemicolon (bump r)
    else if c =? 44 then simple TK_TkComma (bump r)
    else if c =? 64 then simple TK_TkAt (bump r)
    else if c =? 63 (* '?' *) then
      let r := bump r in
      if cur_is r 63 && sup F_NilCoalescingOperator then simple TK_TkNilCoalescing (bump r)
      else if cur_is r 46 && sup F_SafeNavigationOperator then simple TK_TkSafeNavigation (bump r)
      else if sup F_Ternary then simple TK_TkTernary r
      else simple TK_TkUnknown r
    else if is_eof r then simple TK_TkEof r
    else if is_name_start c then
      let r := fst (eat_while is_name_continue (bump r)) in
      simple (name_to_kind (current_text r)) r
    else simple TK_TkUnknown (bump r).

  (** one iteration of the [tokenize] loop: dispatch on the lexer state *)
  Definition lua_step (st : lstate) (r : reader) : tkind * lstate * reader :=
    match st with
    | LNormal => lex st r
    | LString q => lex_string q st r
    | LLongString sep => lex_long_string sep st r
    | LLongComment sep => let '(_, st', r') := lex_long_string sep st r in (TK_TkLongComment, st', r')
    end.

  (** [LuaLexer::new(reader, config, …).tokenize()] *)
  Definition lua_tokenize (t : text) : list leaf := fst (fst (tokenize lstate lua_step true LNormal t)).
End Lexer.
