(** C01/Model.v — executable model of the tree-building kernel of emmylua_parser:
      [MarkEvent] lists                         (parser/marker.rs)
      [LuaGreenNodeBuilder]                     (syntax/tree/lua_green_builder.rs)
      [LuaTreeBuilder::build] / [finish]        (syntax/tree/lua_tree_builder.rs)
    transcribed function for function, quirks included.  Definitions only.

    Representation: the Rust builder keeps an arena [elements] and index vectors [children]; every index
    is created once and lives in exactly one place, so the model stores the element itself where Rust
    stores its index.  [Vec] stacks: [parents] has its top at the head; [children] is in Vec order.
    A Rust panic (index out of bounds, [drain] with a decreasing range, [unreachable!()]) is [None]. *)
From EV Require Export Base.Text Gen.C01_Kinds.
Local Open Scope N_scope.

Definition skind := N.   (* LuaSyntaxKind as u16 *)
Definition tkind := N.   (* LuaTokenKind  as u16 *)

(** [enum MarkEvent] *)
Inductive event : Type :=
| NodeStart (k : skind) (parent : nat)
| EatToken (k : tkind) (start len : N)
| NodeEnd
| Trivia.

(** [MarkEvent::none()] *)
Definition ev_none : event := NodeStart SK_None 0.

(** [enum LuaGreenElement] (without the [None] placeholder, which only marks moved-out arena slots) *)
Inductive tree : Type :=
| Tok (k : tkind) (start len : N)
| Node (k : skind) (cs : list tree).

Definition leaf := (tkind * (N * N))%type.

Fixpoint leaves (t : tree) : list leaf :=
  match t with
  | Tok k s l => [(k, (s, l))]
  | Node _ cs => (fix go (l : list tree) : list leaf :=
                    match l with [] => [] | c :: r => leaves c ++ go r end) cs
  end.

Definition leaves_list (l : list tree) : list leaf := flat_map leaves l.

(** the [EatToken] events of an event list, in order *)
Fixpoint tokens_of (evs : list event) : list leaf :=
  match evs with
  | [] => []
  | EatToken k s l :: r => (k, (s, l)) :: tokens_of r
  | _ :: r => tokens_of r
  end.

Definition mem (k : N) (l : list N) : bool := existsb (N.eqb k) l.

(** ** LuaGreenNodeBuilder *)
Record gb : Type := { parents : list (skind * nat); children : list tree }.

Definition gb_new : gb := {| parents := []; children := [] |}.

(** [fn token] *)
Definition gb_token (s : gb) (k : tkind) (st ln : N) : gb :=
  {| parents := parents s; children := children s ++ [Tok k st ln] |}.

(** [fn start_node] *)
Definition gb_start_node (s : gb) (k : skind) : gb :=
  {| parents := (k, length (children s)) :: parents s; children := children s |}.

(** [fn is_trivia] *)
Definition is_trivia (t : tree) : bool :=
  match t with
  | Tok k _ _ => mem k gb_trivia_tokens
  | Node k _ => mem k gb_trivia_nodes
  end.

(** [fn is_trivia_whitespace] *)
Definition is_trivia_whitespace (t : tree) : bool :=
  match t with
  | Tok k _ _ => mem k gb_ws_tokens
  | Node _ _ => false
  end.

(** [while child_start > 0 { if is_trivia(children[child_start - 1]) { child_start -= 1 } else { break } }];
    [None] = index out of bounds *)
Fixpoint scan_back (cs : list tree) (i : nat) : option nat :=
  match i with
  | O => Some O
  | S j => match nth_error cs j with
           | None => None
           | Some t => if is_trivia t then scan_back cs j else Some (S j)
           end
  end.

(** [while child_start < child_count { if p(children[child_start]) { child_start += 1 } else { break } }],
    on the suffix of [children] that starts at [child_start] *)
Fixpoint scan_fwd (p : tree -> bool) (suffix : list tree) (i : nat) : nat :=
  match suffix with
  | [] => i
  | t :: r => if p t then scan_fwd p r (S i) else i
  end.

(** [while child_end > child_start { if p(children[child_end]) { child_end -= 1 } else { break } }] *)
Fixpoint scan_end (p : tree -> bool) (cs : list tree) (lo e : nat) : option nat :=
  match e with
  | O => Some O
  | S e' => if Nat.ltb lo e
            then match nth_error cs e with
                 | None => None
                 | Some t => if p t then scan_end p cs lo e' else Some e
                 end
            else Some e
  end.

(** the two trimming arms of [finish_node], for the predicate [p] *)
Definition finish_trim (p : tree -> bool) (pk : skind) (first_start : nat) (ps : list (skind * nat)) (cs : list tree)
  : option gb :=
  let child_count := length cs in
  let child_start := scan_fwd p (skipn first_start cs) first_start in
  match scan_end p cs child_start (child_count - 1) with
  | None => None
  | Some child_end =>
      (* children.drain(child_start..=child_end): panics when child_start > child_end + 1 *)
      if Nat.ltb (S child_end) child_start then None
      else
        let drained := firstn (S child_end - child_start) (skipn child_start cs) in
        let remaining := firstn child_start cs ++ skipn (S child_end) cs in
        let green := Node pk drained in
        if Nat.ltb (S child_end) child_count
        then (* children.insert(child_start, pos) *)
             Some {| parents := ps; children := firstn child_start remaining ++ green :: skipn child_start remaining |}
        else (* children.push(pos) *)
             Some {| parents := ps; children := remaining ++ [green] |}
  end.

(** [fn finish_node] *)
Definition gb_finish_node (s : gb) : option gb :=
  match parents s, children s with
  | [], _ => Some s                 (* if self.parents.is_empty() || self.children.is_empty() { return; } *)
  | _ :: _, [] => Some s
  | (pk, first_start) :: ps, cs =>
      if mem pk gb_pull_kinds then
        (* Block | Chunk: pull preceding trivia in *)
        match scan_back cs first_start with
        | None => None
        | Some child_start =>
            let first_start' := if Nat.ltb child_start first_start then child_start else first_start in
            (* children.drain(first_start..): panics when first_start > len *)
            if Nat.ltb (length cs) first_start' then None
            else Some {| parents := ps;
                         children := firstn first_start' cs ++ [Node pk (skipn first_start' cs)] |}
        end
      else if mem pk gb_wsonly_kinds then finish_trim is_trivia_whitespace pk first_start ps cs
      else finish_trim is_trivia pk first_start ps cs
  end.

(** [fn finish], after the repair: the parents that are still open are closed, and the root adopts every
    top-level element (the original kept only [children.first()]).
      while !self.parents.is_empty() && !self.children.is_empty() { self.finish_node(); } *)
Fixpoint close_open (fuel : nat) (s : gb) : option gb :=
  match parents s, children s with
  | [], _ => Some s
  | _ :: _, [] => Some s
  | _ :: _, _ :: _ =>
      match fuel with
      | O => Some s
      | S f => match gb_finish_node s with
               | None => None
               | Some s' => close_open f s'
               end
      end
  end.

Definition is_chunk (t : tree) : bool :=
  match t with Node k _ => k =? SK_Chunk | Tok _ _ _ => false end.

(** if self.children.len() > 1 { … the first element, when it is a Chunk, adopts the rest; otherwise a new
    Chunk element holding all of them replaces it … } *)
Definition adopt_rest (cs : list tree) : list tree :=
  match cs with
  | first :: (_ :: _) as rest =>
      match first with
      | Node k sub => if k =? SK_Chunk then [Node k (sub ++ rest)] else [Node SK_Chunk (first :: rest)]
      | Tok _ _ _ => [Node SK_Chunk (first :: rest)]
      end
  | _ => cs
  end.

Definition gb_finish (s : gb) : option tree :=
  match close_open (length (parents s)) s with
  | None => None
  | Some s1 =>
      match adopt_rest (children s1) with
      | [] => Some (Node SK_Chunk [])
      | root :: _ => Some (if is_chunk root then root else Node SK_Chunk [root])
      end
  end.

(** the original [finish] (before the repair): only [children.first()] reaches the tree *)
Definition gb_finish_orig (s : gb) : tree :=
  match children s with
  | [] => Node SK_Chunk []
  | root :: _ => if is_chunk root then root else Node SK_Chunk [root]
  end.

(** ** LuaTreeBuilder::build *)

Fixpoint set_nth {A} (l : list A) (i : nat) (x : A) : list A :=
  match l, i with
  | [], _ => []
  | _ :: r, O => x :: r
  | a :: r, S j => a :: set_nth r j x
  end.

(** the inner [while parent_position > 0] loop: follows [parent] links, erasing the visited starts and
    collecting their kinds (innermost first).  Terminates because every visited event is replaced by
    [MarkEvent::none()], whose parent is 0; [fuel] = number of events + 1. *)
Fixpoint follow_parents (fuel : nat) (evs : list event) (pp : nat) (acc : list skind)
  : option (list event * list skind) :=
  match pp with
  | O => Some (evs, acc)
  | S _ =>
      match fuel with
      | O => None
      | S f =>
          match nth_error evs pp with
          | Some (NodeStart k p) => follow_parents f (set_nth evs pp ev_none) p (acc ++ [k])
          | Some _ => None       (* unreachable!() *)
          | None => None         (* index out of bounds *)
          end
      end
  end.

(** one iteration of [for i in 0..self.events.len()] *)
Definition build_step (st : list event * gb) (i : nat) : option (list event * gb) :=
  let '(evs, g) := st in
  match nth_error evs i with
  | None => None
  | Some e =>
      let evs := set_nth evs i ev_none in
      match e with
      | Trivia => Some (evs, g)
      | NodeStart k parent =>
          if k =? SK_None then Some (evs, g)
          else match follow_parents (S (length evs)) evs parent [k] with
               | None => None
               | Some (evs', kinds) =>
                   (* for kind in parents.drain(..).rev() { self.start_node(kind) } *)
                   Some (evs', fold_left gb_start_node (rev kinds) g)
               end
      | NodeEnd => match gb_finish_node g with
                   | None => None
                   | Some g' => Some (evs, g')
                   end
      | EatToken k s l => Some (evs, gb_token g k s l)
      end
  end.

Fixpoint build_loop (n : nat) (i : nat) (st : list event * gb) : option (list event * gb) :=
  match n with
  | O => Some st
  | S n' => match build_step st i with
            | None => None
            | Some st' => build_loop n' (S i) st'
            end
  end.

(** [fn build]: start_node(Chunk); the loop; finish_node() *)
Definition build (evs : list event) : option gb :=
  match build_loop (length evs) 0 (evs, gb_start_node gb_new SK_Chunk) with
  | None => None
  | Some (_, g) => gb_finish_node g
  end.

(** [builder.build(); builder.finish()] *)
Definition run (evs : list event) : option tree :=
  match build evs with
  | None => None
  | Some g => gb_finish g
  end.

Definition run_orig (evs : list event) : option tree :=
  match build evs with
  | None => None
  | Some g => Some (gb_finish_orig g)
  end.

(** ** text of a tree *)
Fixpoint concat_slices (t : text) (ls : list leaf) : option text :=
  match ls with
  | [] => Some []
  | (_, (s, l)) :: r =>
      match slice t s (s + l), concat_slices t r with
      | Some a, Some b => Some (a ++ b)
      | _, _ => None
      end
  end.

(** [get_red_root().text()]: every token's text is [&text[start..end]] ([build_rowan_green]) *)
Definition tree_text (t : text) (tr : tree) : option text := concat_slices t (leaves tr).

(** the ranges tile [[from, to)] in order *)
Fixpoint tiles (ls : list leaf) (from to : N) : Prop :=
  match ls with
  | [] => from = to
  | (_, (s, l)) :: r => s = from /\ tiles r (from + l) to
  end.

Fixpoint tilesb (ls : list leaf) (from to : N) : bool :=
  match ls with
  | [] => from =? to
  | (_, (s, l)) :: r => (s =? from) && tilesb r (from + l) to
  end.
