(** C01/PumpProofs.v — the token pump emits every token; the marker API keeps the mark level exact. *)
From Coq Require Import PeanoNat ZArith.
From EV Require Import C01.Model C01.Proofs C01.LexProofs C01.Pump.
Local Open Scope N_scope.

(** *** table obligations (re-proved against Gen/C01_Kinds.v on every run) *)
Ltac case_kinds k :=
  repeat match goal with
         | |- context [N.eqb k ?c] => destruct (N.eqb k c)
         end.

(** the three trivia arms of [parse_trivia_tokens] are exactly [is_trivia_kind] *)
Lemma trivia_split : forall k,
  is_trivia_kind k = mem k pt_comment_kinds || mem k pt_eol_kinds || mem k pt_ws_kinds.
Proof.
  intros k. unfold is_trivia_kind, mem, pump_trivia_kinds, pt_comment_kinds, pt_eol_kinds, pt_ws_kinds. cbn [existsb].
  case_kinds k; reflexivity.
Qed.

(** every trivia kind is an "invalid" kind for [bump] (it is emitted by [parse_trivia_tokens] instead) *)
Lemma trivia_invalid : forall k, is_trivia_kind k = true -> is_invalid_kind k = true.
Proof.
  intros k. unfold is_trivia_kind, is_invalid_kind, mem, pump_trivia_kinds, pump_invalid_kinds. cbn [existsb].
  case_kinds k; intros H; try reflexivity; discriminate.
Qed.

(** *** tilings *)
Lemma tiles_app : forall a x m y, tiles a x m -> forall b, tiles b m y -> tiles (a ++ b) x y.
Proof.
  induction a as [|[k [s l]] a IH]; intros x m y H b Hb; cbn [tiles app] in *.
  - subst. exact Hb.
  - destruct H as [H1 H2]. split; [exact H1|]. eapply IH; eauto.
Qed.

Lemma tiles_app_inv : forall a b x y, tiles (a ++ b) x y -> exists m, tiles a x m /\ tiles b m y.
Proof.
  induction a as [|[k [s l]] a IH]; intros b x y H; cbn [tiles app] in *.
  - exists x. split; [reflexivity|exact H].
  - destruct H as [H1 H2]. destruct (IH _ _ _ H2) as (m & A & B). exists m. split; [split; assumption|exact B].
Qed.

Lemma tiles_fun : forall a x y y', tiles a x y -> tiles a x y' -> y = y'.
Proof.
  induction a as [|[k [s l]] a IH]; intros x y y' H H'; cbn [tiles] in *; [congruence|].
  destruct H as [_ H], H' as [_ H']. eapply IH; eauto.
Qed.

Lemma tiles_start : forall t r x y, tiles (t :: r) x y -> group_start (t :: r) = x.
Proof. intros [k [s l]] r x y [H _]. exact H. Qed.

Lemma tiles_end : forall a x y, a <> [] -> tiles a x y -> group_end a = y.
Proof.
  unfold group_end. induction a as [|[k [s l]] a IH]; intros x y Hne H; [congruence|].
  destruct a as [|t a'].
  - cbn [tiles last fst snd] in *. destruct H as [H1 H2]. subst. reflexivity.
  - destruct H as [_ H]. change (last ((k, (s, l)) :: t :: a') (0, (0, 0))) with (last (t :: a') (0, (0, 0))).
    eapply IH; [discriminate|exact H].
Qed.

Lemma tiles_one : forall k s l, tiles [(k, (s, l))] s (s + l).
Proof. intros. cbn. auto. Qed.

(** *** tokens of event lists *)
Lemma tokens_of_app : forall a b, tokens_of (a ++ b) = tokens_of a ++ tokens_of b.
Proof.
  induction a as [|e a IH]; intros b; [reflexivity|]. cbn [app tokens_of]. destruct e; rewrite IH; reflexivity.
Qed.

Lemma tokens_of_eats : forall ts, tokens_of (map eat ts) = ts.
Proof. induction ts as [|[k [s l]] ts IH]; [reflexivity|]. cbn. rewrite IH. reflexivity. Qed.

Lemma tokens_of_set_start : forall evs p k evs', set_start_kind evs p k = Some evs' -> tokens_of evs' = tokens_of evs.
Proof.
  intros evs p k evs' H. unfold set_start_kind in H.
  destruct (nth_error evs p) as [[k0 par| | |]|] eqn:Hn; try discriminate. inversion H; subst.
  apply (set_nth_start_tokens evs p k0 par k par 0 Hn).
Qed.

Definition T (m : mst) : list leaf := tokens_of (fst m).

Lemma T_emit : forall m t, T (emit m t) = T m ++ [t].
Proof. intros [evs lv] [k [s l]]. unfold T, emit, eat. cbn [fst snd]. rewrite tokens_of_app. reflexivity. Qed.

Lemma T_emit_all : forall m ts, T (emit_all m ts) = T m ++ ts.
Proof. intros [evs lv] ts. unfold T, emit_all. cbn [fst snd]. rewrite tokens_of_app, tokens_of_eats. reflexivity. Qed.

Section Composite.
  (** the API as the theorems see it (a non-empty [complete] pushes its own NodeEnd) *)
  Notation exec_dop := (exec_dop false).
  Notation exec_dops := (exec_dops false).

  Lemma exec_dop_tokens : forall raw m d m', Pump.exec_dop raw m d = Some m' ->
    T m' = T m ++ match d with DEat k s l => [(k, (s, l))] | _ => [] end.
  Proof.
    intros raw [evs lv] d m' H. unfold T. destruct d; unfold Pump.exec_dop in H.
    - unfold m_mark in H. inversion H; subst. cbn [fst snd]. rewrite tokens_of_app. reflexivity.
    - unfold m_set_kind in H. cbn [fst snd] in H. destruct (set_start_kind evs p k) eqn:E; [|discriminate].
      inversion H; subst. cbn [fst]. rewrite (tokens_of_set_start _ _ _ _ E), app_nil_r. reflexivity.
    - unfold m_complete in H. cbn [fst snd] in H.
      destruct (nth_error evs p) as [[k0 par| | |]|]; try discriminate.
      destruct (Nat.eqb (length evs) (S p)).
      + destruct (set_start_kind evs p SK_None) eqn:E; [|discriminate]. inversion H; subst. cbn [fst].
        rewrite (tokens_of_set_start _ _ _ _ E), app_nil_r. reflexivity.
      + destruct raw; inversion H; subst; unfold m_raw_end; cbn [fst snd]; rewrite ?tokens_of_app; cbn [tokens_of]; rewrite ?app_nil_r; reflexivity.
    - unfold m_undo in H. cbn [fst snd] in H. destruct (set_start_kind evs p SK_None) eqn:E; [|discriminate].
      inversion H; subst. cbn [fst]. rewrite (tokens_of_set_start _ _ _ _ E), app_nil_r. reflexivity.
    - unfold m_precede, m_mark in H. cbn [fst snd] in H.
      destruct (nth_error (evs ++ [NodeStart k 0]) start) as [[k0 par| | |]|] eqn:Hn; try discriminate.
      inversion H; subst. cbn [fst]. rewrite tokens_of_app. cbn [tokens_of]. rewrite !app_nil_r.
      pose proof (set_nth_start_tokens _ _ _ _ k0 (length evs) 0 Hn) as E. unfold toks_from in E. cbn [skipn] in E.
      rewrite E, tokens_of_app. cbn [tokens_of]. rewrite app_nil_r. reflexivity.
    - unfold m_raw_end in H. inversion H; subst. cbn [fst snd]. rewrite tokens_of_app. reflexivity.
    - inversion H; subst. cbn [fst snd]. rewrite tokens_of_app. reflexivity.
  Qed.

  Lemma exec_dops_tokens : forall raw ds m m', Pump.exec_dops raw m ds = Some m' -> T m' = T m ++ deats ds.
  Proof.
    induction ds as [|d ds IH]; intros m m' H; cbn [Pump.exec_dops deats] in *.
    - inversion H. rewrite app_nil_r. reflexivity.
    - destruct (Pump.exec_dop raw m d) as [m1|] eqn:E; [|discriminate].
      rewrite (IH _ _ H), (exec_dop_tokens _ _ _ _ E). destruct d; rewrite <- ?app_assoc; reflexivity.
  Qed.
End Composite.

(** *** mark level = bracket depth *)
Local Open Scope Z_scope.

Definition wk (k : skind) : Z := if N.eqb k SK_None then 0 else 1.

Lemma depth_app : forall a b, depth (a ++ b) = depth a + depth b.
Proof.
  induction a as [|e a IH]; intros b; [reflexivity|]. cbn [app depth]. destruct e; rewrite IH; lia.
Qed.

Lemma depth_set_nth_start : forall evs p k0 par k par',
  nth_error evs p = Some (NodeStart k0 par) ->
  depth (set_nth evs p (NodeStart k par')) = depth evs - wk k0 + wk k.
Proof.
  induction evs as [|e evs IH]; intros p k0 par k par' H; [destruct p; discriminate|].
  destruct p as [|p]; cbn [nth_error] in H.
  - inversion H; subst. cbn [set_nth depth]. unfold wk. lia.
  - cbn [set_nth depth]. specialize (IH p k0 par k par' H). destruct e; rewrite IH; lia.
Qed.

Lemma live_start_spec : forall evs p, live_start evs p = true ->
  exists k par, nth_error evs p = Some (NodeStart k par) /\ wk k = 1.
Proof.
  intros evs p H. unfold live_start in H. destruct (nth_error evs p) as [[k par| | |]|]; try discriminate.
  exists k, par. split; [reflexivity|]. unfold wk. destruct (N.eqb k SK_None); [discriminate|reflexivity].
Qed.

Lemma wk_not_none : forall k, negb (N.eqb k SK_None) = true -> wk k = 1.
Proof. intros k H. unfold wk. destruct (N.eqb k SK_None); [discriminate|reflexivity]. Qed.

Lemma wk_none : wk SK_None = 0.
Proof. reflexivity. Qed.

Lemma erase_live : forall evs p evs', live_start evs p = true -> set_start_kind evs p SK_None = Some evs' ->
  depth evs' = depth evs - 1.
Proof.
  intros evs p evs' Hl H. destruct (live_start_spec _ _ Hl) as (k & par & Hn & Hw).
  unfold set_start_kind in H. rewrite Hn in H. inversion H; subst.
  rewrite (depth_set_nth_start _ _ _ _ SK_None par Hn), Hw, wk_none. lia.
Qed.

(** one marker operation that respects the discipline keeps [mark_level = depth events] *)
Lemma exec_dop_level : forall m d m',
  exec_dop false m d = Some m' -> mop_ok m d = true -> snd m = depth (fst m) -> snd m' = depth (fst m').
Proof.
  intros [evs lv] d m' H Hok Hinv. cbn [fst snd] in Hinv. subst lv. destruct d; unfold exec_dop in H; cbn [mop_ok fst snd] in Hok.
  - unfold m_mark in H. inversion H; subst. cbn [fst snd]. rewrite depth_app. cbn [depth]. fold (wk k).
    rewrite (wk_not_none _ Hok). lia.
  - apply andb_true_iff in Hok. destruct Hok as [Hk Hl]. destruct (live_start_spec _ _ Hl) as (k0 & par & Hn & Hw).
    unfold m_set_kind, set_start_kind in H. cbn [fst snd] in H. rewrite Hn in H. inversion H; subst. cbn [fst snd].
    rewrite (depth_set_nth_start _ _ _ _ k par Hn), Hw, (wk_not_none _ Hk). lia.
  - apply andb_true_iff in Hok. destruct Hok as [Hok _]. destruct (live_start_spec _ _ Hok) as (k0 & par & Hn & Hw).
    unfold m_complete in H. cbn [fst snd] in H. rewrite Hn in H.
    destruct (Nat.eqb (length evs) (S p)).
    + destruct (set_start_kind evs p SK_None) as [evs1|] eqn:E; [|discriminate]. inversion H; subst. cbn [fst snd].
      rewrite (erase_live _ _ _ Hok E). reflexivity.
    + unfold m_raw_end in H. inversion H; subst. cbn [fst snd]. rewrite depth_app. cbn [depth]. lia.
  - apply andb_true_iff in Hok. destruct Hok as [Hok _]. unfold m_undo in H. cbn [fst snd] in H.
    destruct (set_start_kind evs p SK_None) as [evs1|] eqn:E; [|discriminate]. inversion H; subst. cbn [fst snd].
    rewrite (erase_live _ _ _ Hok E). reflexivity.
  - unfold m_precede, m_mark in H. cbn [fst snd] in H.
    destruct (nth_error (evs ++ [NodeStart k 0]) start) as [[k0 par| | |]|] eqn:Hn; try discriminate.
    inversion H; subst. cbn [fst snd]. rewrite depth_app. cbn [depth].
    rewrite (depth_set_nth_start _ _ _ _ k0 (length evs) Hn), depth_app. cbn [depth]. fold (wk k).
    rewrite (wk_not_none _ Hok). lia.
  - unfold m_raw_end in H. inversion H; subst. cbn [fst snd]. rewrite depth_app. cbn [depth]. lia.
  - inversion H; subst. cbn [fst snd]. rewrite depth_app. cbn [depth]. lia.
Qed.

(** *** every prefix has at least as many live starts as ends *)
Lemma prefix_ok_app : forall a b d, prefix_ok (a ++ b) d = prefix_ok a d && prefix_ok b (d + depth a).
Proof.
  induction a as [|e a IH]; intros b d; cbn [app prefix_ok depth].
  - rewrite Z.add_0_r. reflexivity.
  - destruct e as [k par|k s l| |].
    + rewrite IH. destruct (N.eqb k SK_None); do 2 f_equal; lia.
    + apply IH.
    + rewrite IH, andb_assoc. do 2 f_equal. lia.
    + apply IH.
Qed.

Lemma prefix_ok_mono : forall l d d', prefix_ok l d = true -> d <= d' -> prefix_ok l d' = true.
Proof.
  induction l as [|e l IH]; intros d d' H Hd; cbn [prefix_ok] in *; [reflexivity|].
  destruct e as [k par|k s l0| |].
  - destruct (N.eqb k SK_None); eapply IH; eauto; lia.
  - eapply IH; eauto.
  - apply andb_true_iff in H. destruct H as [H1 H2]. apply andb_true_iff. split.
    + apply Z.leb_le in H1. apply Z.leb_le. lia.
    + eapply IH; eauto. lia.
  - eapply IH; eauto.
Qed.

Lemma prefix_ok_nonneg : forall l d, prefix_ok l d = true -> 0 <= d -> 0 <= d + depth l.
Proof.
  induction l as [|e l IH]; intros d H Hd; cbn [prefix_ok depth] in *; [lia|].
  destruct e as [k par|k s l0| |].
  - destruct (N.eqb k SK_None); [specialize (IH d H Hd)|specialize (IH (d + 1) H)]; lia.
  - specialize (IH d H Hd). lia.
  - apply andb_true_iff in H. destruct H as [H1 H2]. apply Z.leb_le in H1. specialize (IH (d - 1) H2). lia.
  - specialize (IH d H Hd). lia.
Qed.

Lemma split_nth : forall (evs : list event) p e, nth_error evs p = Some e ->
  evs = firstn p evs ++ e :: skipn (S p) evs /\ forall x, set_nth evs p x = firstn p evs ++ x :: skipn (S p) evs.
Proof.
  induction evs as [|a evs IH]; intros [|p] e H; try discriminate.
  - cbn in H. inversion H; subst. split; [reflexivity|intros; reflexivity].
  - cbn [nth_error] in H. destruct (IH p e H) as [A B]. split.
    + cbn [firstn skipn app]. f_equal. exact A.
    + intros x. cbn [set_nth firstn app]. change (skipn (S (S p)) (a :: evs)) with (skipn (S p) evs). f_equal. apply B.
Qed.

(** retagging a start without changing whether it is erased *)
Lemma prefix_ok_retag : forall evs p k0 par k par' d,
  nth_error evs p = Some (NodeStart k0 par) -> wk k = wk k0 ->
  prefix_ok (set_nth evs p (NodeStart k par')) d = prefix_ok evs d.
Proof.
  intros evs p k0 par k par' d Hn Hw. destruct (split_nth _ _ _ Hn) as [A B]. rewrite (B (NodeStart k par')).
  rewrite A at 3. rewrite !prefix_ok_app. cbn [prefix_ok depth]. unfold wk in Hw.
  destruct (N.eqb k SK_None), (N.eqb k0 SK_None); try discriminate; reflexivity.
Qed.

(** erasing a live start that no later NodeEnd needs *)
Lemma prefix_ok_erase : forall evs p k0 par,
  nth_error evs p = Some (NodeStart k0 par) -> unclosed evs p = true -> prefix_ok evs 0 = true ->
  prefix_ok (set_nth evs p (NodeStart SK_None par)) 0 = true.
Proof.
  intros evs p k0 par Hn Hu H. destruct (split_nth _ _ _ Hn) as [A B]. rewrite (B (NodeStart SK_None par)).
  rewrite A in H. rewrite prefix_ok_app in *. cbn [prefix_ok] in *. apply andb_true_iff in H. destruct H as [H1 H2].
  rewrite H1. cbn [andb]. replace (N.eqb SK_None SK_None) with true by reflexivity.
  unfold unclosed in Hu. eapply prefix_ok_mono; [exact Hu|]. apply (prefix_ok_nonneg _ 0 H1). lia.
Qed.

Lemma exec_dop_prefix : forall m d m',
  exec_dop false m d = Some m' -> mop_ok m d = true -> snd m = depth (fst m) ->
  prefix_ok (fst m) 0 = true -> prefix_ok (fst m') 0 = true.
Proof.
  intros [evs lv] d m' H Hok Hinv Hp. cbn [fst snd] in *. subst lv.
  destruct d; unfold exec_dop in H; cbn [mop_ok fst snd] in Hok.
  - unfold m_mark in H. inversion H; subst. cbn [fst]. rewrite prefix_ok_app, Hp. cbn [prefix_ok]. destruct (N.eqb k SK_None); reflexivity.
  - apply andb_true_iff in Hok. destruct Hok as [Hk Hl]. destruct (live_start_spec _ _ Hl) as (k0 & par & Hn & Hw).
    unfold m_set_kind, set_start_kind in H. cbn [fst snd] in H. rewrite Hn in H. inversion H; subst. cbn [fst].
    rewrite (prefix_ok_retag _ _ _ _ k par 0 Hn); [exact Hp|]. rewrite Hw. apply wk_not_none. exact Hk.
  - apply andb_true_iff in Hok. destruct Hok as [Hl Hpos]. destruct (live_start_spec _ _ Hl) as (k0 & par & Hn & Hw).
    unfold m_complete in H. cbn [fst snd] in H. rewrite Hn in H.
    destruct (Nat.eqb_spec (length evs) (S p)) as [El|El].
    + unfold set_start_kind in H. rewrite Hn in H. inversion H; subst. cbn [fst].
      eapply prefix_ok_erase; eauto. unfold unclosed. rewrite skipn_all2 by lia. reflexivity.
    + unfold m_raw_end in H. inversion H; subst. cbn [fst snd]. rewrite prefix_ok_app, Hp. cbn [prefix_ok andb].
      apply Z.ltb_lt in Hpos. rewrite andb_true_r. apply Z.leb_le. lia.
  - apply andb_true_iff in Hok. destruct Hok as [Hl Hu]. destruct (live_start_spec _ _ Hl) as (k0 & par & Hn & Hw).
    unfold m_undo, set_start_kind in H. cbn [fst snd] in H. rewrite Hn in H. inversion H; subst. cbn [fst].
    eapply prefix_ok_erase; eauto.
  - unfold m_precede, m_mark in H. cbn [fst snd] in H.
    destruct (nth_error (evs ++ [NodeStart k 0]) start) as [[k0 par| | |]|] eqn:Hn; try discriminate.
    inversion H; subst. cbn [fst]. rewrite prefix_ok_app.
    rewrite (prefix_ok_retag _ _ _ _ k0 (length evs) 0 Hn eq_refl), prefix_ok_app, Hp. cbn [prefix_ok]. destruct (N.eqb k SK_None); reflexivity.
  - unfold m_raw_end in H. inversion H; subst. cbn [fst snd]. rewrite prefix_ok_app, Hp. cbn [prefix_ok andb].
    apply Z.ltb_lt in Hok. rewrite andb_true_r. apply Z.leb_le. lia.
  - inversion H; subst. cbn [fst]. rewrite prefix_ok_app, Hp. reflexivity.
Qed.

(** the invariant of the marker API: exact mark level, and no prefix closes more than it opened *)
Definition lvl_ok (m : mst) : Prop := snd m = depth (fst m) /\ prefix_ok (fst m) 0 = true.

Lemma exec_dops_level : forall ds m m',
  exec_dops false m ds = Some m' -> mops_ok false m ds = true -> lvl_ok m -> lvl_ok m'.
Proof.
  induction ds as [|d ds IH]; intros m m' H Hok Hinv; cbn [exec_dops mops_ok] in *.
  - inversion H; subst. exact Hinv.
  - destruct (exec_dop false m d) as [m1|] eqn:E; [|discriminate].
    apply andb_true_iff in Hok. destruct Hok as [Hd Hr]. destruct Hinv as [I1 I2].
    eapply IH; [exact H|exact Hr|]. split; [eapply exec_dop_level; eauto|eapply exec_dop_prefix; eauto].
Qed.

Lemma depth_emit : forall m t, depth (fst (emit m t)) = depth (fst m).
Proof. intros [evs lv] t. unfold emit, eat. cbn [fst snd]. rewrite depth_app. cbn [depth]. lia. Qed.

Lemma depth_eats : forall ts, depth (map eat ts) = 0.
Proof. induction ts as [|t ts IH]; [reflexivity|]. cbn [map depth eat]. exact IH. Qed.

Lemma depth_emit_all : forall m ts, depth (fst (emit_all m ts)) = depth (fst m).
Proof. intros [evs lv] ts. unfold emit_all. cbn [fst snd]. rewrite depth_app, depth_eats. lia. Qed.

Local Close Scope Z_scope.

(** *** the trivia loop as a sequence of primitive actions *)
Inductive act : Type :=
| AEmit (t : leaf)      (* a trivia token emitted directly (no comment group open) *)
| APush (t : leaf)      (* a token appended to the open comment group *)
| AFlush                (* parse_comments on the open group *)
| ASkip (t : leaf).     (* a token that is in none of the three trivia arms: nothing happens *)

Fixpoint run_acts (doc : bool) (acts : list act) (s : tst) (pending : list leaf) : option (tst * list leaf) :=
  match acts with
  | [] => Some (s, pending)
  | AEmit t :: r => run_acts doc r {| t_m := emit (t_m s) t; t_docs := t_docs s; t_ok := t_ok s; t_disc := t_disc s |} pending
  | APush t :: r => run_acts doc r s (pending ++ [t])
  | AFlush :: r => match pending with
                   | [] => None
                   | _ => match parse_comments false doc s pending with
                          | Some s' => run_acts doc r s' []
                          | None => None
                          end
                   end
  | ASkip t :: r => run_acts doc r s pending
  end.

(** all tokens the actions went over / those that were emitted or pushed *)
Fixpoint acts_all (acts : list act) : list leaf :=
  match acts with
  | [] => []
  | AEmit t :: r | APush t :: r | ASkip t :: r => t :: acts_all r
  | AFlush :: r => acts_all r
  end.
Fixpoint acts_kept (acts : list act) : list leaf :=
  match acts with
  | [] => []
  | AEmit t :: r | APush t :: r => t :: acts_kept r
  | AFlush :: r => acts_kept r
  | ASkip _ :: r => acts_kept r
  end.
(** emits happen only while no group is open; skips only for non-trivia kinds *)
Fixpoint acts_wf (acts : list act) (open : bool) : bool :=
  match acts with
  | [] => true
  | AEmit t :: r => negb open && is_trivia_kind (fst t) && acts_wf r false
  | APush t :: r => is_trivia_kind (fst t) && acts_wf r true
  | AFlush :: r => open && acts_wf r false
  | ASkip t :: r => negb (is_trivia_kind (fst t)) && acts_wf r open
  end.

Definition is_open (pending : list leaf) : bool := match pending with [] => false | _ => true end.

Lemma is_open_snoc : forall p t, is_open (p ++ [t]) = true.
Proof. intros [|x p] t; reflexivity. Qed.

Lemma trivia_arm : forall k, (mem k pt_comment_kinds = true \/ mem k pt_eol_kinds = true \/ mem k pt_ws_kinds = true) -> is_trivia_kind k = true.
Proof. intros k H. rewrite trivia_split. destruct H as [H|[H|H]]; rewrite H; rewrite ?orb_true_r; reflexivity. Qed.

Lemma no_arm : forall k, mem k pt_comment_kinds = false -> mem k pt_eol_kinds = false -> mem k pt_ws_kinds = false -> is_trivia_kind k = false.
Proof. intros k A B C. rewrite trivia_split, A, B, C. reflexivity. Qed.

Lemma trivia_loop_acts : forall toks doc fuel i lc pending s pending' s',
  trivia_loop false toks doc fuel i lc pending s = Some (pending', s') ->
  exists acts, run_acts doc acts s pending = Some (s', pending') /\ acts_all acts = fuel /\ acts_wf acts (is_open pending) = true.
Proof.
  intros toks doc. induction fuel as [|t rest IH]; intros i lc pending s pending' s' H; cbn [trivia_loop] in H.
  - inversion H; subst. exists []. repeat split.
  - destruct (mem (fst t) pt_comment_kinds) eqn:Kc.
    { apply IH in H. destruct H as (acts & R & A & W). exists (APush t :: acts). cbn [run_acts acts_all acts_wf].
      rewrite is_open_snoc in W. rewrite R, A, W, (trivia_arm _ (or_introl Kc)). repeat split. }
    destruct (mem (fst t) pt_eol_kinds) eqn:Ke.
    { assert (Ht : is_trivia_kind (fst t) = true) by (apply trivia_arm; auto).
      destruct pending as [|p0 pending].
      - (* no group open: emitted; the two flush tests fail on the empty group *)
        cbn [length Nat.eqb negb andb] in H. rewrite andb_false_r in H. cbn [Nat.eqb andb] in H.
        apply IH in H. destruct H as (acts & R & A & W). cbn [is_open] in W.
        exists (AEmit t :: acts). cbn [run_acts acts_all acts_wf is_open negb andb].
        rewrite R, A, Ht, W. repeat split.
      - set (pending1 := (p0 :: pending) ++ [t]) in *.
        assert (Hopen : is_open pending1 = true) by apply is_open_snoc.
        assert (Hne : pending1 <> []) by (subst pending1; destruct pending; discriminate).
        assert (Hflush : forall s2 lc', parse_comments false doc s pending1 = Some s2 ->
                  trivia_loop false toks doc rest (S i) lc' [] s2 = Some (pending', s') ->
                  exists acts, run_acts doc acts s (p0 :: pending) = Some (s', pending') /\ acts_all acts = t :: rest /\
                               acts_wf acts (is_open (p0 :: pending)) = true).
        { intros s2 lc' Hp Hl. apply IH in Hl. destruct Hl as (acts & R & A & W). cbn [is_open] in W.
          exists (APush t :: AFlush :: acts). cbn [run_acts acts_all acts_wf is_open andb].
          fold pending1. destruct pending1 as [|q qs] eqn:Eq; [congruence|]. rewrite Hp, R, A, Ht, W. repeat split. }
        assert (Hcont : trivia_loop false toks doc rest (S i) (S lc) pending1 s = Some (pending', s') ->
                  exists acts, run_acts doc acts s (p0 :: pending) = Some (s', pending') /\ acts_all acts = t :: rest /\
                               acts_wf acts (is_open (p0 :: pending)) = true).
        { intros Hl. apply IH in Hl. destruct Hl as (acts & R & A & W). rewrite Hopen in W.
          exists (APush t :: acts). cbn [run_acts acts_all acts_wf is_open andb]. fold pending1. rewrite R, A, Ht, W. repeat split. }
        destruct (Nat.ltb 1 (S lc) && negb (Nat.eqb (length pending1) 0)).
        + destruct (parse_comments false doc s pending1) as [s2|] eqn:Hp; [|discriminate]. eapply Hflush; eauto.
        + destruct (Nat.eqb (length pending1) 2 && Nat.leb 2 i).
          * destruct (inline_scan toks (i - 2)).
            -- destruct (parse_comments false doc s pending1) as [s2|] eqn:Hp; [|discriminate]. eapply Hflush; eauto.
            -- apply Hcont. exact H.
          * apply Hcont. exact H. }
    destruct (mem (fst t) pt_ws_kinds) eqn:Kw.
    { assert (Ht : is_trivia_kind (fst t) = true) by (apply trivia_arm; auto).
      destruct pending as [|p0 pending].
      - apply IH in H. destruct H as (acts & R & A & W). cbn [is_open] in W.
        exists (AEmit t :: acts). cbn [run_acts acts_all acts_wf is_open negb andb].
        rewrite R, A, Ht, W. repeat split.
      - apply IH in H. destruct H as (acts & R & A & W). rewrite is_open_snoc in W.
        exists (APush t :: acts). cbn [run_acts acts_all acts_wf is_open andb]. rewrite R, A, Ht, W. repeat split. }
    assert (Ht : is_trivia_kind (fst t) = false) by (apply no_arm; assumption).
    destruct pending as [|p0 pending].
    + apply IH in H. destruct H as (acts & R & A & W). cbn [is_open] in W.
      exists (ASkip t :: acts). cbn [run_acts acts_all acts_wf is_open negb andb].
      rewrite R, A, Ht, W. repeat split.
    + destruct (parse_comments false doc s (p0 :: pending)) as [s2|] eqn:Hp; [|discriminate].
      apply IH in H. destruct H as (acts & R & A & W). cbn [is_open] in W.
      exists (AFlush :: ASkip t :: acts). cbn [run_acts acts_all acts_wf is_open negb andb]. rewrite Hp, R, A, Ht, W. repeat split.
Qed.

(** *** parse_comments *)
Lemma split_trailing_app : forall l a b, split_trailing l = (a, b) -> l = a ++ b.
Proof.
  induction l as [|t r IH]; intros a b H; cbn [split_trailing] in H.
  - inversion H. reflexivity.
  - destruct (split_trailing r) as [a0 b0] eqn:E. specialize (IH a0 b0 eq_refl). subst r.
    destruct a0 as [|x a0].
    + destruct (mem (fst t) pc_trim_kinds); inversion H; subst; reflexivity.
    + inversion H; subst. reflexivity.
Qed.

Lemma prefix_eats : forall ts d, prefix_ok (map eat ts) d = true.
Proof. induction ts as [|t ts IH]; intros d; [reflexivity|]. cbn [map prefix_ok eat]. apply IH. Qed.

Lemma lvl_emit_all : forall m ts, lvl_ok m -> lvl_ok (emit_all m ts).
Proof.
  intros [evs lv] ts [H1 H2]. unfold lvl_ok, emit_all in *. cbn [fst snd] in *. split.
  - rewrite depth_app, depth_eats. lia.
  - rewrite prefix_ok_app, H2, prefix_eats. reflexivity.
Qed.

Lemma lvl_emit : forall m t, lvl_ok m -> lvl_ok (emit m t).
Proof. intros m t H. apply (lvl_emit_all m [t] H). Qed.

Lemma parse_comments_spec : forall doc s g s',
  parse_comments false doc s g = Some s' -> g <> [] ->
  (t_disc s' = true -> t_disc s = true /\ (lvl_ok (t_m s) -> lvl_ok (t_m s'))) /\
  (t_ok s' = true -> t_ok s = true /\
     forall a0 a1, tiles g a0 a1 -> tiles (T (t_m s)) 0 a0 -> tiles (T (t_m s')) 0 a1).
Proof.
  intros doc s g s' H Hne. unfold parse_comments in H. destruct doc; cbn [negb] in H.
  - destruct (split_trailing g) as [prefix trailing] eqn:Es. pose proof (split_trailing_app _ _ _ Es) as Hg.
    destruct (t_docs s) as [|ds rest]; [discriminate|].
    destruct (exec_dops false (t_m s) ds) as [m'|] eqn:Ed; [|discriminate].
    inversion H; subst s'; clear H. cbn [t_disc t_ok t_m]. split.
    + intros Hd. apply andb_true_iff in Hd. destruct Hd as [Hd1 Hd2]. split; [exact Hd1|].
      intros Hl. apply lvl_emit_all. eapply exec_dops_level; eauto.
    + intros Hk. apply andb_true_iff in Hk. destruct Hk as [Hk1 Hk2]. split; [exact Hk1|].
      intros a0 a1 Hg_t HT. rewrite T_emit_all, (exec_dops_tokens _ _ _ _ Ed).
      apply (proj1 (tilesb_tiles _ _ _)) in Hk2. rewrite Hg in Hg_t.
      destruct (tiles_app_inv _ _ _ _ Hg_t) as (mid & Hp & Htr).
      assert (Hstart : group_start g = a0).
      { destruct g as [|t0 g0]; [congruence|]. rewrite <- Hg in Hg_t. eapply tiles_start; eauto. }
      unfold doc_range in Hk2. cbn [fst snd] in Hk2. rewrite Hstart in Hk2.
      assert (Hend : match prefix with [] => a0 | _ :: _ => group_end prefix end = mid).
      { destruct prefix as [|p0 pr]; [cbn [tiles] in Hp; exact Hp|]. eapply tiles_end; [discriminate|exact Hp]. }
      rewrite Hend in Hk2.
      eapply tiles_app; [|exact Htr]. eapply tiles_app; eauto.
  - inversion H; subst s'; clear H. cbn [t_disc t_ok t_m]. split.
    + intros Hd. split; [exact Hd|]. apply lvl_emit_all.
    + intros Hk. split; [exact Hk|]. intros a0 a1 Hg_t HT. rewrite T_emit_all. eapply tiles_app; eauto.
Qed.

(** *** properties of action sequences *)
Lemma run_acts_level : forall doc acts s pending s' pending',
  run_acts doc acts s pending = Some (s', pending') ->
  t_disc s' = true -> t_disc s = true /\ (lvl_ok (t_m s) -> lvl_ok (t_m s')).
Proof.
  intros doc. induction acts as [|a acts IH]; intros s pending s' pending' H Hd; cbn [run_acts] in H.
  - inversion H; subst. auto.
  - destruct a as [t|t| |t].
    + apply IH in H; [|exact Hd]. cbn [t_disc t_m] in H. destruct H as [H1 H2]. split; [exact H1|].
      intros Hl. apply H2. apply lvl_emit. exact Hl.
    + eapply IH; eauto.
    + destruct pending as [|p0 pending]; [discriminate|].
      destruct (parse_comments false doc s (p0 :: pending)) as [s2|] eqn:Hp; [|discriminate].
      apply IH in H; [|exact Hd]. destruct H as [H1 H2].
      destruct (parse_comments_spec _ _ _ _ Hp) as [P _]; [discriminate|]. destruct (P H1) as [P1 P2]. auto.
    + eapply IH; eauto.
Qed.

Lemma run_acts_tiles : forall doc acts s pending s' pending',
  run_acts doc acts s pending = Some (s', pending') -> acts_wf acts (is_open pending) = true ->
  t_ok s' = true -> t_ok s = true /\
    forall a b, tiles (acts_kept acts) a b -> tiles (T (t_m s) ++ pending) 0 a -> tiles (T (t_m s') ++ pending') 0 b.
Proof.
  intros doc. induction acts as [|x acts IH]; intros s pending s' pending' H W Hk; cbn [run_acts acts_kept acts_wf] in *.
  - inversion H; subst. split; [exact Hk|]. intros a b Hab HT. cbn [tiles] in Hab. subst. exact HT.
  - destruct x as [t|t| |t].
    + apply andb_true_iff in W. destruct W as [W W2]. apply andb_true_iff in W. destruct W as [Wo _].
      destruct pending as [|p0 pending]; [|discriminate]. cbn [is_open] in *.
      apply IH in H; [|exact W2|exact Hk]. cbn [t_ok t_m] in H. destruct H as [H1 H2]. split; [exact H1|].
      intros a b Hab HT. destruct t as [k [st ln]]. cbn [tiles] in Hab. destruct Hab as [Hs Hr]. subst st.
      eapply H2; [exact Hr|]. rewrite T_emit, app_nil_r. rewrite app_nil_r in HT. apply tiles_snoc. exact HT.
    + apply andb_true_iff in W. destruct W as [_ W2].
      assert (W3 : acts_wf acts (is_open (pending ++ [t])) = true) by (rewrite is_open_snoc; exact W2).
      apply IH in H; [|exact W3|exact Hk]. destruct H as [H1 H2]. split; [exact H1|].
      intros a b Hab HT. destruct t as [k [st ln]]. cbn [tiles] in Hab. destruct Hab as [Hs Hr]. subst st.
      eapply H2; [exact Hr|]. rewrite app_assoc. apply tiles_snoc. exact HT.
    + apply andb_true_iff in W. destruct W as [_ W2].
      destruct pending as [|p0 pending]; [discriminate|].
      destruct (parse_comments false doc s (p0 :: pending)) as [s2|] eqn:Hp; [|discriminate].
      apply IH in H; [|exact W2|exact Hk]. destruct H as [H1 H2].
      destruct (parse_comments_spec _ _ _ _ Hp) as [_ P]; [discriminate|]. destruct (P H1) as [P1 P2].
      split; [exact P1|]. intros a b Hab HT.
      destruct (tiles_app_inv _ _ _ _ HT) as (a0 & HT0 & Hg).
      eapply H2; [exact Hab|]. rewrite app_nil_r. eapply P2; eauto.
    + apply andb_true_iff in W. destruct W as [_ W2]. eapply IH; eauto.
Qed.

(** when every token the loop goes over is trivia nothing is skipped *)
Lemma acts_kept_all : forall acts o, acts_wf acts o = true ->
  Forall (fun t => is_trivia_kind (fst t) = true) (acts_all acts) -> acts_kept acts = acts_all acts.
Proof.
  induction acts as [|x acts IH]; intros o W F; [reflexivity|]. destruct x as [t|t| |t]; cbn [acts_wf acts_all acts_kept] in *.
  - apply andb_true_iff in W. destruct W as [_ W]. inversion F; subst. f_equal. eapply IH; eauto.
  - apply andb_true_iff in W. destruct W as [_ W]. inversion F; subst. f_equal. eapply IH; eauto.
  - apply andb_true_iff in W. destruct W as [_ W]. eapply IH; eauto.
  - apply andb_true_iff in W. destruct W as [W _]. inversion F as [|? ? Ht _]; subst. rewrite Ht in W. discriminate.
Qed.

(** *** one bump *)
Definition trivia_tok (t : leaf) : Prop := is_trivia_kind (fst t) = true.

Lemma skip_go_spec : forall l i,
  (i <= skip_trivia_go l i)%nat /\ (skip_trivia_go l i - i <= length l)%nat /\
  Forall trivia_tok (firstn (skip_trivia_go l i - i) l).
Proof.
  induction l as [|t l IH]; intros i; cbn [skip_trivia_go].
  - rewrite Nat.sub_diag. cbn. repeat split; try lia. constructor.
  - destruct (is_trivia_kind (fst t)) eqn:E.
    + destruct (IH (S i)) as (A & B & C). repeat split; try lia; [cbn [length]; lia|].
      replace (skip_trivia_go l (S i) - i)%nat with (S (skip_trivia_go l (S i) - S i)) by lia.
      cbn [firstn]. constructor; [exact E|exact C].
    + rewrite Nat.sub_diag. cbn. repeat split; try lia. constructor.
Qed.

Lemma acts_head : forall acts t run,
  acts_wf acts false = true -> acts_all acts = t :: run -> Forall trivia_tok run ->
  acts_kept acts = (if is_trivia_kind (fst t) then [t] else []) ++ run.
Proof.
  intros acts t run W A F. destruct acts as [|x acts]; [discriminate|].
  destruct x as [t'|t'| |t']; cbn [acts_wf acts_all acts_kept negb andb] in *.
  - inversion A; subst. apply andb_true_iff in W. destruct W as [Ht W]. rewrite Ht. cbn [app]. f_equal.
    eapply acts_kept_all; [exact W|exact F].
  - inversion A; subst. apply andb_true_iff in W. destruct W as [Ht W]. rewrite Ht. cbn [app]. f_equal.
    eapply acts_kept_all; [exact W|exact F].
  - discriminate.
  - inversion A; subst. apply andb_true_iff in W. destruct W as [Ht W].
    destruct (is_trivia_kind (fst t)); [discriminate|]. cbn [app].
    eapply acts_kept_all; [exact W|exact F].
Qed.

Definition alive (toks : list leaf) : Prop := Forall (fun t => dead_kind (fst t) = false) toks.

Lemma firstn_split : forall (l : list leaf) i n, (i <= n)%nat ->
  firstn n l = firstn i l ++ firstn (n - i) (skipn i l).
Proof.
  intros l i n H. rewrite <- (firstn_skipn i l) at 1. rewrite firstn_app, firstn_firstn, firstn_length.
  replace (Nat.min n i) with i by lia.
  destruct (Nat.le_gt_cases i (length l)) as [Hl|Hl].
  - replace (Nat.min i (length l)) with i by lia. reflexivity.
  - rewrite (skipn_all2 l) by lia. rewrite !firstn_nil. reflexivity.
Qed.

Lemma skipn_split : forall (l : list leaf) i n, (i <= n)%nat ->
  skipn i l = firstn (n - i) (skipn i l) ++ skipn n l.
Proof.
  intros l i n H. rewrite <- (firstn_skipn (n - i) (skipn i l)) at 1. f_equal.
  rewrite skipn_skipn'. f_equal. lia.
Qed.

Lemma skipn_cons_nth : forall (l : list leaf) i t, nth_error l i = Some t -> skipn i l = t :: skipn (S i) l.
Proof.
  induction l as [|x l IH]; intros [|i] t H; try discriminate.
  - inversion H. reflexivity.
  - cbn [nth_error] in H. cbn [skipn]. apply IH. exact H.
Qed.

Lemma p_bump_spec : forall st docs st', p_bump false st docs = Some st' ->
  let toks := p_tokens st in
  p_tokens st' = toks /\ p_inited st' = p_inited st /\ p_doc st' = p_doc st /\
  p_current st' = kind_at toks (p_index st') /\ (p_index st < p_index st')%nat /\
  (p_disc st' = true -> p_disc st = true /\ (lvl_ok (p_m st) -> lvl_ok (p_m st'))) /\
  (p_doc_ok st' = true -> p_doc_ok st = true /\
     forall total a, tiles toks 0 total -> alive toks -> p_current st = kind_at toks (p_index st) ->
       tiles (firstn (p_index st) toks) 0 a -> tiles (T (p_m st)) 0 a ->
       exists b, tiles (firstn (p_index st') toks) 0 b /\ tiles (T (p_m st')) 0 b).
Proof.
  intros st docs st' H toks. unfold p_bump in H. fold toks in H.
  set (idx := p_index st) in *. set (next := skip_trivia toks (S idx)) in *.
  set (m1 := if negb (is_invalid_kind (p_current st)) && Nat.ltb idx (length toks)
             then match nth_error toks idx with Some t => emit (p_m st) t | None => p_m st end else p_m st) in *.
  set (s0 := {| t_m := m1; t_docs := docs; t_ok := p_doc_ok st; t_disc := p_disc st |}) in *.
  destruct (parse_trivia_tokens false toks (p_doc st) idx next s0) as [s|] eqn:Hpt; [|discriminate].
  destruct (t_docs s) as [|? ?]; [|discriminate]. inversion H; subst st'; clear H.
  cbn [p_tokens p_inited p_doc p_current p_index p_disc p_doc_ok p_m].
  (* the range of the loop *)
  unfold parse_trivia_tokens in Hpt. destruct (Nat.ltb_spec (length toks) next) as [|Hnext]; [discriminate|].
  pose proof (skip_go_spec (skipn (S idx) toks) (S idx)) as (Hge & Hlen & Htriv). fold (skip_trivia toks (S idx)) in *. fold next in Hge, Hlen, Htriv.
  assert (Hidx : (idx < length toks)%nat) by lia.
  destruct (nth_error toks idx) as [tcur|] eqn:Hcur; [|apply nth_error_None in Hcur; lia].
  set (run := firstn (next - S idx) (skipn (S idx) toks)) in *.
  assert (Hfuel : firstn (next - idx) (skipn idx toks) = tcur :: run).
  { rewrite (skipn_cons_nth _ _ _ Hcur). replace (next - idx)%nat with (S (next - S idx)) by lia. reflexivity. }
  rewrite Hfuel in Hpt.
  destruct (trivia_loop false toks (p_doc st) (tcur :: run) idx 0 [] s0) as [[pending s1]|] eqn:Hloop; [|discriminate].
  destruct (trivia_loop_acts _ _ _ _ _ _ _ _ _ Hloop) as (acts & Hrun & Hall & Hwf). cbn [is_open] in Hwf.
  (* the final flush *)
  assert (Hfin : (t_disc s = true -> t_disc s1 = true /\ (lvl_ok (t_m s1) -> lvl_ok (t_m s))) /\
                 (t_ok s = true -> t_ok s1 = true /\ forall b, tiles (T (t_m s1) ++ pending) 0 b -> tiles (T (t_m s)) 0 b)).
  { destruct pending as [|p0 pending].
    - inversion Hpt; subst s1. split; [auto|]. intros Hk. split; [exact Hk|]. intros b Hb. rewrite app_nil_r in Hb. exact Hb.
    - destruct (parse_comments_spec _ _ _ _ Hpt) as [P1 P2]; [discriminate|]. split; [exact P1|].
      intros Hk. destruct (P2 Hk) as [Q1 Q2]. split; [exact Q1|]. intros b Hb.
      destruct (tiles_app_inv _ _ _ _ Hb) as (a0 & Ha0 & Hg). eapply Q2; eauto. }
  destruct Hfin as [FinL FinT].
  split; [reflexivity|]. split; [reflexivity|]. split; [reflexivity|]. split; [reflexivity|]. split; [lia|].
  split; [intros H; split|intros H; split].
  - (* level *)
    destruct (FinL H) as [D1 _]. destruct (run_acts_level _ _ _ _ _ _ Hrun D1) as [D0 _]. exact D0.
  - intros Hl. destruct (FinL H) as [D1 L1]. destruct (run_acts_level _ _ _ _ _ _ Hrun D1) as [_ L0]. apply L1, L0.
    cbn [s0 t_m]. unfold m1. destruct (negb (is_invalid_kind (p_current st)) && Nat.ltb idx (length toks)); [|exact Hl].
    apply lvl_emit. exact Hl.
  - destruct (FinT H) as [K1 _]. destruct (run_acts_tiles _ _ _ _ _ _ Hrun Hwf K1) as [K0 _]. exact K0.
  - intros total a Htoks Halive Hcoh Hpre HT.
    destruct (FinT H) as [K1 F1]. destruct (run_acts_tiles _ _ _ _ _ _ Hrun Hwf K1) as [_ R1].
    (* spans *)
    rewrite <- (firstn_skipn idx toks) in Htoks. destruct (tiles_app_inv _ _ _ _ Htoks) as (a' & Hp' & Hs').
    assert (a' = a) by (eapply tiles_fun; eauto). subst a'.
    rewrite (skipn_split toks idx next) in Hs' by lia. rewrite Hfuel in Hs'.
    destruct (tiles_app_inv _ _ _ _ Hs') as (b & Hfb & _).
    exists b. split.
    + rewrite (firstn_split toks idx next) by lia. rewrite Hfuel. eapply tiles_app; eauto.
    + apply F1. rewrite (acts_head acts tcur run Hwf Hall Htriv) in R1.
      assert (Hk : p_current st = fst tcur).
      { rewrite Hcoh. unfold kind_at. fold toks idx. rewrite Hcur. reflexivity. }
      destruct tcur as [k [cs cl]]. cbn [fst] in *. cbn [tiles] in Hfb. destruct Hfb as [Hcs Hrun_t]. subst cs.
      cbn [s0 t_m] in R1. unfold m1 in R1. rewrite Hk in R1.
      destruct (is_trivia_kind k) eqn:Etr.
      * rewrite (trivia_invalid _ Etr) in R1. cbn [negb andb] in R1.
        eapply R1; [|rewrite app_nil_r; exact HT]. cbn [app tiles]. split; [reflexivity|exact Hrun_t].
      * assert (Hinv : is_invalid_kind k = false).
        { unfold alive in Halive. rewrite Forall_forall in Halive.
          specialize (Halive (k, (a, cl)) (nth_error_In _ _ Hcur)). cbn [fst] in Halive.
          unfold dead_kind in Halive. rewrite Etr in Halive. cbn [negb] in Halive. rewrite andb_true_r in Halive. exact Halive. }
        rewrite Hinv in R1. cbn [negb andb] in R1.
        destruct (Nat.ltb_spec idx (length toks)) as [_|]; [|lia].
        eapply R1; [cbn [app]; exact Hrun_t|]. rewrite app_nil_r, T_emit. apply tiles_snoc. exact HT.
Qed.

(** *** invariants over arbitrary operation sequences *)
Definition Linv (st : pst) : Prop := p_disc st = true -> lvl_ok (p_m st).

Record einv (total : N) (st : pst) : Prop := {
  e_tiles : tiles (p_tokens st) 0 total;
  e_alive : alive (p_tokens st);
  e_cur : p_inited st = true -> p_current st = kind_at (p_tokens st) (p_index st);
  e_pre : p_inited st = false -> p_index st = 0%nat;
  e_emitted : exists a, tiles (firstn (p_index st) (p_tokens st)) 0 a /\ tiles (T (p_m st)) 0 a
}.
Definition Einv (total : N) (st : pst) : Prop := p_disc st = true -> p_doc_ok st = true -> einv total st.

Lemma marker_op_shape : forall st o d st',
  op_as_dop o = Some d -> exec_op false st o = Some st' ->
  exists m', exec_dop false (p_m st) d = Some m' /\ st' = with_m (with_disc st (mop_ok (p_m st) d)) m' /\
             (forall k s l, d <> DEat k s l).
Proof.
  intros st o d st' Hd H. destruct o; cbn [op_as_dop] in Hd; try discriminate; inversion Hd; subst d; clear Hd;
    unfold exec_op, op_ok in H; cbn [op_as_dop] in H; unfold lift in H; cbn [with_disc p_m] in H; unfold exec_dop.
  - eexists. split; [reflexivity|]. inversion H. split; [reflexivity|intros; discriminate].
  - destruct (m_set_kind (p_m st) p k) as [m'|]; [|discriminate]. exists m'. inversion H. repeat split. intros; discriminate.
  - destruct (m_complete false (p_m st) p) as [m'|]; [|discriminate]. exists m'. inversion H. repeat split. intros; discriminate.
  - destruct (m_undo (p_m st) p) as [m'|]; [|discriminate]. exists m'. inversion H. repeat split. intros; discriminate.
  - destruct (m_precede (p_m st) start k) as [m'|]; [|discriminate]. exists m'. inversion H. repeat split. intros; discriminate.
  - eexists. split; [reflexivity|]. inversion H. split; [reflexivity|intros; discriminate].
Qed.

Lemma set_nth_same_range : forall (l : list leaf) i k t a b,
  nth_error l i = Some t -> tiles l a b -> tiles (set_nth l i (k, snd t)) a b.
Proof.
  induction l as [|x l IH]; intros [|i] k t a b Hn H; try discriminate.
  - cbn in Hn. inversion Hn; subst. destruct t as [k0 [s ln]]. cbn [set_nth snd tiles] in *. exact H.
  - cbn [nth_error] in Hn. destruct x as [k0 [s ln]]. cbn [set_nth tiles] in *. destruct H as [H1 H2]. split; [exact H1|].
    eapply IH; eauto.
Qed.

Lemma firstn_set_nth : forall (l : list leaf) i x, firstn i (set_nth l i x) = firstn i l.
Proof. induction l as [|y l IH]; intros [|i] x; try reflexivity. cbn [set_nth firstn]. f_equal. apply IH. Qed.

Lemma nth_error_set_nth : forall (l : list leaf) i x, (i < length l)%nat -> nth_error (set_nth l i x) i = Some x.
Proof.
  induction l as [|y l IH]; intros [|i] x H; cbn [length] in H; try lia; [reflexivity|].
  cbn [set_nth nth_error]. apply IH. lia.
Qed.

Lemma alive_set_nth : forall (l : list leaf) i x, alive l -> dead_kind (fst x) = false -> alive (set_nth l i x).
Proof.
  unfold alive. induction l as [|y l IH]; intros [|i] x H Hx; cbn [set_nth]; try exact H.
  - inversion H; subst. constructor; assumption.
  - inversion H; subst. constructor; [assumption|]. apply IH; assumption.
Qed.

Lemma exec_op_step : forall total st o st',
  exec_op false st o = Some st' ->
  (p_disc st' = true -> p_disc st = true) /\ (p_doc_ok st' = true -> p_doc_ok st = true) /\
  (Linv st -> Linv st') /\ (Einv total st -> Einv total st').
Proof.
  intros total st o st' H.
  destruct (op_as_dop o) as [d|] eqn:Hd.
  - (* marker operations *)
    destruct (marker_op_shape _ _ _ _ Hd H) as (m' & Hm & Hst & Hne). subst st'.
    cbn [with_m with_disc p_disc p_doc_ok p_m p_tokens p_index p_inited p_current].
    split; [intros E; apply andb_true_iff in E; apply E|]. split; [auto|]. split.
    + intros L E. cbn [with_m with_disc p_disc p_m] in *. apply andb_true_iff in E. destruct E as [E1 E2].
      destruct (L E1) as [L1 L2]. split; [eapply exec_dop_level; eauto|eapply exec_dop_prefix; eauto].
    + intros I E K. cbn [with_m with_disc p_disc p_doc_ok p_m] in *. apply andb_true_iff in E. destruct E as [E1 E2].
      destruct (I E1 K) as [A B C D (a & F1 & F2)].
      constructor; cbn [with_m with_disc p_tokens p_index p_inited p_current p_m]; auto.
      exists a. split; [exact F1|]. rewrite (exec_dop_tokens _ _ _ _ Hm).
      destruct d; rewrite ?app_nil_r; try exact F2. exfalso. eapply Hne; reflexivity.
  - destruct o; cbn [op_as_dop] in Hd; try discriminate; unfold exec_op in H.
    + (* init *)
      unfold p_init in H. cbn [with_disc p_tokens p_index p_m p_doc p_doc_ok p_disc op_ok] in H.
      set (cur := match p_tokens st with [] => TK_TkEof | t :: _ => fst t end) in *.
      set (st1 := {| p_tokens := p_tokens st; p_index := p_index st; p_current := cur; p_m := p_m st; p_doc := p_doc st;
                     p_inited := true; p_doc_ok := p_doc_ok st; p_disc := p_disc st && negb (p_inited st) |}) in *.
      assert (Hcur0 : p_index st = 0%nat -> cur = kind_at (p_tokens st) 0).
      { intros _. unfold cur, kind_at. destruct (p_tokens st); reflexivity. }
      destruct (is_trivia_kind cur).
      * destruct (p_bump_spec _ _ _ H) as (B1 & B2 & B3 & B4 & B5 & B6 & B7). cbn [st1 p_tokens p_inited p_index p_m p_disc p_doc_ok p_current] in *.
        split; [intros E; apply B6 in E; destruct E as [E _]; apply andb_true_iff in E; apply E|].
        split; [intros E; apply B7 in E; apply E|]. split.
        -- intros L E. destruct (B6 E) as [E1 E2]. apply E2. apply L. apply andb_true_iff in E1. apply E1.
        -- intros I E K. destruct (B6 E) as [E1 _]. apply andb_true_iff in E1. destruct E1 as [E1 E0].
           destruct (B7 K) as [K1 K2]. destruct (I E1 K1) as [A B C D (a & F1 & F2)].
           assert (Hi : p_index st = 0%nat) by (apply D; destruct (p_inited st); [discriminate|reflexivity]).
           destruct (K2 total a A B) as (b & G1 & G2); [rewrite Hi; apply Hcur0; exact Hi|exact F1|exact F2|].
           constructor.
           ++ rewrite B1. exact A.
           ++ rewrite B1. exact B.
           ++ intros _. rewrite B1. exact B4.
           ++ intros Hn. rewrite B2 in Hn. discriminate.
           ++ exists b. rewrite B1. split; assumption.
      * destruct docs; [|discriminate]. inversion H; subst st'; clear H. cbn [st1 p_disc p_doc_ok p_m].
        split; [intros E; apply andb_true_iff in E; apply E|]. split; [auto|]. split.
        -- intros L E. apply andb_true_iff in E. apply L, E.
        -- intros I E K. apply andb_true_iff in E. destruct E as [E1 E0]. destruct (I E1 K) as [A B C D F].
           assert (Hi : p_index st = 0%nat) by (apply D; destruct (p_inited st); [discriminate|reflexivity]).
           constructor; unfold st1; cbn [p_tokens p_index p_inited p_current p_m].
           ++ exact A.
           ++ exact B.
           ++ intros _. rewrite Hi. apply Hcur0. exact Hi.
           ++ discriminate.
           ++ exact F.
    + (* bump *)
      destruct (p_bump_spec _ _ _ H) as (B1 & B2 & B3 & B4 & B5 & B6 & B7).
      cbn [with_disc p_tokens p_inited p_index p_m p_disc p_doc_ok p_current op_ok] in *.
      split; [intros E; apply B6 in E; destruct E as [E _]; apply andb_true_iff in E; apply E|].
      split; [intros E; apply B7 in E; apply E|]. split.
      * intros L E. destruct (B6 E) as [E1 E2]. apply E2. apply L. apply andb_true_iff in E1. apply E1.
      * intros I E K. destruct (B6 E) as [E1 _]. apply andb_true_iff in E1. destruct E1 as [E1 E0].
        destruct (B7 K) as [K1 K2]. destruct (I E1 K1) as [A B C D (a & F1 & F2)].
        destruct (K2 total a A B (C E0) F1 F2) as (b & G1 & G2).
        constructor.
        -- rewrite B1. exact A.
        -- rewrite B1. exact B.
        -- intros _. rewrite B1. exact B4.
        -- intros Hn. rewrite B2, E0 in Hn. discriminate.
        -- exists b. rewrite B1. split; assumption.
    + (* retag the current token *)
      inversion H; subst st'; clear H. unfold p_set_tok_kind. cbn [with_disc p_tokens p_index p_m p_doc p_inited p_doc_ok p_disc op_ok].
      destruct (Nat.ltb_spec (p_index st) (length (p_tokens st))) as [Hlt|Hge];
        cbn [p_disc p_doc_ok p_m p_tokens p_index p_inited p_current].
      * split; [intros E; apply andb_true_iff in E; apply E|]. split; [auto|]. split.
        -- intros L E. apply andb_true_iff in E. apply L, E.
        -- intros I E K. apply andb_true_iff in E. destruct E as [E1 E0]. apply andb_true_iff in E0. destruct E0 as [Ei Ek].
           destruct (I E1 K) as [A B C D (a & F1 & F2)].
           destruct (nth_error (p_tokens st) (p_index st)) as [t|] eqn:Hn; [|apply nth_error_None in Hn; lia].
           constructor; cbn [p_tokens p_index p_inited p_current p_m].
           ++ eapply set_nth_same_range; eauto.
           ++ apply alive_set_nth; [exact B|]. cbn [fst]. destruct (dead_kind k); [discriminate|reflexivity].
           ++ intros _. unfold kind_at. rewrite nth_error_set_nth by exact Hlt. reflexivity.
           ++ exact D.
           ++ exists a. rewrite firstn_set_nth. auto.
      * split; [intros E; apply andb_true_iff in E; apply E|]. split; [auto|]. split.
        -- intros L E. apply andb_true_iff in E. apply L, E.
        -- intros I E K. apply andb_true_iff in E. destruct E as [E1 _]. destruct (I E1 K) as [A B C D F].
           constructor; cbn [p_tokens p_index p_inited p_current p_m]; auto.
Qed.

Lemma exec_ops_inv : forall total ops st st',
  exec_ops false st ops = Some st' ->
  (p_disc st' = true -> p_disc st = true) /\ (Linv st -> Linv st') /\ (Einv total st -> Einv total st').
Proof.
  intros total. induction ops as [|o ops IH]; intros st st' H; cbn [exec_ops] in H.
  - inversion H; subst. auto.
  - destruct (exec_op false st o) as [st1|] eqn:E; [|discriminate].
    destruct (exec_op_step total _ _ _ E) as (A & _ & C & D). destruct (IH _ _ H) as (A' & C' & D'). auto.
Qed.

Lemma pst_new_inv : forall total toks doc, tiles toks 0 total -> alive toks ->
  Linv (pst_new toks doc) /\ Einv total (pst_new toks doc).
Proof.
  intros total toks doc Ht Ha. split.
  - intros _. split; reflexivity.
  - intros _ _. constructor; cbn [pst_new p_tokens p_index p_inited p_current p_m]; auto; try discriminate.
    exists 0. split; reflexivity.
Qed.

(** *** the theorems *)
Lemma mark_level_exact : forall toks doc ops st,
  exec_ops false (pst_new toks doc) ops = Some st -> p_disc st = true ->
  snd (p_m st) = depth (fst (p_m st)).
Proof.
  intros toks doc ops st H Hd.
  destruct (exec_ops_inv 0 _ _ _ H) as (_ & L & _). apply L; [|exact Hd]. intros _. split; reflexivity.
Qed.

(** markers_balanced: no prefix of the event list closes more nodes than it opened, and the mark level is the number
    of nodes still open *)
Lemma markers_balanced : forall toks doc ops st,
  exec_ops false (pst_new toks doc) ops = Some st -> p_disc st = true ->
  prefix_ok (fst (p_m st)) 0 = true /\ snd (p_m st) = depth (fst (p_m st)).
Proof.
  intros toks doc ops st H Hd.
  destruct (exec_ops_inv 0 _ _ _ H) as (_ & L & _). destruct (L (fun _ => conj eq_refl eq_refl) Hd) as [A B]. auto.
Qed.

Lemma pump_emits_all : forall toks total doc ops st,
  tiles toks 0 total -> alive toks ->
  exec_ops false (pst_new toks doc) ops = Some st -> p_disc st = true -> p_doc_ok st = true ->
  exists a, tiles (firstn (p_index st) (p_tokens st)) 0 a /\ tiles (tokens_of (fst (p_m st))) 0 a /\
            (p_inited st = true -> p_current st = TK_TkEof -> a = total).
Proof.
  intros toks total doc ops st Ht Ha H Hd Hk.
  destruct (pst_new_inv total toks doc Ht Ha) as [_ E0].
  destruct (exec_ops_inv total _ _ _ H) as (_ & _ & E). destruct (E E0 Hd Hk) as [A B C D (a & F1 & F2)].
  exists a. split; [exact F1|]. split; [exact F2|].
  intros Hi Hc. rewrite (C Hi) in Hc. unfold kind_at in Hc.
  destruct (nth_error (p_tokens st) (p_index st)) as [t|] eqn:Hn.
  - (* a token of kind TkEof would be dead *)
    exfalso. unfold alive in B. rewrite Forall_forall in B. specialize (B t (nth_error_In _ _ Hn)). rewrite Hc in B.
    assert (Hdead : dead_kind TK_TkEof = true) by (vm_compute; reflexivity). congruence.
  - apply nth_error_None in Hn. rewrite firstn_all2 in F1 by exact Hn. exact (tiles_fun _ _ _ _ F1 A).
Qed.
