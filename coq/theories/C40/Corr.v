(** C40/Corr.v — the model's output compared with the implementation's on the same schema.
    The case carries what Rust's [char::is_alphabetic] / [char::is_alphanumeric] say about the non-ASCII
    characters of the schema (the model takes these classifiers as parameters). *)
From EV Require Import C40.Model.
Local Open Scope N_scope.

Record case := {
  c_schema : json;
  c_alpha : list cp;     (* the non-ASCII characters of the schema that are alphabetic *)
  c_alnum : list cp;     (* ... alphanumeric *)
  c_text : text;         (* ConvertResult.annotation_text *)
  c_root : text          (* ConvertResult.root_type_name *)
}.

Definition cls (l : list cp) (ascii : cp -> bool) (c : cp) : bool :=
  if c <? 128 then ascii c else existsb (N.eqb c) l.

Definition model_output (c : case) : option (list text * text) :=
  convert (cls (c_alpha c) ascii_alpha) (cls (c_alnum c) ascii_alnum) default_prefix false
          (depth (c_schema c)) (c_schema c).

Definition check_case (c : case) : bool :=
  match model_output c with
  | Some (ls, root) => text_eqb (render ls) (c_text c) && text_eqb root (c_root c)
  | None => false
  end.
