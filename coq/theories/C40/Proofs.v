(** C40/Proofs.v — lemmas about the converter model of C40/Model.v. *)
From EV Require Import C40.Model C40.Spec Base.JsonFacts.
From Coq Require Import Lia Arith String Ascii.
From Coq Require Import List.
Import ListNotations.
Local Open Scope N_scope.
Local Arguments N.eqb : simpl nomatch.
Local Arguments N.ltb : simpl nomatch.
Local Arguments N.leb : simpl nomatch.

(* ================================================================== string literals *)
Lemma hex_digit_range : forall n, 48 <= hex_digit n.
Proof. intros n. unfold hex_digit. destruct (N.ltb_spec n 10); lia. Qed.

Lemma esc_char_clean : forall c x, In x (esc_char c) -> x <> DQ /\ x <> NL /\ x <> CR /\ x <> 0.
Proof.
  intros c x. unfold esc_char, DQ, NL, CR, TAB, BSL.
  destruct (N.eqb_spec c 92); [cbn [In]; intros [H|[H|[]]]; subst x; repeat split; lia|].
  destruct (N.eqb_spec c 34); [cbn [In]; intros [H|[H|[H|[H|[]]]]]; subst x; repeat split; lia|].
  destruct (N.eqb_spec c 10); [cbn [In]; intros [H|[H|[]]]; subst x; repeat split; lia|].
  destruct (N.eqb_spec c 13); [cbn [In]; intros [H|[H|[]]]; subst x; repeat split; lia|].
  destruct (N.eqb_spec c 9); [cbn [In]; intros [H|[H|[]]]; subst x; repeat split; lia|].
  pose proof (hex_digit_range (c / 16)) as Ha. pose proof (hex_digit_range (c mod 16)) as Hb.
  destruct (N.ltb_spec c 32) as [L|L]; cbn [orb].
  - cbn [In]; intros [Hx|[Hx|[Hx|[Hx|[]]]]]; subst x; repeat split; lia.
  - destruct (N.eqb_spec c 127) as [E|E].
    + cbn [In]; intros [Hx|[Hx|[Hx|[Hx|[]]]]]; subst x; repeat split; lia.
    + cbn [In]; intros [Hx|[]]; subst x; repeat split; lia.
Qed.

Lemma esc_body_clean : forall s x, In x (esc_body s) -> x <> DQ /\ x <> NL /\ x <> CR /\ x <> 0.
Proof.
  intros s x H. unfold esc_body in H. apply in_flat_map in H. destruct H as [c [_ H]].
  eapply esc_char_clean; eassumption.
Qed.

Lemma quote_clean : forall s x, In x (quote_lua_string s) -> x <> NL /\ x <> CR /\ x <> 0.
Proof.
  intros s x H. unfold quote_lua_string in H. cbn [In] in H. destruct H as [H|H].
  - subst x. unfold DQ, NL, CR. repeat split; lia.
  - apply in_app_or in H. destruct H as [H|H].
    + apply esc_body_clean in H. tauto.
    + cbn [In] in H. destruct H as [H|[]]. subst x. unfold DQ, NL, CR. repeat split; lia.
Qed.

Lemma eat_until_quote_app : forall b f,
  (forall x, In x b -> x <> DQ) -> eat_until_quote (b ++ DQ :: f) = (b, DQ :: f).
Proof.
  induction b as [|c b IH]; intros f H; cbn [app eat_until_quote].
  - rewrite N.eqb_refl. reflexivity.
  - assert (Hc : c <> DQ) by (apply H; left; reflexivity).
    apply N.eqb_neq in Hc. rewrite Hc. rewrite IH; [reflexivity|].
    intros x Hx. apply H. right. exact Hx.
Qed.

(** the lexer reads the emitted literal as exactly one, closed, string token *)
Lemma quote_one_token : forall s f,
  lex_string (quote_lua_string s ++ f) = Some (quote_lua_string s, f, true).
Proof.
  intros s f. unfold quote_lua_string. cbn [app lex_string]. rewrite N.eqb_refl.
  rewrite <- app_assoc. cbn [app].
  rewrite eat_until_quote_app; [|intros x Hx; apply esc_body_clean in Hx; tauto].
  rewrite N.eqb_refl. reflexivity.
Qed.

Lemma hex_val_digit : forall n, n < 16 -> hex_val (hex_digit n) = Some n.
Proof.
  intros n H.
  assert (E : n = 0 \/ n = 1 \/ n = 2 \/ n = 3 \/ n = 4 \/ n = 5 \/ n = 6 \/ n = 7 \/ n = 8 \/ n = 9 \/
              n = 10 \/ n = 11 \/ n = 12 \/ n = 13 \/ n = 14 \/ n = 15) by lia.
  repeat (destruct E as [E|E]; [subst n; reflexivity|]). subst n. reflexivity.
Qed.

Lemma esc_char_len : forall c, (1 <= length (esc_char c))%nat.
Proof.
  intros c. unfold esc_char.
  repeat match goal with |- context [if ?b then _ else _] => destruct b end; cbn [length]; lia.
Qed.

(** the string decoder gives back exactly the original value *)
Lemma unescape_esc_body : forall s fuel,
  (length (esc_body s) < fuel)%nat -> unescape fuel (esc_body s) = Some s.
Proof.
  induction s as [|c r IH]; intros fuel Hf.
  - destruct fuel; [cbn [esc_body flat_map length] in Hf; lia|]. reflexivity.
  - unfold esc_body in *. cbn [flat_map] in *. rewrite app_length in Hf.
    set (rest := flat_map esc_char r) in *.
    pose proof (esc_char_len c) as Hl.
    destruct fuel as [|fuel]; [lia|].
    assert (IHr : forall k, (k <= length (esc_char c))%nat -> (1 <= k)%nat ->
                            unescape (fuel + 1 - k) rest = Some r).
    { intros k Hk1 Hk2. apply IH. lia. }
    revert Hf Hl IHr. unfold esc_char, DQ, NL, CR, TAB, BSL.
    destruct (N.eqb_spec c 92) as [E|N1].
    { subst c. cbn [length app unescape]. intros Hf _ IHr. cbn.
      replace fuel with (fuel + 1 - 1)%nat by lia. rewrite (IHr 1%nat); [reflexivity|cbn [length]; lia|lia]. }
    destruct (N.eqb_spec c 34) as [E|N2].
    { subst c. cbn [length app unescape]. intros Hf _ IHr. cbn.
      replace fuel with (fuel + 1 - 1)%nat by lia. rewrite (IHr 1%nat); [reflexivity|cbn [length]; lia|lia]. }
    destruct (N.eqb_spec c 10) as [E|N3].
    { subst c. cbn [length app unescape]. intros Hf _ IHr. cbn.
      replace fuel with (fuel + 1 - 1)%nat by lia. rewrite (IHr 1%nat); [reflexivity|cbn [length]; lia|lia]. }
    destruct (N.eqb_spec c 13) as [E|N4].
    { subst c. cbn [length app unescape]. intros Hf _ IHr. cbn.
      replace fuel with (fuel + 1 - 1)%nat by lia. rewrite (IHr 1%nat); [reflexivity|cbn [length]; lia|lia]. }
    destruct (N.eqb_spec c 9) as [E|N5].
    { subst c. cbn [length app unescape]. intros Hf _ IHr. cbn.
      replace fuel with (fuel + 1 - 1)%nat by lia. rewrite (IHr 1%nat); [reflexivity|cbn [length]; lia|lia]. }
    assert (Hhex : c < 128 -> (length rest < fuel)%nat ->
      unescape (S fuel) ([92; 120; hex_digit (c / 16); hex_digit (c mod 16)] ++ rest) = Some (c :: r)).
    { intros Hc Hlen. cbn [app unescape]. cbn.
      rewrite (hex_val_digit (c / 16)) by (apply N.div_lt_upper_bound; lia).
      rewrite (hex_val_digit (c mod 16)) by (apply N.mod_lt; lia).
      rewrite (IH fuel Hlen). cbn [option_map].
      f_equal. f_equal. rewrite (N.div_mod' c 16) at 3. lia. }
    destruct (N.ltb_spec c 32) as [L|L]; cbn [orb].
    { intros Hf _ _. cbn [length] in Hf. apply Hhex; [lia|lia]. }
    destruct (N.eqb_spec c 127) as [E|N6].
    { intros Hf _ _. cbn [length] in Hf. apply Hhex; [lia|lia]. }
    cbn [length app unescape]. intros Hf _ IHr.
    apply N.eqb_neq in N1. unfold BSL. rewrite N1.
    replace fuel with (fuel + 1 - 1)%nat by lia. rewrite (IHr 1%nat); [reflexivity|cbn [length]; lia|lia].
Qed.

(** the old rendering: a quote inside the value ends the token early *)
Lemma old_quote_refuted : exists s f,
  lex_string (old_quote s ++ f) <> Some (old_quote s, f, true) /\
  lex_string (old_quote s ++ f) = Some ([DQ; 97; DQ], [98; DQ] ++ f, true).
Proof. exists [97; DQ; 98], [93]. split; [discriminate|reflexivity]. Qed.

(* ================================================================== descriptions *)
Lemma clean_piece_clean : forall p, clean_text (clean_piece p).
Proof.
  intros p c H. unfold clean_piece in H. apply in_map_iff in H. destruct H as [x [E _]].
  unfold is_control, TAB, SP, NL, CR in *.
  destruct (N.ltb_spec x 32); cbn [orb andb] in E.
  - destruct (N.eqb_spec x 9); cbn [negb] in E; subst c; repeat split; lia.
  - destruct ((127 <=? x) && (x <=? 159)); cbn [andb] in E.
    + destruct (N.eqb_spec x 9); cbn [negb] in E; subst c; repeat split; lia.
    + subst c. repeat split; lia.
Qed.

Lemma escape_start_clean : forall g s, clean_text s -> clean_text (escape_start g s).
Proof.
  induction s as [|c r IH]; intros H; [exact H|]. cbn [escape_start].
  destruct (is_blank c).
  - intros x [Hx|Hx]; [subst x; apply H; left; reflexivity|]. apply IH; [|exact Hx].
    intros y Hy. apply H. right. exact Hy.
  - destruct ((c =? AT) || (g && continues_tag (c :: r))); [|exact H].
    intros x [Hx|Hx]; [subst x; unfold BSL, NL, CR; repeat split; lia|]. apply H. exact Hx.
Qed.

Lemma escape_start_no_tag : forall g s, no_tag_start (escape_start g s) = true.
Proof.
  induction s as [|c r IH]; [reflexivity|]. cbn [escape_start].
  destruct (is_blank c) eqn:E1.
  - cbn [no_tag_start]. unfold is_blank in E1. rewrite E1. exact IH.
  - destruct (c =? AT) eqn:E2; cbn [orb].
    + reflexivity.
    + unfold is_blank in E1. destruct (g && continues_tag (c :: r)).
      * reflexivity.
      * cbn [no_tag_start]. rewrite E1, E2. reflexivity.
Qed.

Lemma in_guard_lines : forall ps g l, In l (guard_lines g ps) -> exists g' p, In p ps /\ l = escape_start g' p.
Proof.
  induction ps as [|p r IH]; intros g l H; [destruct H|]. cbn [guard_lines] in H. destruct H as [H|H].
  - exists g, p. split; [left; reflexivity|symmetry; exact H].
  - destruct (IH _ _ H) as [g' [p' [Hp El]]]. exists g', p'. split; [right; exact Hp|exact El].
Qed.

Lemma doc_comment_lines_ok : forall a t l,
  In l (doc_comment_lines a t) -> clean_text l /\ no_tag_start l = true.
Proof.
  intros a t l H. unfold doc_comment_lines in H. apply in_guard_lines in H. destruct H as [g [p [Hp E]]].
  apply in_map_iff in Hp. destruct Hp as [x [Ex _]]. subst p l. split.
  - apply escape_start_clean, clean_piece_clean.
  - apply escape_start_no_tag.
Qed.

Lemma escape_start_blank : forall g s, blank_line s = true -> escape_start g s = s.
Proof.
  induction s as [|c r IH]; intros H; [reflexivity|]. cbn [blank_line forallb] in H.
  apply andb_true_iff in H. destruct H as [Hc Hr]. cbn [escape_start]. rewrite Hc. f_equal. apply IH. exact Hr.
Qed.

Lemma escape_start_guarded : forall s,
  blank_line s = false ->
  blank_line (escape_start true s) = false /\ continues_tag (skip_blanks (escape_start true s)) = false.
Proof.
  induction s as [|c r IH]; intros H; [discriminate H|]. cbn [blank_line forallb] in H. cbn [escape_start].
  destruct (is_blank c) eqn:Ec.
  - cbn [andb] in H. destruct (IH H) as [I1 I2]. split.
    + cbn [blank_line forallb]. rewrite Ec. exact I1.
    + cbn [skip_blanks]. rewrite Ec. exact I2.
  - destruct ((c =? AT) || (true && continues_tag (c :: r))) eqn:E.
    + split; [reflexivity|]. reflexivity.
    + split; [cbn [blank_line forallb]; rewrite Ec; reflexivity|].
      cbn [skip_blanks]. rewrite Ec. apply orb_false_iff in E. destruct E as [_ E]. exact E.
Qed.

(** after a tag line, the first non-blank line of the block cannot continue the tag *)
Lemma guard_lines_no_continuation : forall ps, no_continuation (guard_lines true ps) = true.
Proof.
  induction ps as [|p r IH]; [reflexivity|]. cbn [guard_lines no_continuation andb].
  destruct (blank_line p) eqn:E.
  - rewrite (escape_start_blank true p E), E. exact IH.
  - destruct (escape_start_guarded p E) as [H1 H2]. rewrite H1, H2. reflexivity.
Qed.

Lemma field_description_guarded : forall t, no_continuation (doc_comment_lines true t) = true.
Proof. intros t. apply guard_lines_no_continuation. Qed.

Lemma clean_app : forall a b, clean_text a -> clean_text b -> clean_text (a ++ b).
Proof. intros a b Ha Hb c H. apply in_app_or in H. destruct H; [apply Ha|apply Hb]; assumption. Qed.

Lemma join_clean : forall sep l, clean_text sep -> Forall clean_text l -> clean_text (join sep l).
Proof.
  intros sep l Hs H. induction H as [|x r Hx Hr IH]; [intros c []|].
  destruct r as [|y r']; [exact Hx|].
  change (join sep (x :: y :: r')) with (x ++ sep ++ join sep (y :: r')).
  apply clean_app; [exact Hx|]. apply clean_app; [exact Hs|exact IH].
Qed.

Lemma single_line_clean : forall t, clean_text (single_line t).
Proof.
  intros t. unfold single_line. apply join_clean.
  - intros c [H|[]]. subst c. unfold SP, NL, CR. repeat split; lia.
  - apply Forall_forall. intros l H. apply (doc_comment_lines_ok false t l H).
Qed.

(* ================================================================== type names *)
Fixpoint last_dot (s : text) : bool :=
  match s with
  | [] => false
  | c :: r => match r with [] => c =? DOT | _ :: _ => last_dot r end
  end.

Lemma last_dot_snoc : forall r c, last_dot (r ++ [c]) = (c =? DOT).
Proof.
  induction r as [|x r IH]; intros c; [reflexivity|].
  cbn [app last_dot]. destruct (r ++ [c]) eqn:E; [destruct r; discriminate|]. rewrite <- E. apply IH.
Qed.

Lemma ends_with_dot_last : forall s, ends_with_dot s = last_dot s.
Proof.
  intros s. induction s as [|c r _] using rev_ind; [reflexivity|].
  rewrite last_dot_snoc. unfold ends_with_dot. rewrite rev_unit. reflexivity.
Qed.

Section Names.
  Variables is_alpha is_alnum : cp -> bool.
  Hypothesis Hsub : forall c, is_alpha c = true -> is_alnum c = true.
  Hypothesis Hascii : forall c, c < 128 -> is_alnum c = ascii_alnum c.

  Notation nc := (is_name_continue is_alnum).
  Notation ns := (is_name_start is_alpha).

  Notation follow_ok := (Spec.follow_ok is_alnum).

  Lemma nc_usc : nc USC = true.
  Proof. unfold is_name_continue. rewrite N.eqb_refl. apply orb_true_r. Qed.

  Lemma sep_not_nc : forall c, is_sep c = true -> nc c = false.
  Proof.
    intros c H. unfold is_sep, DOT in H. unfold is_name_continue, USC.
    assert (E : c = 46 \/ c = 45 \/ c = 42).
    { destruct (N.eqb_spec c 46); [tauto|]. destruct (N.eqb_spec c 45); [tauto|].
      destruct (N.eqb_spec c 42); [tauto|]. discriminate H. }
    destruct E as [E|[E|E]]; subst c; rewrite Hascii by lia; reflexivity.
  Qed.

  Lemma ns_nc : forall c, ns c = true -> nc c = true.
  Proof.
    intros c H. unfold is_name_start in H. unfold is_name_continue.
    apply orb_true_iff in H. destruct H as [H|H]; [rewrite (Hsub c H); reflexivity|rewrite H; apply orb_true_r].
  Qed.

  (** every char continues a name, or is a '.' followed by a char that does *)
  Fixpoint dotted (n : text) : bool :=
    match n with
    | [] => true
    | c :: r => if nc c then dotted r
                else (c =? DOT) && match r with x :: _ => nc x | [] => false end && dotted r
    end.
  (** the same, but the text may end in a '.' *)
  Fixpoint dotted_open (n : text) : bool :=
    match n with
    | [] => true
    | c :: r => if nc c then dotted_open r
                else (c =? DOT) && match r with x :: _ => nc x | [] => true end && dotted_open r
    end.

  Lemma read_dotted : forall n f,
    dotted n = true -> follow_ok f = true -> read_name_rest is_alnum (n ++ f) = (n, f).
  Proof.
    induction n as [|c r IH]; intros f Hn Hf.
    - cbn [app]. destruct f as [|x f']; [reflexivity|].
      cbn [follow_ok] in Hf. apply andb_true_iff in Hf. destruct Hf as [Hf H3].
      apply andb_true_iff in Hf. destruct Hf as [H1 H2].
      apply negb_true_iff in H1, H2, H3. cbn [read_name_rest]. rewrite H1, H2, H3. reflexivity.
    - cbn [app read_name_rest]. cbn [dotted] in Hn. destruct (nc c) eqn:E.
      + rewrite (IH f Hn Hf). reflexivity.
      + apply andb_true_iff in Hn. destruct Hn as [Hn Hd]. apply andb_true_iff in Hn. destruct Hn as [Hc Hx].
        apply N.eqb_eq in Hc. subst c.
        assert (Hs : is_sep DOT = true) by reflexivity. rewrite Hs.
        destruct r as [|x r']; [discriminate Hx|]. cbn [app].
        assert (Hsx : is_sep x = false).
        { destruct (is_sep x) eqn:Es; [|reflexivity]. rewrite (sep_not_nc x Es) in Hx. discriminate Hx. }
        rewrite Hsx. change (x :: r' ++ f) with ((x :: r') ++ f). rewrite (IH f Hd Hf). reflexivity.
  Qed.

  Lemma dotted_open_close : forall o, dotted_open o = true -> last_dot o = false -> dotted o = true.
  Proof.
    induction o as [|c r IH]; intros Ho Hl; [reflexivity|].
    cbn [dotted_open] in Ho. cbn [dotted]. destruct (nc c) eqn:E.
    - destruct r as [|x r']; [reflexivity|]. apply IH; [exact Ho|exact Hl].
    - apply andb_true_iff in Ho. destruct Ho as [Ho Hd]. apply andb_true_iff in Ho. destruct Ho as [Hc Hx].
      destruct r as [|x r'].
      + cbn [last_dot] in Hl. rewrite Hl in Hc. discriminate Hc.
      + rewrite Hc, Hx. cbn [andb]. apply IH; [exact Hd|exact Hl].
  Qed.

  Lemma dotted_open_snoc : forall o, dotted_open o = true -> dotted (o ++ [USC]) = true.
  Proof.
    induction o as [|c r IH]; intros Ho.
    - cbn [app dotted]. rewrite nc_usc. reflexivity.
    - cbn [dotted_open] in Ho. cbn [app dotted]. destruct (nc c) eqn:E; [apply IH; exact Ho|].
      apply andb_true_iff in Ho. destruct Ho as [Ho Hd]. apply andb_true_iff in Ho. destruct Ho as [Hc Hx].
      rewrite Hc. cbn [andb]. rewrite (IH Hd). destruct r as [|x r']; cbn [app].
      + rewrite nc_usc. reflexivity.
      + rewrite Hx. reflexivity.
  Qed.

  Lemma nc_dot : nc DOT = false.
  Proof. apply sep_not_nc. reflexivity. Qed.

  (** the loop after its first iteration *)
  Lemma go_shape : forall s after,
    dotted_open (sanitize_go is_alpha is_alnum s false after) = true /\
    (after = false -> match sanitize_go is_alpha is_alnum s false after with x :: _ => nc x = true | [] => True end).
  Proof.
    induction s as [|c r IH]; intros after; [split; [reflexivity|intros _; exact I]|].
    cbn [sanitize_go]. destruct (is_alnum c || (c =? USC)) eqn:E.
    - cbn [andb app]. split.
      + cbn [dotted_open]. unfold is_name_continue at 1. rewrite E. apply (IH true).
      + intros _. exact E.
    - destruct ((c =? DOT) && after) eqn:E2.
      + apply andb_true_iff in E2. destruct E2 as [Hc Ha]. subst after. split; [|discriminate].
        cbn [dotted_open]. rewrite nc_dot. apply N.eqb_eq in Hc. subst c. rewrite N.eqb_refl. cbn [andb].
        destruct (IH false) as [I1 I2]. rewrite I1.
        specialize (I2 eq_refl). destruct (sanitize_go is_alpha is_alnum r false false); [reflexivity|].
        rewrite I2. reflexivity.
      + split.
        * cbn [dotted_open]. rewrite nc_usc. apply (IH true).
        * intros _. apply nc_usc.
  Qed.

  Lemma ns_usc : ns USC = true.
  Proof. unfold is_name_start. rewrite N.eqb_refl. apply orb_true_r. Qed.

  (** the whole loop: a name-start character followed by an open dotted text *)
  Lemma sanitize_go_first : forall s,
    sanitize_go is_alpha is_alnum s true false = [] \/
    exists h b, sanitize_go is_alpha is_alnum s true false = h :: b /\ ns h = true /\ dotted_open b = true.
  Proof.
    intros [|c r]; [left; reflexivity|right]. cbn [sanitize_go].
    destruct (is_alnum c || (c =? USC)) eqn:E.
    - cbn [andb]. destruct (is_alpha c || (c =? USC)) eqn:E1; cbn [negb app].
      + exists c, (sanitize_go is_alpha is_alnum r false true). split; [reflexivity|]. split; [exact E1|]. apply (go_shape r true).
      + exists USC, (c :: sanitize_go is_alpha is_alnum r false true). split; [reflexivity|]. split; [apply ns_usc|].
        cbn [dotted_open]. unfold is_name_continue at 1. rewrite E. apply (go_shape r true).
    - rewrite andb_false_r. exists USC, (sanitize_go is_alpha is_alnum r false true).
      split; [reflexivity|]. split; [apply ns_usc|]. apply (go_shape r true).
  Qed.

  Lemma lex_name_of_shape : forall h b f,
    ns h = true -> dotted b = true -> follow_ok f = true ->
    lex_name is_alpha is_alnum ((h :: b) ++ f) = Some (h :: b, f).
  Proof.
    intros h b f Hh Hb Hf. cbn [app lex_name]. rewrite Hh. rewrite (read_dotted b f Hb Hf). reflexivity.
  Qed.

  (** the doc lexer reads a sanitised type name as exactly one name token *)
  Lemma type_name_one_token : forall s f,
    follow_ok f = true ->
    lex_name is_alpha is_alnum (sanitize_type_name is_alpha is_alnum s ++ f) = Some (sanitize_type_name is_alpha is_alnum s, f).
  Proof.
    intros s f Hf. unfold sanitize_type_name.
    destruct (sanitize_go_first s) as [E|[h [b [E [Hh Hb]]]]]; rewrite E.
    - apply (lex_name_of_shape USC [] f ns_usc eq_refl Hf).
    - rewrite ends_with_dot_last.
      assert (Hhd : (h =? DOT) = false).
      { destruct (N.eqb_spec h DOT) as [X|X]; [|reflexivity]. subst h. pose proof (ns_nc DOT Hh) as Y.
        rewrite nc_dot in Y. discriminate Y. }
      destruct (last_dot (h :: b)) eqn:El.
      + change ((h :: b) ++ [USC]) with (h :: (b ++ [USC])).
        apply lex_name_of_shape; [exact Hh|apply dotted_open_snoc; exact Hb|exact Hf].
      + apply lex_name_of_shape; [exact Hh| |exact Hf].
        apply dotted_open_close; [exact Hb|].
        cbn [last_dot] in El. destruct b as [|x b']; [reflexivity|exact El].
  Qed.

End Names.

(* ================================================================== small tools *)
Fixpoint cleanb (l : text) : bool :=
  match l with [] => true | c :: r => negb (c =? NL) && negb (c =? CR) && negb (c =? 0) && cleanb r end.

Lemma cleanb_clean : forall l, cleanb l = true -> clean_text l.
Proof.
  induction l as [|c r IH]; intros H x Hx; [destruct Hx|].
  cbn [cleanb] in H. apply andb_true_iff in H. destruct H as [H Hr].
  apply andb_true_iff in H. destruct H as [H H3]. apply andb_true_iff in H. destruct H as [H1 H2].
  destruct Hx as [Hx|Hx]; [|apply IH; assumption]. subst x.
  apply negb_true_iff in H1, H2, H3. apply N.eqb_neq in H1, H2, H3. tauto.
Qed.

Lemma clean_cons : forall c l, c <> NL -> c <> CR -> c <> 0 -> clean_text l -> clean_text (c :: l).
Proof. intros c l H1 H2 H3 Hl x [Hx|Hx]; [subst x; tauto|apply Hl; exact Hx]. Qed.

Lemma clean_nil : clean_text [].
Proof. intros c []. Qed.

Lemma all_some_Forall : forall (A B : Type) (f : A -> option B) (P : B -> Prop) l ts,
  all_some (map f l) = Some ts -> (forall x t, In x l -> f x = Some t -> P t) -> Forall P ts.
Proof.
  induction l as [|x r IH]; intros ts H HP; cbn [map all_some] in H.
  - inversion H; subst. constructor.
  - destruct (f x) as [y|] eqn:E; [|discriminate H].
    destruct (all_some (map f r)) as [ys|] eqn:Er; cbn [option_map] in H; [|discriminate H].
    inversion H; subst. constructor.
    + apply (HP x y); [left; reflexivity|exact E].
    + apply IH; [reflexivity|]. intros x' t Hin Hx. apply (HP x' t); [right; exact Hin|exact Hx].
Qed.

Lemma all_some_total : forall (A B : Type) (f : A -> option B) l,
  (forall x, In x l -> f x <> None) -> all_some (map f l) <> None.
Proof.
  induction l as [|x r IH]; intros H; cbn [map all_some]; [discriminate|].
  destruct (f x) as [y|] eqn:E; [|exfalso; apply (H x); [left; reflexivity|exact E]].
  destruct (all_some (map f r)) as [ys|] eqn:Er; cbn [option_map]; [discriminate|].
  exfalso. apply IH; [|reflexivity]. intros x' Hin. apply H. right. exact Hin.
Qed.

Lemma Forall_concat : forall (A : Type) (P : A -> Prop) (ls : list (list A)),
  Forall (Forall P) ls -> Forall P (concat ls).
Proof.
  intros A P ls H. induction H as [|l r Hl Hr IH]; cbn [concat]; [constructor|].
  apply Forall_app. split; assumption.
Qed.

Lemma Forall_flat_map : forall (A B : Type) (P : B -> Prop) (f : A -> list B) l,
  (forall x, In x l -> Forall P (f x)) -> Forall P (flat_map f l).
Proof.
  intros A B P f l H. induction l as [|x r IH]; cbn [flat_map]; [constructor|].
  apply Forall_app. split; [apply H; left; reflexivity|]. apply IH. intros y Hy. apply H. right. exact Hy.
Qed.

(* ================================================================== types *)
Section Types.
  Variables is_alpha is_alnum : cp -> bool.
  Hypothesis Hsub : forall c, is_alpha c = true -> is_alnum c = true.
  Hypothesis Hascii : forall c, c < 128 -> is_alnum c = ascii_alnum c.

  Notation nc := (is_name_continue is_alnum).
  Notation name_tok := (Spec.name_tok is_alpha is_alnum).
  Notation ty_atom := (Spec.ty_atom is_alpha is_alnum).
  Notation ty_expr := (Spec.ty_expr is_alpha is_alnum).
  Notation sanitize := (sanitize_type_name is_alpha is_alnum).

  Lemma nc_clean : forall c, nc c = true -> c <> NL /\ c <> CR /\ c <> 0.
  Proof.
    intros c H. unfold NL, CR. repeat split; intros E; subst c; unfold is_name_continue in H;
      rewrite Hascii in H by lia; discriminate H.
  Qed.

  Lemma dotted_open_chars : forall o, dotted_open is_alnum o = true -> forall c, In c o -> nc c = true \/ c = DOT.
  Proof.
    induction o as [|x r IH]; intros H c Hc; [destruct Hc|]. cbn [dotted_open] in H.
    destruct (nc x) eqn:E.
    - destruct Hc as [Hc|Hc]; [subst c; left; exact E|apply IH; assumption].
    - apply andb_true_iff in H. destruct H as [H Hd]. apply andb_true_iff in H. destruct H as [Hx _].
      destruct Hc as [Hc|Hc]; [subst c; right; apply N.eqb_eq; exact Hx|apply IH; assumption].
  Qed.

  Lemma sanitize_clean : forall s, clean_text (sanitize s).
  Proof.
    intros s. unfold sanitize_type_name.
    assert (Hu : USC <> NL /\ USC <> CR /\ USC <> 0) by (unfold USC, NL, CR; repeat split; lia).
    assert (Hd : DOT <> NL /\ DOT <> CR /\ DOT <> 0) by (unfold DOT, NL, CR; repeat split; lia).
    destruct (sanitize_go_first is_alpha is_alnum Hascii s) as [E|[h [b [E [Hh Hb]]]]]; rewrite E.
    - intros c [Hc|[]]. subst c. exact Hu.
    - assert (Hall : clean_text (h :: b)).
      { intros c [Hc|Hc].
        - subst c. apply nc_clean. apply (ns_nc is_alpha is_alnum Hsub). exact Hh.
        - destruct (dotted_open_chars b Hb c Hc) as [X|X]; [apply nc_clean; exact X|subst c; exact Hd]. }
      destruct (ends_with_dot (h :: b)); [|exact Hall].
      apply clean_app; [exact Hall|]. intros c [Hc|[]]. subst c. exact Hu.
  Qed.

  Lemma sanitize_name_tok : forall s, name_tok (sanitize s).
  Proof. intros s f Hf. apply (type_name_one_token is_alpha is_alnum Hsub Hascii). exact Hf. Qed.

  (** invariant of a rendered type: in the grammar, atomic when it says so, on one line *)
  Definition good_ty (t : lua_type) : Prop :=
    ty_expr (ty_text t) /\ (ty_atomic t = true -> ty_atom (ty_text t)) /\ clean_text (ty_text t).

  Lemma good_atom : forall x, ty_atom x -> clean_text x -> good_ty (atom x).
  Proof. intros x H Hc. split; [apply E_atom; exact H|]. split; [intros _; exact H|exact Hc]. Qed.

  Lemma T_clean : forall s, cleanb (T s) = true -> clean_text (T s).
  Proof. intros s. apply cleanb_clean. Qed.

  Lemma prims_good : forall p, In p prims -> good_ty (atom p).
  Proof.
    intros p H. apply good_atom; [apply A_prim; exact H|].
    cbn [prims In] in H.
    repeat (destruct H as [H|H]; [subst p; apply cleanb_clean; reflexivity|]). destruct H.
  Qed.

  Lemma good_any : good_ty ty_any.
  Proof. apply prims_good. cbn [prims In]. tauto. Qed.

  Lemma good_quote : forall s, good_ty (atom (quote_lua_string s)).
  Proof. intros s. apply good_atom; [apply A_str|]. intros c H. apply (quote_clean s c H). Qed.

  Lemma good_name : forall s, good_ty (atom (sanitize s)).
  Proof. intros s. apply good_atom; [apply A_name, sanitize_name_tok|apply sanitize_clean]. Qed.

  Lemma good_wrapped : forall t, good_ty t -> ty_atom (wrapped t) /\ clean_text (wrapped t).
  Proof.
    intros t [He [Ha Hc]]. unfold wrapped. destruct (ty_atomic t).
    - split; [apply Ha; reflexivity|exact Hc].
    - split; [apply A_paren; exact He|].
      apply clean_app; [apply cleanb_clean; reflexivity|]. apply clean_app; [exact Hc|apply cleanb_clean; reflexivity].
  Qed.

  Lemma good_union : forall ms, Forall good_ty ms -> good_ty (ty_union ms).
  Proof.
    intros ms H. destruct ms as [|m1 [|m2 r]].
    - apply good_any.
    - inversion H; subst. assumption.
    - unfold ty_union. set (l := m1 :: m2 :: r) in *.
      assert (Hw : Forall (fun x => ty_atom x /\ clean_text x) (map wrapped l)).
      { apply Forall_forall. intros x Hx. apply in_map_iff in Hx. destruct Hx as [m [E Hm]]. subst x.
        apply good_wrapped. rewrite Forall_forall in H. apply H. exact Hm. }
      split; [|split]; cbn [ty_text ty_atomic].
      + apply E_union; [subst l; cbn [map length]; lia|].
        eapply Forall_impl; [|exact Hw]. intros x [X _]. exact X.
      + discriminate.
      + apply join_clean; [apply cleanb_clean; reflexivity|].
        eapply Forall_impl; [|exact Hw]. intros x [_ X]. exact X.
  Qed.

  Lemma good_optional : forall t, good_ty t -> good_ty (ty_optional t).
  Proof.
    intros t H. unfold ty_optional. destruct (ty_nullable t); [exact H|].
    destruct (good_wrapped t H) as [Ha Hc]. split; [|split]; cbn [ty_text ty_atomic].
    - apply E_opt. exact Ha.
    - discriminate.
    - apply clean_app; [exact Hc|apply cleanb_clean; reflexivity].
  Qed.

  Lemma good_array : forall t, good_ty t -> good_ty (ty_array t).
  Proof.
    intros t H. destruct (good_wrapped t H) as [Ha Hc]. unfold ty_array. apply good_atom.
    - apply A_arr. exact Ha.
    - apply clean_app; [exact Hc|apply cleanb_clean; reflexivity].
  Qed.

  Lemma good_map : forall v, good_ty v -> good_ty (atom (T "table<string, " ++ ty_text v ++ T ">")).
  Proof.
    intros v [He [_ Hc]]. apply good_atom.
    - apply A_map. exact He.
    - apply clean_app; [apply cleanb_clean; reflexivity|]. apply clean_app; [exact Hc|apply cleanb_clean; reflexivity].
  Qed.

  Lemma good_json_type : forall t, good_ty (atom (json_type_to_lua t)).
  Proof.
    intros t. unfold json_type_to_lua.
    repeat match goal with
           | |- context [if ?b then _ else _] => destruct b; [apply prims_good; cbn [prims In]; tauto|]
           end.
    - (* "any[]" *)
      destruct (text_eqb t (T "array")).
      + change (T "any[]") with (T "any" ++ T "[]"). apply good_atom.
        * apply A_arr. apply A_prim. cbn [prims In]. tauto.
        * apply cleanb_clean. reflexivity.
      + apply prims_good. cbn [prims In]. tauto.
  Qed.

  Variable prefix : text.

  (** every type text the walker renders is in the grammar *)
  Lemma resolve_type_good : forall fuel schema t,
    resolve_type is_alpha is_alnum prefix fuel schema = Some t -> good_ty t.
  Proof.
    induction fuel as [|fuel IH]; intros schema t H; [discriminate H|].
    cbn [resolve_type] in H.
    destruct (get_str "$ref" schema) as [r|].
    { inversion H; subst. apply good_name. }
    destruct (get_arr "anyOf" schema) as [l|].
    { destruct (all_some (map (resolve_type is_alpha is_alnum prefix fuel) (filter (fun i => negb (is_null_item i)) l))) as [ts|] eqn:E;
        [|discriminate H].
      assert (Hts : Forall good_ty ts).
      { eapply all_some_Forall; [exact E|]. intros x y _ Hx. apply (IH x y Hx). }
      inversion H; subst. destruct (existsb is_null_item l); [apply good_optional|]; apply good_union; exact Hts. }
    destruct (get_arr "oneOf" schema) as [l|].
    { match type of H with match all_some (map ?f ?xs) with _ => _ end = _ => destruct (all_some (map f xs)) as [ts|] eqn:E end;
        [|discriminate H].
      assert (Hts : Forall good_ty ts).
      { eapply all_some_Forall; [exact E|]. intros x y _ Hx. cbv beta in Hx.
        destruct (get_str "const" x) as [c|]; [inversion Hx; subst; apply good_quote|apply (IH x y Hx)]. }
      inversion H; subst. apply good_union. exact Hts. }
    assert (Henum : forall t',
      match get_arr "enum" schema with
      | Some vs => Some (ty_union (map (fun s => atom (quote_lua_string s)) (Model.filter_map as_str vs)))
      | None => match get_str "const" schema with
                | Some c => Some (atom (quote_lua_string c))
                | None => Some ty_any
                end
      end = Some t' -> good_ty t').
    { intros t' Ht. destruct (get_arr "enum" schema) as [vs|].
      - inversion Ht; subst. apply good_union. apply Forall_forall. intros x Hx.
        apply in_map_iff in Hx. destruct Hx as [s [Es _]]. subst x. apply good_quote.
      - destruct (get_str "const" schema) as [c|]; inversion Ht; subst; [apply good_quote|apply good_any]. }
    destruct (Model.get "type" schema) as [[| | | s | arr | m]|]; try (apply Henum; exact H).
    - (* type: "..." *)
      destruct (text_eqb s (T "array")).
      { destruct (Model.get "items" schema) as [items|].
        - destruct (resolve_type is_alpha is_alnum prefix fuel items) as [it|] eqn:E; cbn [option_map] in H; [|discriminate H].
          inversion H; subst. apply good_array. apply (IH items it E).
        - inversion H; subst. apply good_array, good_any. }
      destruct (text_eqb s (T "object")).
      { assert (Htab : good_ty (atom (T "table"))) by (apply prims_good; cbn [prims In]; tauto).
        destruct (Model.get "additionalProperties" schema) as [[| | | | |m]|]; try (inversion H; subst; exact Htab).
        destruct (resolve_type is_alpha is_alnum prefix fuel (JObj m)) as [v|] eqn:E; cbn [option_map] in H; [|discriminate H].
        inversion H; subst. apply good_map. apply (IH _ v E). }
      inversion H; subst. apply good_json_type.
    - (* type: [...] *)
      set (names := filter (fun t0 => negb (text_eqb t0 (T "null"))) (Model.filter_map as_str arr)) in *.
      assert (Hu : good_ty (ty_union (map (fun t0 => atom (json_type_to_lua t0)) names))).
      { apply good_union. apply Forall_forall. intros x Hx. apply in_map_iff in Hx. destruct Hx as [n [En _]]. subst x.
        apply good_json_type. }
      destruct names as [|n0 nr]; destruct (existsb (fun t0 => str_is (as_str t0) "null") arr);
        inversion H; subst; try exact Hu; try (apply good_optional; exact Hu).
      apply prims_good. cbn [prims In]. tauto.
  Qed.

  (** [?] is only ever appended to an atom: an optional union is rendered with the union in parentheses *)
  Lemma optional_binds_whole_union : forall ms,
    (2 <= length ms)%nat ->
    ty_text (ty_optional (ty_union ms)) = (T "(" ++ join (T " | ") (map wrapped ms) ++ T ")") ++ T "?".
  Proof.
    intros ms H. destruct ms as [|m1 [|m2 r]]; cbn [length] in H; try lia.
    reflexivity.
  Qed.
End Types.

(* ================================================================== lines *)
Lemma some_inj : forall (A : Type) (a b : A), Some a = Some b -> a = b.
Proof. intros A a b H. inversion H. reflexivity. Qed.

Lemma option_map_some : forall (A B : Type) (f : A -> B) o y,
  option_map f o = Some y -> exists x, o = Some x /\ y = f x.
Proof. intros A B f [x|] y H; cbn [option_map] in H; [inversion H; eauto|discriminate H]. Qed.

Lemma ascii_alnum_ge : forall c, ascii_alnum c = true -> 48 <= c.
Proof.
  intros c H. unfold ascii_alnum, ascii_alpha, ascii_digit in H.
  destruct (N.leb_spec 65 c); [lia|]. destruct (N.leb_spec 97 c); [lia|].
  destruct (N.leb_spec 48 c); [lia|]. cbn in H. discriminate H.
Qed.

Lemma bare_clean : forall n, needs_bracket_notation n = false -> clean_text n.
Proof.
  intros n H. unfold needs_bracket_notation in H. destruct n as [|first r]; [discriminate H|].
  destruct (text_mem (first :: r) modifiers); [discriminate H|].
  destruct (negb (ascii_alpha first) && negb (first =? USC)); [discriminate H|].
  apply negb_false_iff in H. rewrite forallb_forall in H. intros c Hc. specialize (H c Hc).
  apply orb_true_iff in H. unfold NL, CR. destruct H as [H|H].
  - apply ascii_alnum_ge in H. repeat split; lia.
  - apply N.eqb_eq in H. subst c. unfold USC. repeat split; lia.
Qed.

Section Lines.
  Variables is_alpha is_alnum : cp -> bool.
  Hypothesis Hsub : forall c, is_alpha c = true -> is_alnum c = true.
  Hypothesis Hascii : forall c, c < 128 -> is_alnum c = ascii_alnum c.
  Variable prefix : text.
  Variable wf : bool.

  Notation name_tok := (Spec.name_tok is_alpha is_alnum).
  Notation ty_atom := (Spec.ty_atom is_alpha is_alnum).
  Notation ty_expr := (Spec.ty_expr is_alpha is_alnum).
  Notation line_ok := (Spec.line_ok is_alpha is_alnum).
  Notation good_line := (Spec.good_line is_alpha is_alnum).
  Notation good_ty := (good_ty is_alpha is_alnum).
  Notation declares := (Spec.declares wf).
  Notation tname := (type_name is_alpha is_alnum prefix).
  Notation rtype := (resolve_type is_alpha is_alnum prefix).

  Definition good_name_text (n : text) : Prop := name_tok n /\ clean_text n.

  Lemma tname_good : forall s, good_name_text (tname s).
  Proof.
    intros s. unfold type_name. split.
    - apply (sanitize_name_tok is_alpha is_alnum Hsub Hascii).
    - apply (sanitize_clean is_alpha is_alnum Hsub Hascii).
  Qed.

  Lemma file_flag_clean : forall b, clean_text (file_flag b).
  Proof. intros [|]; apply cleanb_clean; reflexivity. Qed.

  Lemma sp_clean : clean_text [SP].
  Proof. apply cleanb_clean. reflexivity. Qed.

  Lemma doc_comment_good : forall t, Forall good_line (write_doc_comment t).
  Proof.
    intros t. unfold write_doc_comment. apply Forall_forall. intros l H.
    apply in_map_iff in H. destruct H as [x [E Hx]]. subst l.
    destruct (doc_comment_lines_ok false t x Hx) as [Hc Hn]. split.
    - apply L_doc; assumption.
    - apply clean_app; [apply cleanb_clean; reflexivity|exact Hc].
  Qed.

  Lemma field_comment_good : forall t, Forall good_line (write_field_comment t).
  Proof.
    intros t. unfold write_field_comment. apply Forall_forall. intros l H.
    apply in_map_iff in H. destruct H as [x [E Hx]]. subst l.
    destruct (doc_comment_lines_ok true t x Hx) as [Hc Hn]. split.
    - apply L_doc; assumption.
    - apply clean_app; [apply cleanb_clean; reflexivity|exact Hc].
  Qed.

  Lemma opt_doc_good : forall d, Forall good_line (opt_doc d).
  Proof. intros [t|]; [apply field_comment_good|constructor]. Qed.

  Lemma desc_lines_good : forall schema, Forall good_line (desc_lines schema).
  Proof. intros schema. unfold desc_lines. destruct (get_str "description" schema); [apply doc_comment_good|constructor]. Qed.

  Lemma class_good : forall n, good_name_text n -> Forall good_line (write_class wf n).
  Proof.
    intros n [Hn Hc]. unfold write_class. constructor; [|constructor]. split.
    - apply L_class. exact Hn.
    - apply clean_app; [apply cleanb_clean; reflexivity|]. apply clean_app; [apply file_flag_clean|].
      apply clean_app; [apply sp_clean|exact Hc].
  Qed.

  Lemma alias_header_good : forall n, good_name_text n -> Forall good_line (write_alias_header wf n).
  Proof.
    intros n [Hn Hc]. unfold write_alias_header. constructor; [|constructor]. split.
    - apply L_alias. exact Hn.
    - apply clean_app; [apply cleanb_clean; reflexivity|]. apply clean_app; [apply file_flag_clean|].
      apply clean_app; [apply sp_clean|exact Hc].
  Qed.

  Lemma field_key_good : forall name, key_ok (field_key name) /\ clean_text (field_key name).
  Proof.
    intros name. unfold field_key. destruct (needs_bracket_notation name) eqn:E.
    - split; [apply K_str|]. apply clean_app; [apply cleanb_clean; reflexivity|].
      apply clean_app; [intros c H; apply (quote_clean name c H)|apply cleanb_clean; reflexivity].
    - split; [apply K_bare; exact E|apply bare_clean; exact E].
  Qed.

  (** [---@field] lines, for ALL names, (well-formed) types and descriptions *)
  Lemma field_good : forall name ty desc,
    ty_expr ty -> clean_text ty -> Forall good_line (write_field name ty desc).
  Proof.
    intros name ty desc Ht Hc. unfold write_field. apply Forall_app. split; [apply opt_doc_good|].
    constructor; [|constructor]. destruct (field_key_good name) as [Hk Hkc]. split.
    - apply L_field; assumption.
    - apply clean_app; [apply cleanb_clean; reflexivity|]. apply clean_app; [exact Hkc|].
      apply clean_app; [apply sp_clean|exact Hc].
  Qed.

  Lemma index_field_good : forall ty desc,
    ty_expr ty -> clean_text ty -> Forall good_line (write_index_field (T "string") ty desc).
  Proof.
    intros ty desc Ht Hc. unfold write_index_field. apply Forall_app. split; [apply opt_doc_good|].
    constructor; [|constructor]. split.
    - apply L_index; [|exact Ht]. apply E_atom, A_prim. cbn [prims In]. tauto.
    - apply clean_app; [apply cleanb_clean; reflexivity|]. apply clean_app; [apply cleanb_clean; reflexivity|].
      apply clean_app; [apply cleanb_clean; reflexivity|exact Hc].
  Qed.

  Lemma variant_good : forall ty desc,
    ty_atom ty -> clean_text ty -> Forall good_line (write_alias_type_variant ty desc).
  Proof.
    intros ty desc Ht Hc. unfold write_alias_type_variant.
    set (d := match desc with Some t => single_line t | None => [] end).
    assert (Hd : clean_text d) by (subst d; destruct desc; [apply single_line_clean|apply clean_nil]).
    destruct d as [|x d']; (constructor; [|constructor]); split.
    - apply L_variant. exact Ht.
    - apply clean_app; [apply cleanb_clean; reflexivity|exact Hc].
    - apply L_variant_d; assumption.
    - apply clean_app; [apply cleanb_clean; reflexivity|]. apply clean_app; [exact Hc|].
      apply clean_app; [apply cleanb_clean; reflexivity|exact Hd].
  Qed.

  Lemma alias_variant_good : forall v desc, Forall good_line (write_alias_variant v desc).
  Proof.
    intros v desc. unfold write_alias_variant. apply variant_good; [apply A_str|].
    intros c H. apply (quote_clean v c H).
  Qed.

  Lemma any_variant_good : Forall good_line any_variant.
  Proof.
    unfold any_variant. apply variant_good; [apply A_prim; cbn [prims In]; tauto|apply cleanb_clean; reflexivity].
  Qed.

  Lemma wrapped_variant_good : forall t desc, good_ty t -> Forall good_line (write_alias_type_variant (wrapped t) desc).
  Proof. intros t desc H. destruct (good_wrapped is_alpha is_alnum t H). apply variant_good; assumption. Qed.

  Definition emit_ok (name : text) (ls : list text) : Prop := Forall good_line ls /\ declares name ls.

  Lemma declares_alias_header : forall name r, declares name (write_alias_header wf name ++ r).
  Proof. intros name r. right. apply in_or_app. left. left. reflexivity. Qed.

  Lemma declares_app_r : forall name a b, declares name b -> declares name (a ++ b).
  Proof. intros name a b [H|H]; [left|right]; apply in_or_app; right; exact H. Qed.

  Lemma emit_enum_alias_ok : forall name vs, good_name_text name -> emit_ok name (emit_enum_alias wf name vs).
  Proof.
    intros name vs Hn. unfold emit_enum_alias. split; [|apply declares_alias_header].
    apply Forall_app. split; [apply alias_header_good; exact Hn|].
    set (l := flat_map (fun s => write_alias_variant s None) (Model.filter_map as_str vs)).
    assert (Hl : Forall good_line l) by (apply Forall_flat_map; intros; apply alias_variant_good).
    destruct l; [apply any_variant_good|exact Hl].
  Qed.

  Lemma emit_one_of_alias_ok : forall name l, good_name_text name -> emit_ok name (emit_one_of_alias wf name l).
  Proof.
    intros name l Hn. unfold emit_one_of_alias. split; [|apply declares_alias_header].
    apply Forall_app. split; [apply alias_header_good; exact Hn|].
    match goal with |- Forall _ (match ?x with _ => _ end) => set (vs := x) end.
    assert (Hl : Forall good_line vs).
    { apply Forall_flat_map. intros item _. destruct (one_of_const item); [apply alias_variant_good|constructor]. }
    destruct vs; [apply any_variant_good|exact Hl].
  Qed.

  Lemma variants_of_items_good : forall fuel items vss,
    all_some (map (fun item => option_map (fun ty => write_alias_type_variant (wrapped ty) (get_str "description" item))
                                          (rtype fuel item)) items) = Some vss ->
    Forall good_line (concat vss).
  Proof.
    intros fuel items vss H. apply Forall_concat. eapply all_some_Forall; [exact H|].
    intros x ls _ Hx. cbv beta in Hx. apply option_map_some in Hx. destruct Hx as [ty [Ety El]]. subst ls.
    apply wrapped_variant_good. apply (resolve_type_good is_alpha is_alnum Hsub Hascii prefix fuel x ty Ety).
  Qed.

  Lemma emit_one_of_type_alias_ok : forall fuel name l ls,
    good_name_text name -> emit_one_of_type_alias is_alpha is_alnum prefix wf fuel name l = Some ls -> emit_ok name ls.
  Proof.
    intros fuel name l ls Hn H. unfold emit_one_of_type_alias in H.
    match type of H with match ?x with _ => _ end = _ => destruct x as [vss|] eqn:E end; [|discriminate H].
    apply some_inj in H; subst ls. split; [|apply declares_alias_header].
    apply Forall_app. split; [apply alias_header_good; exact Hn|].
    apply Forall_app. split; [apply (variants_of_items_good fuel l vss E)|].
    destruct l; [apply any_variant_good|constructor].
  Qed.

  Lemma emit_any_of_alias_ok : forall fuel name schema ls,
    good_name_text name -> emit_any_of_alias is_alpha is_alnum prefix wf fuel name schema = Some ls -> emit_ok name ls.
  Proof.
    intros fuel name schema ls Hn H. unfold emit_any_of_alias in H.
    match type of H with match all_some (map _ ?it) with _ => _ end = _ => set (items := it) in * end.
    match type of H with match ?x with _ => _ end = _ => destruct x as [vss|] eqn:E end; [|discriminate H].
    apply some_inj in H; subst ls. split; [|apply declares_alias_header].
    apply Forall_app. split; [apply alias_header_good; exact Hn|].
    destruct items; [apply any_variant_good|apply (variants_of_items_good fuel _ vss E)].
  Qed.

  Lemma resolve_field_type_good : forall fuel schema opt t,
    resolve_field_type is_alpha is_alnum prefix fuel schema opt = Some t -> good_ty t.
  Proof.
    intros fuel schema opt t H. unfold resolve_field_type in H. apply option_map_some in H.
    destruct H as [t0 [E Et]]. subst t.
    pose proof (resolve_type_good is_alpha is_alnum Hsub Hascii prefix fuel schema t0 E) as G.
    destruct (is_nullable schema || opt); [apply good_optional; exact G|exact G].
  Qed.

  Lemma emit_object_class_ok : forall fuel name schema ls,
    good_name_text name -> emit_object_class is_alpha is_alnum prefix wf fuel name schema = Some ls -> emit_ok name ls.
  Proof.
    intros fuel name schema ls Hn H. unfold emit_object_class in H.
    match type of H with match ?x with _ => _ end = _ => destruct x as [fss|] eqn:E end; [|discriminate H].
    match type of H with match ?x with _ => _ end = _ => destruct x as [add|] eqn:Ea end; [|discriminate H].
    apply some_inj in H; subst ls. split.
    - apply Forall_app. split; [apply desc_lines_good|].
      apply Forall_app. split; [apply class_good; exact Hn|].
      apply Forall_app. split.
      + apply Forall_concat. eapply all_some_Forall; [exact E|].
        intros [fname fschema] fl _ Hx. cbv beta iota in Hx. apply option_map_some in Hx.
        destruct Hx as [ty [Ety El]]. subst fl.
        destruct (resolve_field_type_good _ _ _ _ Ety) as [He [_ Hc]]. apply field_good; assumption.
      + destruct (Model.get "additionalProperties" schema) as [[| | | | |m]|]; try (apply some_inj in Ea; subst add; constructor).
        apply option_map_some in Ea. destruct Ea as [v [Ev El]]. subst add.
        destruct (resolve_type_good is_alpha is_alnum Hsub Hascii prefix fuel _ v Ev) as [He [_ Hc]].
        apply index_field_good; assumption.
    - apply declares_app_r. left. apply in_or_app. left. left. reflexivity.
  Qed.

  Lemma emit_ok_desc : forall name schema ls, emit_ok name ls -> emit_ok name (desc_lines schema ++ ls).
  Proof.
    intros name schema ls [H1 H2]. split; [apply Forall_app; split; [apply desc_lines_good|exact H1]|].
    apply declares_app_r. exact H2.
  Qed.

  Lemma emit_definition_ok : forall fuel name schema ls,
    good_name_text name -> emit_definition is_alpha is_alnum prefix wf fuel name schema = Some ls -> emit_ok name ls.
  Proof.
    intros fuel name schema ls Hn H. unfold emit_definition in H.
    destruct (get_arr "enum" schema) as [vs|].
    { apply some_inj in H; subst ls. apply emit_ok_desc. apply emit_enum_alias_ok. exact Hn. }
    destruct (get_arr "oneOf" schema) as [l|].
    { destruct (all_const_or_enum l).
      - apply some_inj in H; subst ls. apply emit_ok_desc. apply emit_one_of_alias_ok. exact Hn.
      - apply option_map_some in H. destruct H as [x [Ex El]]. subst ls. apply emit_ok_desc.
        apply (emit_one_of_type_alias_ok fuel name l x Hn Ex). }
    destruct (is_some (Model.get "anyOf" schema) && negb (is_some (Model.get "properties" schema))).
    { apply option_map_some in H. destruct H as [x [Ex El]]. subst ls. apply emit_ok_desc.
      apply (emit_any_of_alias_ok fuel name schema x Hn Ex). }
    destruct (is_some (Model.get "properties" schema) || str_is (get_str "type" schema) "object").
    { apply (emit_object_class_ok fuel name schema ls Hn H). }
    apply option_map_some in H. destruct H as [ty [Ety El]]. subst ls. apply emit_ok_desc. split.
    - apply Forall_app. split; [apply alias_header_good; exact Hn|].
      apply wrapped_variant_good. apply (resolve_type_good is_alpha is_alnum Hsub Hascii prefix fuel schema ty Ety).
    - apply declares_alias_header.
  Qed.

  Lemma blank_good : good_line [].
  Proof. split; [apply L_blank|apply clean_nil]. Qed.

  Lemma header_good : Forall good_line header.
  Proof.
    unfold header. constructor; [|constructor; [|constructor; [|constructor]]].
    - split; [|apply cleanb_clean; reflexivity].
      change (T "--- This file was auto-generated from JSON Schema.") with (T "--- " ++ T "This file was auto-generated from JSON Schema.").
      apply L_doc; [apply cleanb_clean; reflexivity|reflexivity].
    - split; [|apply cleanb_clean; reflexivity].
      change (T "--- Do not edit manually.") with (T "--- " ++ T "Do not edit manually.").
      apply L_doc; [apply cleanb_clean; reflexivity|reflexivity].
    - apply blank_good.
  Qed.

  Lemma defs_good : forall fuel ds out,
    all_some (map (fun '(n, d) => option_map (fun ls => ls ++ [[]]) (emit_definition is_alpha is_alnum prefix wf fuel (tname n) d)) ds) = Some out ->
    Forall good_line (concat out).
  Proof.
    intros fuel ds out H. apply Forall_concat. eapply all_some_Forall; [exact H|].
    intros [n d] ls _ Hx. cbv beta iota in Hx. apply option_map_some in Hx. destruct Hx as [x [Ex El]]. subst ls.
    apply Forall_app. split; [|constructor; [apply blank_good|constructor]].
    apply (emit_definition_ok fuel (tname n) d x (tname_good n) Ex).
  Qed.

  (** every line of the output is well formed, and the reported root type is declared *)
  Lemma convert_ok : forall fuel schema ls root,
    convert is_alpha is_alnum prefix wf fuel schema = Some (ls, root) ->
    Forall good_line ls /\ declares root ls /\ good_name_text root.
  Proof.
    intros fuel schema ls root H. unfold convert in H.
    match type of H with (match ?a with Some _ => _ | None => _ end) = _ => destruct a as [al|] eqn:Ea end; [|discriminate H].
    match type of H with (match ?c with Some _ => _ | None => _ end) = _ => destruct c as [cl|] eqn:Ec end; [|discriminate H].
    match type of H with match ?r with _ => _ end = _ => destruct r as [rl|] eqn:Er end; [|discriminate H].
    apply some_inj in H. apply pair_equal_spec in H. destruct H as [H1 H2]. subst ls root.
    set (root := tname (match get_str "title" schema with Some t => t | None => T "root" end)) in *.
    assert (Hroot : emit_ok root rl).
    { destruct (is_some (Model.get "properties" schema)).
      - apply (emit_object_class_ok fuel root schema rl (tname_good _) Er).
      - apply (emit_definition_ok fuel root schema rl (tname_good _) Er). }
    destruct Hroot as [Hg Hd]. split; [|split].
    - apply Forall_app. split; [apply header_good|].
      apply Forall_app. split; [apply (defs_good fuel _ al Ea)|].
      apply Forall_app. split; [apply (defs_good fuel _ cl Ec)|].
      apply Forall_app. split; [exact Hg|constructor; [apply blank_good|constructor]].
    - apply declares_app_r, declares_app_r, declares_app_r.
      destruct Hd as [Hd|Hd]; [left|right]; apply in_or_app; left; exact Hd.
    - apply tname_good.
  Qed.
End Lines.

(* ================================================================== totality of the walker *)
Lemma depth_pos : forall v, (1 <= depth v)%nat.
Proof. destruct v; cbn [depth]; lia. Qed.

Lemma depth_in_arr : forall l x, In x l -> (depth x < depth (JArr l))%nat.
Proof.
  intros l x H. cbn [depth]. induction l as [|y r IH]; [destruct H|].
  cbn [fold_right]. destruct H as [H|H]; [subst y; lia|]. specialize (IH H). lia.
Qed.

Lemma depth_bt_get : forall k m x, bt_get k m = Some x -> (depth x < depth (JObj m))%nat.
Proof.
  intros k m x H. cbn [depth]. induction m as [|[k' v] r IH]; [discriminate H|].
  cbn [bt_get] in H. cbn [fold_right snd]. destruct (text_eqb k k').
  - inversion H; subst. lia.
  - specialize (IH H). lia.
Qed.

Lemma depth_in_obj : forall m k x, In (k, x) m -> (depth x < depth (JObj m))%nat.
Proof.
  intros m k x H. cbn [depth]. induction m as [|[k' v] r IH]; [destruct H|].
  cbn [fold_right snd]. destruct H as [H|H]; [inversion H; subst; lia|]. specialize (IH H). lia.
Qed.

Lemma depth_get : forall k v x, Model.get k v = Some x -> (depth x < depth v)%nat.
Proof.
  intros k v x H. unfold Model.get, val_get in H. destruct v; try discriminate H.
  eapply depth_bt_get; exact H.
Qed.

Lemma depth_get_arr : forall k v l x, get_arr k v = Some l -> In x l -> (depth x < depth v)%nat.
Proof.
  intros k v l x H Hx. unfold get_arr in H. destruct (Model.get k v) as [y|] eqn:E; [|discriminate H].
  destruct y; try discriminate H. inversion H; subst.
  pose proof (depth_get _ _ _ E). pose proof (depth_in_arr _ _ Hx). lia.
Qed.

Lemma option_map_total : forall (A B : Type) (f : A -> B) o, o <> None -> option_map f o <> None.
Proof. intros A B f [x|] H; [discriminate|contradiction]. Qed.

Section Total.
  Variables is_alpha is_alnum : cp -> bool.
  Variable prefix : text.
  Variable wf : bool.
  Notation rtype := (resolve_type is_alpha is_alnum prefix).

  Lemma resolve_type_total : forall fuel schema, (depth schema <= fuel)%nat -> rtype fuel schema <> None.
  Proof.
    induction fuel as [|fuel IH]; intros schema Hd; [pose proof (depth_pos schema); lia|].
    cbn [resolve_type].
    destruct (get_str "$ref" schema); [discriminate|].
    destruct (get_arr "anyOf" schema) as [l|] eqn:Ea.
    { match goal with |- match ?x with _ => _ end <> None => destruct x eqn:E end; [discriminate|].
      exfalso. revert E. apply all_some_total. intros x Hx. apply IH.
      apply filter_In in Hx. destruct Hx as [Hx _]. pose proof (depth_get_arr _ _ _ _ Ea Hx). lia. }
    destruct (get_arr "oneOf" schema) as [l|] eqn:Eo.
    { match goal with |- match ?x with _ => _ end <> None => destruct x eqn:E end; [discriminate|].
      exfalso. revert E. apply all_some_total. intros x Hx. cbv beta.
      destruct (get_str "const" x); [discriminate|]. apply IH.
      apply filter_In in Hx. destruct Hx as [Hx _]. pose proof (depth_get_arr _ _ _ _ Eo Hx). lia. }
    assert (Henum : match get_arr "enum" schema with
                    | Some vs => Some (ty_union (map (fun s => atom (quote_lua_string s)) (Model.filter_map as_str vs)))
                    | None => match get_str "const" schema with
                              | Some c => Some (atom (quote_lua_string c))
                              | None => Some ty_any
                              end
                    end <> None).
    { destruct (get_arr "enum" schema); [discriminate|]. destruct (get_str "const" schema); discriminate. }
    destruct (Model.get "type" schema) as [[| | | s | arr | m]|]; try exact Henum.
    - destruct (text_eqb s (T "array")).
      { destruct (Model.get "items" schema) as [items|] eqn:Ei; [|discriminate].
        apply option_map_total. apply IH. pose proof (depth_get _ _ _ Ei). lia. }
      destruct (text_eqb s (T "object")); [|discriminate].
      destruct (Model.get "additionalProperties" schema) as [[| | | | |m]|] eqn:Em; try discriminate.
      apply option_map_total. apply IH. pose proof (depth_get _ _ _ Em). lia.
    - destruct (filter (fun t0 => negb (text_eqb t0 (T "null"))) (Model.filter_map as_str arr));
        destruct (existsb (fun t0 => str_is (as_str t0) "null") arr); discriminate.
  Qed.

  Lemma variants_total : forall fuel (items : list json),
    (forall x, In x items -> (depth x <= fuel)%nat) ->
    all_some (map (fun item => option_map (fun ty => write_alias_type_variant (wrapped ty) (get_str "description" item))
                                          (rtype fuel item)) items) <> None.
  Proof.
    intros fuel items H. apply all_some_total. intros x Hx. cbv beta. apply option_map_total.
    apply resolve_type_total. apply H. exact Hx.
  Qed.

  Lemma emit_object_class_total : forall fuel name schema,
    (depth schema <= fuel)%nat -> emit_object_class is_alpha is_alnum prefix wf fuel name schema <> None.
  Proof.
    intros fuel name schema Hd. unfold emit_object_class.
    match goal with |- match ?x with _ => _ end <> None => destruct x eqn:E end.
    - match goal with |- match ?x with _ => _ end <> None => destruct x eqn:Ea end; [discriminate|].
      exfalso. revert Ea. destruct (Model.get "additionalProperties" schema) as [[| | | | |m]|] eqn:Em; try discriminate.
      apply option_map_total. apply resolve_type_total. pose proof (depth_get _ _ _ Em). lia.
    - exfalso. revert E. apply all_some_total. intros [fname fschema] Hx. cbv beta iota.
      apply option_map_total. unfold resolve_field_type. apply option_map_total. apply resolve_type_total.
      destruct (Model.get "properties" schema) as [[| | | | |m]|] eqn:Ep; try (destruct Hx).
      pose proof (depth_get _ _ _ Ep). pose proof (depth_in_obj _ _ _ Hx). lia.
  Qed.

  Lemma emit_definition_total : forall fuel name schema,
    (depth schema <= fuel)%nat -> emit_definition is_alpha is_alnum prefix wf fuel name schema <> None.
  Proof.
    intros fuel name schema Hd. unfold emit_definition.
    destruct (get_arr "enum" schema); [discriminate|].
    destruct (get_arr "oneOf" schema) as [l|] eqn:Eo.
    { destruct (all_const_or_enum l); [discriminate|]. apply option_map_total. unfold emit_one_of_type_alias.
      match goal with |- match ?x with _ => _ end <> None => destruct x eqn:E end; [discriminate|].
      exfalso. revert E. apply variants_total. intros x Hx. pose proof (depth_get_arr _ _ _ _ Eo Hx). lia. }
    destruct (is_some (Model.get "anyOf" schema) && negb (is_some (Model.get "properties" schema))).
    { apply option_map_total. unfold emit_any_of_alias.
      match goal with |- match ?x with _ => _ end <> None => destruct x eqn:E end; [discriminate|].
      exfalso. revert E. apply variants_total. intros x Hx.
      destruct (get_arr "anyOf" schema) as [l|] eqn:Ea; [|destruct Hx].
      apply filter_In in Hx. destruct Hx as [Hx _]. pose proof (depth_get_arr _ _ _ _ Ea Hx). lia. }
    destruct (is_some (Model.get "properties" schema) || str_is (get_str "type" schema) "object").
    { apply emit_object_class_total. exact Hd. }
    apply option_map_total. apply resolve_type_total. exact Hd.
  Qed.

  (** the walker returns a result on every schema: fuel = the depth of the value is enough *)
  Lemma convert_total : forall schema,
    convert is_alpha is_alnum prefix wf (depth schema) schema <> None.
  Proof.
    intros schema. unfold convert.
    assert (Hdefs : forall ds, (forall n d, In (n, d) ds -> (depth d <= depth schema)%nat) ->
      all_some (map (fun '(n, d) => option_map (fun ls => ls ++ [[]])
                 (emit_definition is_alpha is_alnum prefix wf (depth schema) (type_name is_alpha is_alnum prefix n) d)) ds) <> None).
    { intros ds H. apply all_some_total. intros [n d] Hx. cbv beta iota. apply option_map_total.
      apply emit_definition_total. apply (H n d Hx). }
    assert (Hin : forall n d, In (n, d) (match Model.get "$defs" schema with Some (JObj m) => m | _ => [] end) ->
                              (depth d <= depth schema)%nat).
    { intros n d H. destruct (Model.get "$defs" schema) as [[| | | | |m]|] eqn:Ed; try (destruct H).
      pose proof (depth_get _ _ _ Ed). pose proof (depth_in_obj _ _ _ H). lia. }
    match goal with |- match ?a with _ => _ end <> None => destruct a eqn:Ea end.
    2:{ exfalso. revert Ea. apply Hdefs. intros n d H. apply filter_In in H. destruct H as [H _]. apply (Hin n d H). }
    match goal with |- match ?a with _ => _ end <> None => destruct a eqn:Ec end.
    2:{ exfalso. revert Ec. apply Hdefs. intros n d H. apply filter_In in H. destruct H as [H _]. apply (Hin n d H). }
    match goal with |- match ?a with _ => _ end <> None => destruct a eqn:Er end; [discriminate|].
    exfalso. revert Er. destruct (is_some (Model.get "properties" schema)).
    - apply emit_object_class_total. lia.
    - apply emit_definition_total. lia.
  Qed.
End Total.

(* ================================================================== a concrete case *)
Definition ex_schema : json :=
  JObj [(T "$defs", JObj [(T "A B", JObj [(T "enum", JArr [JNum 1])])]);
        (T "properties", JObj [([97; 34; 98], JObj [(T "type", JStr (T "string"))]);
                               (T "e", JObj [(T "enum", JArr [JStr [112; 34; 113]; JStr (T "r")])]);
                               (T "public", JObj [(T "type", JArr [JStr (T "integer"); JStr (T "null")])])]);
        (T "title", JStr (T "My Config"))].

Lemma convert_example :
  option_map (fun r => (render (fst r), snd r))
             (convert ascii_alpha ascii_alnum default_prefix false (depth ex_schema) ex_schema) =
  Some (T "--- This file was auto-generated from JSON Schema." ++ [NL] ++ T "--- Do not edit manually." ++ [NL] ++ [NL] ++
        T "---@alias schema.A_B" ++ [NL] ++ T "---| any" ++ [NL] ++ [NL] ++
        T "---@class schema.My_Config" ++ [NL] ++
        T "---@field [""a\x22b""] string?" ++ [NL] ++
        T "---@field e (""p\x22q"" | ""r"")?" ++ [NL] ++
        T "---@field [""public""] integer?" ++ [NL] ++ [NL],
        T "schema.My_Config").
Proof. vm_compute. reflexivity. Qed.
