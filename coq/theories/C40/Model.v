(** C40/Model.v — transcription of the JSON-schema -> EmmyLua annotation converter
    (crates/schema_to_emmylua/src/{lua_emitter.rs, converter.rs, schema_walker.rs, markdown_doc.rs}, after the
    repairs cc371ed, 1b79eec and 59e827c), of the pieces of the EmmyLua doc lexer that read what it emits
    (crates/emmylua_parser/src/lexer/lua_doc_lexer.rs: the string branch of [lex_normal], [read_doc_name]) and of the
    string decoder (syntax/node/token/string_analyzer.rs, [normal_string_value]).
    Executable definitions only.

    * a [String] is the list of its chars ([text]); the output is kept as the list of its lines (every emitter
      method writes whole lines terminated by '\n': [annotation_text] is [render lines]);
    * [char::is_alphabetic] / [char::is_alphanumeric] (Unicode tables) are parameters [is_alpha] / [is_alnum]: the same
      std functions are used by the emitter ([sanitize_type_name]) and by the lexer ([is_name_start],
      [is_name_continue]); the correspondence check instantiates them with what Rust reports for the characters of
      the case;
    * the recursion of [resolve_type] descends into sub-values of the schema only (a [$ref] is rendered as a name and
      never followed, so reference cycles cannot make it loop); it is structural on the value in Rust and uses [fuel]
      here, with [None] as the explicit out-of-fuel result ([convert_total]: the depth of the value is enough). *)
From EV Require Export Base.Json.
From Coq Require Import String Ascii.
Local Open Scope N_scope.

(** an ASCII string literal as a text *)
Definition T (s : string) : text := List.map N_of_ascii (list_ascii_of_string s).

Definition NL : cp := 10.
Definition CR : cp := 13.
Definition TAB : cp := 9.
Definition SP : cp := 32.
Definition DQ : cp := 34.
Definition BSL : cp := 92.
Definition DOT : cp := 46.
Definition USC : cp := 95.
Definition AT : cp := 64.

Definition ascii_alpha (c : cp) : bool := ((65 <=? c) && (c <=? 90)) || ((97 <=? c) && (c <=? 122)).
Definition ascii_digit (c : cp) : bool := (48 <=? c) && (c <=? 57).
Definition ascii_alnum (c : cp) : bool := ascii_alpha c || ascii_digit c.

Fixpoint text_mem (x : text) (l : list text) : bool :=
  match l with [] => false | y :: r => text_eqb x y || text_mem x r end.

Fixpoint join (sep : text) (l : list text) : text :=
  match l with
  | [] => []
  | [x] => x
  | x :: r => x ++ sep ++ join sep r
  end.

(* ================================================================== lua_emitter.rs : free functions *)

(** [{:02X}] *)
Definition hex_digit (n : N) : cp := if n <? 10 then 48 + n else 55 + n.

(** one char of [quote_lua_string] *)
Definition esc_char (c : cp) : text :=
  if c =? BSL then [BSL; BSL]
  else if c =? DQ then [BSL; 120; 50; 50]                       (* \x22 *)
  else if c =? NL then [BSL; 110]                               (* \n *)
  else if c =? CR then [BSL; 114]                               (* \r *)
  else if c =? TAB then [BSL; 116]                              (* \t *)
  else if (c <? 32) || (c =? 127) then [BSL; 120; hex_digit (c / 16); hex_digit (c mod 16)]
  else [c].

Definition esc_body (s : text) : text := flat_map esc_char s.

(** [quote_lua_string] *)
Definition quote_lua_string (s : text) : text := DQ :: esc_body s ++ [DQ].

(** what the emitter did before the repair: [format!("\"{}\"", value)] *)
Definition old_quote (s : text) : text := DQ :: s ++ [DQ].

(** [char::is_control] : general category Cc *)
Definition is_control (c : cp) : bool := (c <? 32) || ((127 <=? c) && (c <=? 159)).

(** [str::lines]: split after every '\n'; a line that ended in "\r\n" loses the '\r' too; no empty last line *)
Definition strip_cr (l : text) : text :=
  match rev l with c :: r => if c =? CR then rev r else l | [] => l end.

Fixpoint lines_aux (s cur : text) : list text :=
  match s with
  | [] => match cur with [] => [] | _ :: _ => [cur] end
  | c :: r => if c =? NL then strip_cr cur :: lines_aux r [] else lines_aux r (cur ++ [c])
  end.
Definition str_lines (s : text) : list text := lines_aux s [].

(** [str::split(d)] : always at least one piece *)
Fixpoint split_aux (d : cp) (s cur : text) : list text :=
  match s with
  | [] => [cur]
  | c :: r => if c =? d then cur :: split_aux d r [] else split_aux d r (cur ++ [c])
  end.
Definition str_split (d : cp) (s : text) : list text := split_aux d s [].

Definition clean_piece (p : text) : text :=
  List.map (fun c => if is_control c && negb (c =? TAB) then SP else c) p.

Definition is_blank (c : cp) : bool := (c =? SP) || (c =? TAB).
Definition blank_line (s : text) : bool := forallb is_blank s.

(** [str::strip_prefix] *)
Fixpoint strip_prefix (p s : text) : option text :=
  match p, s with
  | [], _ => Some s
  | x :: p', y :: s' => if x =? y then strip_prefix p' s' else None
  | _ :: _, [] => None
  end.

(** the characters  < [ : & | + - ? .  and the two quote characters *)
Definition continuation_chars : list cp := [60; 91; 58; 38; 124; 43; 45; 63; 46; 34; 39].

Definition keyword_start (kw rest : text) : bool :=
  match strip_prefix kw rest with
  | Some after => negb (match after with c :: _ => ascii_alnum c || (c =? USC) | [] => false end)
  | None => false
  end.

(** [continues_tag] *)
Definition continues_tag (rest : text) : bool :=
  match rest with c :: _ => existsb (N.eqb c) continuation_chars | [] => false end
  || keyword_start (T "in") rest || keyword_start (T "extends") rest.

(** the escape of one cleaned line in [doc_comment_lines]: [rest] is the line without its leading blanks;
    [if rest.starts_with('@') || (guard && continues_tag(rest)) { cleaned.insert(start, '\\') }] *)
Fixpoint escape_start (guard : bool) (s : text) : text :=
  match s with
  | [] => []
  | c :: r => if is_blank c then c :: escape_start guard r
              else if (c =? AT) || (guard && continues_tag s) then BSL :: s else s
  end.

(** the loop of [doc_comment_lines] over the cleaned pieces: [guard] stays on over blank lines *)
Fixpoint guard_lines (guard : bool) (ps : list text) : list text :=
  match ps with
  | [] => []
  | p :: r => escape_start guard p :: guard_lines (guard && blank_line p) r
  end.

(** [doc_comment_lines] *)
Definition doc_comment_lines (after_tag : bool) (t : text) : list text :=
  guard_lines after_tag (List.map clean_piece (flat_map (str_split CR) (str_lines t))).

(** [single_line] *)
Definition single_line (t : text) : text := join [SP] (doc_comment_lines false t).

Definition modifiers : list text := [T "private"; T "protected"; T "public"; T "package"; T "readonly"].

(** [needs_bracket_notation] *)
Definition needs_bracket_notation (name : text) : bool :=
  match name with
  | [] => true
  | first :: _ =>
      if text_mem name modifiers then true
      else if negb (ascii_alpha first) && negb (first =? USC) then true
      else negb (forallb (fun c => ascii_alnum c || (c =? USC)) name)
  end.

(** [char::is_whitespace] (White_Space) and [str::trim] (markdown_doc.rs [sanitize_description]) *)
Definition is_ws (c : cp) : bool :=
  ((9 <=? c) && (c <=? 13)) || (c =? 32) || (c =? 133) || (c =? 160) || (c =? 5760) ||
  ((8192 <=? c) && (c <=? 8202)) || (c =? 8232) || (c =? 8233) || (c =? 8239) || (c =? 8287) || (c =? 12288).

Fixpoint trim_start (s : text) : text :=
  match s with c :: r => if is_ws c then trim_start r else s | [] => [] end.
Definition trim (s : text) : text := rev (trim_start (rev (trim_start s))).
Definition sanitize_description (s : text) : text := trim s.

Section Classes.
  (** [char::is_alphabetic], [char::is_alphanumeric] *)
  Variables is_alpha is_alnum : cp -> bool.

  (** [sanitize_type_name]: the loop ([first] = [out.is_empty()], [after] = [after_name_char]) *)
  Fixpoint sanitize_go (s : text) (first after : bool) : text :=
    match s with
    | [] => []
    | c :: r =>
        if is_alnum c || (c =? USC) then
          (if first && negb (is_alpha c || (c =? USC)) then [USC] else []) ++ c :: sanitize_go r false true
        else if (c =? DOT) && after then DOT :: sanitize_go r false false
        else USC :: sanitize_go r false true
    end.

  Definition ends_with_dot (s : text) : bool :=
    match rev s with c :: _ => c =? DOT | [] => false end.

  Definition sanitize_type_name (s : text) : text :=
    let out := sanitize_go s true false in
    match out with
    | [] => [USC]
    | _ :: _ => if ends_with_dot out then out ++ [USC] else out
    end.

  (* ================================================================ the doc lexer, as far as it reads the output *)
  (** lexer/mod.rs *)
  Definition is_name_start (c : cp) : bool := is_alpha c || (c =? USC).
  Definition is_name_continue (c : cp) : bool := is_alnum c || (c =? USC).

  Definition is_sep (c : cp) : bool := (c =? DOT) || (c =? 45) || (c =? 42).     (* . - * *)

  (** [read_doc_name] after its first [bump]: the consumed rest of the name and what follows
      ([next_char] is '\0' at the end of the input) *)
  Fixpoint read_name_rest (s : text) : text * text :=
    match s with
    | [] => ([], [])
    | c :: r =>
        if is_name_continue c then let '(n, f) := read_name_rest r in (c :: n, f)
        else if is_sep c then
          (if is_sep (match r with x :: _ => x | [] => 0 end) then ([], s)
           else let '(n, f) := read_name_rest r in (c :: n, f))
        else if c =? 96 then let '(n, f) := read_name_rest r in (c :: n, f)       (* '`' : string template *)
        else ([], s)
    end.

  (** the name branch of [lex_normal] / [lex_field_start]: [Some (token text, rest)] *)
  Definition lex_name (s : text) : option (text * text) :=
    match s with
    | c :: r => if is_name_start c then let '(n, f) := read_name_rest r in Some (c :: n, f) else None
    | [] => None
    end.
End Classes.

(** the string branch of [lex_normal]: ['"'], [eat_while(|c| c != '"')], then the closing quote if it is there.
    [Some (token text, rest, closed)] *)
Fixpoint eat_until_quote (s : text) : text * text :=
  match s with
  | [] => ([], [])
  | c :: r => if c =? DQ then ([], s) else let '(b, f) := eat_until_quote r in (c :: b, f)
  end.

Definition lex_string (s : text) : option (text * text * bool) :=
  match s with
  | c :: r =>
      if c =? DQ then
        let '(b, f) := eat_until_quote r in
        match f with
        | q :: f' => if q =? DQ then Some (DQ :: b ++ [DQ], f', true) else Some (DQ :: b, f, false)
        | [] => Some (DQ :: b, [], false)
        end
      else None
  | [] => None
  end.

(** [normal_string_value] on the inside of a string token (between the quotes), for the escapes the emitter
    writes: [\\], [\xHH], [\n], [\r], [\t]; [None] is the error result / an escape outside this set *)
Definition hex_val (c : cp) : option N :=
  if ascii_digit c then Some (c - 48)
  else if (65 <=? c) && (c <=? 70) then Some (c - 55)
  else if (97 <=? c) && (c <=? 102) then Some (c - 87)
  else None.

Fixpoint unescape (fuel : nat) (s : text) : option text :=
  match fuel with
  | O => None
  | S fuel' =>
      match s with
      | [] => Some []
      | c :: r =>
          if c =? BSL then
            match r with
            | e :: r1 =>
                if e =? BSL then option_map (cons BSL) (unescape fuel' r1)
                else if e =? 110 then option_map (cons NL) (unescape fuel' r1)
                else if e =? 114 then option_map (cons CR) (unescape fuel' r1)
                else if e =? 116 then option_map (cons TAB) (unescape fuel' r1)
                else if e =? 120 then
                  match r1 with
                  | h :: l :: r2 =>
                      match hex_val h, hex_val l with
                      | Some a, Some b => option_map (cons (16 * a + b)) (unescape fuel' r2)
                      | _, _ => None
                      end
                  | _ => None
                  end
                else None
            | [] => Some []
            end
          else option_map (cons c) (unescape fuel' r)
      end
  end.

(* ================================================================== lua_emitter.rs : EmmyLuaEmitter *)
(** the output as a list of lines; [finish] *)
Definition render (ls : list text) : text := flat_map (fun l => l ++ [NL]) ls.

Definition file_flag (write_file : bool) : text := if write_file then T "(file)" else [].

(** [write_doc_comment] *)
Definition write_doc_comment (t : text) : list text :=
  List.map (fun l => T "--- " ++ l) (doc_comment_lines false t).

(** [write_field_comment]: the description block of a field directly follows a tag line *)
Definition write_field_comment (t : text) : list text :=
  List.map (fun l => T "--- " ++ l) (doc_comment_lines true t).

Definition opt_doc (d : option text) : list text :=
  match d with Some t => write_field_comment t | None => [] end.

(** [write_class] *)
Definition write_class (wf : bool) (name : text) : list text := [T "---@class" ++ file_flag wf ++ [SP] ++ name].
(** [write_alias_header] *)
Definition write_alias_header (wf : bool) (name : text) : list text := [T "---@alias" ++ file_flag wf ++ [SP] ++ name].

Definition field_key (name : text) : text :=
  if needs_bracket_notation name then T "[" ++ quote_lua_string name ++ T "]" else name.

(** [write_field] *)
Definition write_field (name ty : text) (desc : option text) : list text :=
  opt_doc desc ++ [T "---@field " ++ field_key name ++ [SP] ++ ty].

(** the same before the repair *)
Definition old_field_line (name ty : text) : text :=
  T "---@field " ++ (if needs_bracket_notation name then T "[" ++ old_quote name ++ T "]" else name) ++ [SP] ++ ty.

(** [write_index_field] *)
Definition write_index_field (key_ty value_ty : text) (desc : option text) : list text :=
  opt_doc desc ++ [T "---@field [" ++ key_ty ++ T "] " ++ value_ty].

(** [write_alias_type_variant] *)
Definition write_alias_type_variant (ty : text) (desc : option text) : list text :=
  let d := match desc with Some t => single_line t | None => [] end in
  match d with
  | [] => [T "---| " ++ ty]
  | _ :: _ => [T "---| " ++ ty ++ T " # " ++ d]
  end.

(** [write_alias_variant] *)
Definition write_alias_variant (value : text) (desc : option text) : list text :=
  write_alias_type_variant (quote_lua_string value) desc.

(* ================================================================== converter.rs *)
Record lua_type := { ty_text : text; ty_atomic : bool; ty_nullable : bool }.

Definition atom (t : text) : lua_type := {| ty_text := t; ty_atomic := true; ty_nullable := false |}.
Definition ty_any : lua_type := atom (T "any").
Definition wrapped (t : lua_type) : text := if ty_atomic t then ty_text t else T "(" ++ ty_text t ++ T ")".

Definition ty_union (ms : list lua_type) : lua_type :=
  match ms with
  | [] => ty_any
  | [m] => m
  | _ => {| ty_text := join (T " | ") (List.map wrapped ms); ty_atomic := false; ty_nullable := false |}
  end.

Definition ty_optional (t : lua_type) : lua_type :=
  if ty_nullable t then t
  else {| ty_text := wrapped t ++ T "?"; ty_atomic := false; ty_nullable := true |}.

Definition ty_array (t : lua_type) : lua_type := atom (wrapped t ++ T "[]").

(** [Value::get(&str)], [as_str], [as_array], [is_object] *)
Definition get (k : string) (v : json) : option json := val_get v (T k).
Definition as_str (v : json) : option text := match v with JStr s => Some s | _ => None end.
Definition as_arr (v : json) : option (list json) := match v with JArr l => Some l | _ => None end.
Definition get_str (k : string) (v : json) : option text := match get k v with Some x => as_str x | None => None end.
Definition get_arr (k : string) (v : json) : option (list json) := match get k v with Some x => as_arr x | None => None end.
Definition is_some {A} (o : option A) : bool := match o with Some _ => true | None => false end.

Definition str_is (o : option text) (s : string) : bool :=
  match o with Some t => text_eqb t (T s) | None => false end.

(** [json_type_to_lua] *)
Definition json_type_to_lua (t : text) : text :=
  if text_eqb t (T "string") then T "string"
  else if text_eqb t (T "integer") then T "integer"
  else if text_eqb t (T "number") then T "number"
  else if text_eqb t (T "boolean") then T "boolean"
  else if text_eqb t (T "null") then T "nil"
  else if text_eqb t (T "object") then T "table"
  else if text_eqb t (T "array") then T "any[]"
  else T "any".

(** [SchemaWalker::ref_type_name]: [ref_str.rsplit('/').next()] — the part after the last '/' *)
Fixpoint after_last_slash (s acc : text) : text :=
  match s with
  | [] => acc
  | c :: r => if c =? 47 then after_last_slash r [] else after_last_slash r (acc ++ [c])
  end.
Definition ref_type_name (s : text) : text := after_last_slash s [].

Definition is_null_item (item : json) : bool := str_is (get_str "type" item) "null".

(** [is_nullable] *)
Definition is_nullable (schema : json) : bool :=
  match get_arr "type" schema with
  | Some arr => existsb (fun t => str_is (as_str t) "null") arr
  | None =>
      match get_arr "anyOf" schema with
      | Some l => existsb is_null_item l
      | None =>
          match get_arr "oneOf" schema with
          | Some l => existsb is_null_item l
          | None => false
          end
      end
  end.

Definition all_const_or_enum (l : list json) : bool :=
  forallb (fun item => is_some (get "const" item) || is_some (get "enum" item)) l.

(** [is_enum_or_alias] *)
Definition is_enum_or_alias (schema : json) : bool :=
  if is_some (get_arr "enum" schema) then true
  else if match get_arr "oneOf" schema with Some l => all_const_or_enum l | None => false end then true
  else is_some (get "anyOf" schema) && negb (is_some (get "properties" schema)).

Fixpoint filter_map {A B} (f : A -> option B) (l : list A) : list B :=
  match l with
  | [] => []
  | x :: r => match f x with Some y => y :: filter_map f r | None => filter_map f r end
  end.

(** [Option<Vec<_>>] of a list of options *)
Fixpoint all_some {A} (l : list (option A)) : option (list A) :=
  match l with
  | [] => Some []
  | Some x :: r => option_map (cons x) (all_some r)
  | None :: _ => None
  end.

Section Converter.
  Variables is_alpha is_alnum : cp -> bool.
  (** [SchemaConverter]: [type_prefix], [is_private] *)
  Variable prefix : text.
  Variable wf : bool.

  (** [type_name] *)
  Definition type_name (name : text) : text := sanitize_type_name is_alpha is_alnum (prefix ++ name).

  (** [resolve_type]; [None] = out of fuel *)
  Fixpoint resolve_type (fuel : nat) (schema : json) : option lua_type :=
    match fuel with
    | O => None
    | S fuel' =>
        match get_str "$ref" schema with
        | Some r => Some (atom (type_name (ref_type_name r)))
        | None =>
        match get_arr "anyOf" schema with
        | Some l =>
            match all_some (List.map (resolve_type fuel') (filter (fun i => negb (is_null_item i)) l)) with
            | Some ts => let u := ty_union ts in Some (if existsb is_null_item l then ty_optional u else u)
            | None => None
            end
        | None =>
        match get_arr "oneOf" schema with
        | Some l =>
            match all_some (List.map (fun item =>
                                        match get_str "const" item with
                                        | Some c => Some (atom (quote_lua_string c))
                                        | None => resolve_type fuel' item
                                        end) (filter (fun i => negb (is_null_item i)) l)) with
            | Some ts => Some (ty_union ts)
            | None => None
            end
        | None =>
        let by_enum :=
          match get_arr "enum" schema with
          | Some vs => Some (ty_union (List.map (fun s => atom (quote_lua_string s)) (filter_map as_str vs)))
          | None =>
              match get_str "const" schema with
              | Some c => Some (atom (quote_lua_string c))
              | None => Some ty_any
              end
          end in
        match get "type" schema with
        | Some (JArr arr) =>
            let names := filter (fun t => negb (text_eqb t (T "null"))) (filter_map as_str arr) in
            let has_null := existsb (fun t => str_is (as_str t) "null") arr in
            match names, has_null with
            | [], true => Some (atom (T "nil"))
            | _, _ =>
                let u := ty_union (List.map (fun t => atom (json_type_to_lua t)) names) in
                Some (if has_null then ty_optional u else u)
            end
        | Some (JStr t) =>
            if text_eqb t (T "array") then
              match get "items" schema with
              | Some items => option_map ty_array (resolve_type fuel' items)
              | None => Some (ty_array ty_any)
              end
            else if text_eqb t (T "object") then
              match get "additionalProperties" schema with
              | Some (JObj m) =>
                  option_map (fun v => atom (T "table<string, " ++ ty_text v ++ T ">")) (resolve_type fuel' (JObj m))
              | _ => Some (atom (T "table"))
              end
            else Some (atom (json_type_to_lua t))
        | _ => by_enum
        end end end end
    end.

  (** [resolve_field_type] *)
  Definition resolve_field_type (fuel : nat) (schema : json) (optional : bool) : option lua_type :=
    option_map (fun t => if is_nullable schema || optional then ty_optional t else t) (resolve_type fuel schema).

  Definition desc_lines (schema : json) : list text :=
    match get_str "description" schema with
    | Some d => write_doc_comment (sanitize_description d)
    | None => []
    end.

  Definition any_variant : list text := write_alias_type_variant (T "any") None.

  (** [emit_enum_alias] *)
  Definition emit_enum_alias (name : text) (values : list json) : list text :=
    let vs := flat_map (fun s => write_alias_variant s None) (filter_map as_str values) in
    write_alias_header wf name ++ match vs with [] => any_variant | _ :: _ => vs end.

  (** [emit_one_of_alias] *)
  Definition one_of_const (item : json) : option text :=
    match get_str "const" item with
    | Some c => Some c
    | None => match get_arr "enum" item with
              | Some (v :: _) => as_str v
              | _ => None
              end
    end.

  Definition emit_one_of_alias (name : text) (one_of : list json) : list text :=
    let vs := flat_map (fun item => match one_of_const item with
                                    | Some v => write_alias_variant v (get_str "description" item)
                                    | None => []
                                    end) one_of in
    write_alias_header wf name ++ match vs with [] => any_variant | _ :: _ => vs end.

  (** [emit_one_of_type_alias] *)
  Definition emit_one_of_type_alias (fuel : nat) (name : text) (one_of : list json) : option (list text) :=
    match all_some (List.map (fun item => option_map (fun ty => write_alias_type_variant (wrapped ty) (get_str "description" item))
                                                   (resolve_type fuel item)) one_of) with
    | Some vss => Some (write_alias_header wf name ++ List.concat vss ++ match one_of with [] => any_variant | _ :: _ => [] end)
    | None => None
    end.

  (** [emit_any_of_alias] *)
  Definition emit_any_of_alias (fuel : nat) (name : text) (schema : json) : option (list text) :=
    let items := match get_arr "anyOf" schema with
                 | Some l => filter (fun i => negb (is_null_item i)) l
                 | None => []
                 end in
    match all_some (List.map (fun item => option_map (fun ty => write_alias_type_variant (wrapped ty) (get_str "description" item))
                                                   (resolve_type fuel item)) items) with
    | Some vss => Some (write_alias_header wf name ++ match items with [] => any_variant | _ :: _ => List.concat vss end)
    | None => None
    end.

  (** [emit_object_class] ([emit_local_placeholders] is false in [SchemaConverter::new]) *)
  Definition emit_object_class (fuel : nat) (name : text) (schema : json) : option (list text) :=
    let required := match get_arr "required" schema with Some arr => filter_map as_str arr | None => [] end in
    let props := match get "properties" schema with Some (JObj m) => m | _ => [] end in
    match all_some (List.map (fun '(fname, fschema) =>
                                option_map (fun ty => write_field fname (ty_text ty) (get_str "description" fschema))
                                           (resolve_field_type fuel fschema (negb (text_mem fname required)))) props) with
    | None => None
    | Some fss =>
        match (match get "additionalProperties" schema with
               | Some (JObj m) =>
                   option_map (fun v => write_index_field (T "string") (ty_text v) (Some (T "Additional properties")))
                              (resolve_type fuel (JObj m))
               | _ => Some []
               end) with
        | None => None
        | Some add => Some (desc_lines schema ++ write_class wf name ++ List.concat fss ++ add)
        end
    end.

  (** [emit_definition] *)
  Definition emit_definition (fuel : nat) (name : text) (schema : json) : option (list text) :=
    match get_arr "enum" schema with
    | Some vs => Some (desc_lines schema ++ emit_enum_alias name vs)
    | None =>
        match get_arr "oneOf" schema with
        | Some l =>
            if all_const_or_enum l then Some (desc_lines schema ++ emit_one_of_alias name l)
            else option_map (app (desc_lines schema)) (emit_one_of_type_alias fuel name l)
        | None =>
            if is_some (get "anyOf" schema) && negb (is_some (get "properties" schema)) then
              option_map (app (desc_lines schema)) (emit_any_of_alias fuel name schema)
            else if is_some (get "properties" schema) || str_is (get_str "type" schema) "object" then
              emit_object_class fuel name schema
            else
              option_map (fun ty => desc_lines schema ++ write_alias_header wf name ++ write_alias_type_variant (wrapped ty) None)
                         (resolve_type fuel schema)
        end
    end.

  Definition header : list text :=
    [T "--- This file was auto-generated from JSON Schema."; T "--- Do not edit manually."; []].

  (** [SchemaConverter::convert] : the lines of [annotation_text] and [root_type_name] *)
  Definition convert (fuel : nat) (schema : json) : option (list text * text) :=
    let defs := match get "$defs" schema with Some (JObj m) => m | _ => [] end in
    let alias_defs := filter (fun '(_, d) => is_enum_or_alias d) defs in
    let class_defs := filter (fun '(_, d) => negb (is_enum_or_alias d)) defs in
    let emit_defs := fun ds => all_some (List.map (fun '(n, d) => option_map (fun ls => ls ++ [[]]) (emit_definition fuel (type_name n) d)) ds) in
    let root_name := type_name (match get_str "title" schema with Some t => t | None => T "root" end) in
    match emit_defs alias_defs, emit_defs class_defs with
    | Some a, Some c =>
        match (if is_some (get "properties" schema) then emit_object_class fuel root_name schema
               else emit_definition fuel root_name schema) with
        | Some r => Some (header ++ List.concat a ++ List.concat c ++ r ++ [[]], root_name)
        | None => None
        end
    | _, _ => None
    end.
End Converter.

(** [SchemaConverter::new]: [type_prefix] *)
Definition default_prefix : text := T "schema.".

(** nesting depth of a value: enough fuel for [convert] *)
Fixpoint depth (v : json) : nat :=
  match v with
  | JArr l => S (fold_right (fun x acc => Nat.max (depth x) acc) O l)
  | JObj m => S (fold_right (fun kv acc => Nat.max (depth (snd kv)) acc) O m)
  | _ => 1%nat
  end.
