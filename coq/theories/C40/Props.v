(** C40/Props.v — property theorems only.
    [is_alpha] / [is_alnum] stand for [char::is_alphabetic] / [char::is_alphanumeric]; the two facts assumed about
    them (alphabetic => alphanumeric; below 128 alphanumeric = ASCII letter or digit) hold of the std functions. *)
From EV Require Import C40.Model C40.Spec C40.Proofs.
From Coq Require Import String.
From Coq Require Import List.
Import ListNotations.
Local Open Scope N_scope.

(** The doc lexer reads every emitted string literal — ALL values, whatever follows — as exactly one closed
    string token. *)
Theorem string_literal_one_token : forall (s f : text),
  lex_string (quote_lua_string s ++ f) = Some (quote_lua_string s, f, true).
Proof. exact Proofs.quote_one_token. Qed.

(** ... it contains no raw line break or NUL, and no raw quote between its delimiters, *)
Theorem string_literal_clean : forall (s : text),
  clean_text (quote_lua_string s) /\ (forall c, In c (esc_body s) -> c <> DQ).
Proof.
  intros s. split; [intros c H; apply (Proofs.quote_clean s c H)|].
  intros c H. apply (Proofs.esc_body_clean s c H).
Qed.

(** ... and the string decoder gives back exactly the value: names and enum members survive. *)
Theorem string_literal_roundtrip : forall (s : text),
  unescape (S (length (esc_body s))) (esc_body s) = Some s.
Proof. intros s. apply Proofs.unescape_esc_body. apply Nat.lt_succ_diag_r. Qed.

(** The rendering used before the repair (the raw value between two quote characters): the value a, quote, b
    is cut at the inner quote. *)
Theorem old_quote_refuted : exists (s f : text),
  lex_string (old_quote s ++ f) <> Some (old_quote s, f, true) /\
  lex_string (old_quote s ++ f) = Some ([DQ; 97; DQ], [98; DQ] ++ f, true).
Proof. exact Proofs.old_quote_refuted. Qed.

Section WithClasses.
  Variables is_alpha is_alnum : cp -> bool.
  Hypothesis Hsub : forall c, is_alpha c = true -> is_alnum c = true.
  Hypothesis Hascii : forall c, c < 128 -> is_alnum c = ascii_alnum c.

  (** Every sanitised type name — ALL inputs — is read by the doc lexer as exactly one name token. *)
  Theorem type_name_one_token : forall (s f : text),
    follow_ok is_alnum f = true ->
    lex_name is_alpha is_alnum (sanitize_type_name is_alpha is_alnum s ++ f) = Some (sanitize_type_name is_alpha is_alnum s, f).
  Proof. exact (Proofs.type_name_one_token is_alpha is_alnum Hsub Hascii). Qed.

  (** Every line of a rendered description: no line break / NUL, and it cannot start a doc tag. *)
  Theorem doc_lines_ok : forall (after_tag : bool) (t l : text),
    In l (doc_comment_lines after_tag t) -> clean_text l /\ no_tag_start l = true.
  Proof. exact Proofs.doc_comment_lines_ok. Qed.

  (** The description block of a field (it directly follows a tag line): its first non-blank line never starts
      with something the doc parser reads as a continuation of that tag. *)
  Theorem field_description_guarded : forall (t : text), no_continuation (doc_comment_lines true t) = true.
  Proof. exact Proofs.field_description_guarded. Qed.

  (** [---@field] lines are well formed for ALL names, all (grammatical) types and all descriptions. *)
  Theorem field_line_ok : forall (name ty : text) (desc : option text),
    ty_expr is_alpha is_alnum ty -> clean_text ty ->
    Forall (good_line is_alpha is_alnum) (write_field name ty desc).
  Proof. exact (Proofs.field_good is_alpha is_alnum). Qed.

  (** [---@class] lines, for all names that went through [sanitize_type_name] (as all names do) *)
  Theorem class_line_ok : forall (wf : bool) (prefix name : text),
    Forall (good_line is_alpha is_alnum) (write_class wf (type_name is_alpha is_alnum prefix name)).
  Proof.
    intros wf prefix name. apply Proofs.class_good. apply (Proofs.tname_good is_alpha is_alnum Hsub Hascii).
  Qed.

  (** [---@alias] header and [---|] member lines, for all names, values and descriptions *)
  Theorem alias_lines_ok : forall (wf : bool) (prefix name value : text) (desc : option text),
    Forall (good_line is_alpha is_alnum)
           (write_alias_header wf (type_name is_alpha is_alnum prefix name) ++ write_alias_variant value desc).
  Proof.
    intros wf prefix name value desc. apply Forall_app. split.
    - apply Proofs.alias_header_good. apply (Proofs.tname_good is_alpha is_alnum Hsub Hascii).
    - apply Proofs.alias_variant_good.
  Qed.

  (** Every type text the walker renders, for ALL schemas, is in the grammar of Spec.v (postfix [?] / [[]]
      and the union bar apply to atoms only), on one line. *)
  Theorem resolve_type_wf : forall (prefix : text) (fuel : nat) (schema : json) (t : lua_type),
    resolve_type is_alpha is_alnum prefix fuel schema = Some t ->
    ty_expr is_alpha is_alnum (ty_text t) /\
    (ty_atomic t = true -> ty_atom is_alpha is_alnum (ty_text t)) /\ clean_text (ty_text t).
  Proof. exact (Proofs.resolve_type_good is_alpha is_alnum Hsub Hascii). Qed.

  (** For ALL schemas: every line of the output has a well-formed shape on one physical line, the reported
      root type is declared by a [---@class] / [---@alias] line, and it is a single name token. *)
  Theorem convert_lines_ok : forall (prefix : text) (wf : bool) (fuel : nat) (schema : json) (ls : list text) (root : text),
    convert is_alpha is_alnum prefix wf fuel schema = Some (ls, root) ->
    Forall (good_line is_alpha is_alnum) ls.
  Proof. intros prefix wf fuel schema ls root H. apply (Proofs.convert_ok is_alpha is_alnum Hsub Hascii prefix wf fuel schema ls root H). Qed.

  Theorem convert_declares_root : forall (prefix : text) (wf : bool) (fuel : nat) (schema : json) (ls : list text) (root : text),
    convert is_alpha is_alnum prefix wf fuel schema = Some (ls, root) ->
    declares wf root ls /\ name_tok is_alpha is_alnum root.
  Proof.
    intros prefix wf fuel schema ls root H.
    destruct (Proofs.convert_ok is_alpha is_alnum Hsub Hascii prefix wf fuel schema ls root H) as [_ [Hd [Hn _]]].
    split; assumption.
  Qed.
End WithClasses.

(** [?] applies to the whole union: an optional union of two or more members is rendered with the union in
    parentheses (before the repair: [a | b?]). *)
Theorem optional_binds_whole_union : forall (ms : list lua_type),
  (2 <= length ms)%nat ->
  ty_text (ty_optional (ty_union ms)) = (T "(" ++ join (T " | ") (map wrapped ms) ++ T ")") ++ T "?".
Proof. exact Proofs.optional_binds_whole_union. Qed.

(** The walker returns on EVERY schema (a [$ref] is rendered as a name and never followed, so reference
    cycles are harmless): the nesting depth of the value is enough fuel. *)
Theorem convert_total : forall (is_alpha is_alnum : cp -> bool) (prefix : text) (wf : bool) (schema : json),
  convert is_alpha is_alnum prefix wf (depth schema) schema <> None.
Proof. exact Proofs.convert_total. Qed.

(** non-vacuity: a schema with a quote in a property name and in an enum member, a modifier-like property
    name, an odd definition name with an empty enum, an odd title *)
Example convert_example :
  option_map (fun r => (render (fst r), snd r))
             (convert ascii_alpha ascii_alnum default_prefix false (depth ex_schema) ex_schema) =
  Some (T "--- This file was auto-generated from JSON Schema." ++ [NL] ++ T "--- Do not edit manually." ++ [NL] ++ [NL] ++
        T "---@alias schema.A_B" ++ [NL] ++ T "---| any" ++ [NL] ++ [NL] ++
        T "---@class schema.My_Config" ++ [NL] ++
        T "---@field [""a\x22b""] string?" ++ [NL] ++
        T "---@field e (""p\x22q"" | ""r"")?" ++ [NL] ++
        T "---@field [""public""] integer?" ++ [NL] ++ [NL],
        T "schema.My_Config").
Proof. exact Proofs.convert_example. Qed.
