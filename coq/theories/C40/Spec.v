(** C40/Spec.v — what "a well-formed annotation line" means: the specification side of C40.
    Definitions only.  The shapes are read off the doc parser (crates/emmylua_parser/src/grammar/doc/tag.rs:
    [parse_tag_class], [parse_tag_alias], [parse_tag_field]; types.rs: [parse_type], [parse_sub_type],
    [parse_suffixed_type], [parse_one_line_type]) and the doc lexer:

    * a line never contains a line break (it would end the comment) nor NUL;
    * a description line does not start, after blanks, with '@' (it would be read as a tag);
    * names are exactly one name token of the lexer ([name_tok], stated with the lexer model of Model.v);
    * string literals are those of [quote_lua_string] (one closed string token, see the theorems);
    * in a type, the postfix operators [?] and [[]] and the union bar only apply to ATOMS: a union or an
      optional type is parenthesised before it gets a postfix or becomes a union member — so [?] always
      applies to the whole union. *)
From EV Require Import C40.Model.
From Coq Require Import String.
From Coq Require Import List.
Import ListNotations.
Local Open Scope N_scope.

Definition clean_text (l : text) : Prop := forall c, In c l -> c <> NL /\ c <> CR /\ c <> 0.

(** after blanks, the next character is not '@' *)
Fixpoint no_tag_start (l : text) : bool :=
  match l with
  | [] => true
  | c :: r => if (c =? SP) || (c =? TAB) then no_tag_start r else negb (c =? AT)
  end.

Fixpoint skip_blanks (l : text) : text :=
  match l with c :: r => if is_blank c then skip_blanks r else l | [] => [] end.

(** a description block that directly follows a tag line: its first non-blank line does not start with
    something the doc parser would take as a continuation of that tag ([continues_tag] of Model.v is the list:
    generic parameters, array / index suffix, parent list, binary and postfix type operators, a string literal) *)
Fixpoint no_continuation (ls : list text) : bool :=
  match ls with
  | [] => true
  | l :: r => if blank_line l then no_continuation r else negb (continues_tag (skip_blanks l))
  end.

Definition prims : list text :=
  [T "string"; T "integer"; T "number"; T "boolean"; T "nil"; T "table"; T "any"].

Section Spec.
  Variables is_alpha is_alnum : cp -> bool.

  (** what may follow a name for the name token to end there: the end of the line, or a character that
      neither continues a name nor is one of the in-name separators . - * ` *)
  Definition follow_ok (f : text) : bool :=
    match f with
    | [] => true
    | c :: _ => negb (is_name_continue is_alnum c) && negb (is_sep c) && negb (c =? 96)
    end.

  (** the lexer reads [n] as exactly one name token, whatever admissible text follows *)
  Definition name_tok (n : text) : Prop :=
    forall f, follow_ok f = true -> lex_name is_alpha is_alnum (n ++ f) = Some (n, f).

  Inductive ty_atom : text -> Prop :=
  | A_prim : forall p, In p prims -> ty_atom p
  | A_name : forall n, name_tok n -> ty_atom n
  | A_str : forall s, ty_atom (quote_lua_string s)
  | A_arr : forall t, ty_atom t -> ty_atom (t ++ T "[]")
  | A_map : forall t, ty_expr t -> ty_atom (T "table<string, " ++ t ++ T ">")
  | A_paren : forall t, ty_expr t -> ty_atom (T "(" ++ t ++ T ")")
  with ty_expr : text -> Prop :=
  | E_atom : forall t, ty_atom t -> ty_expr t
  | E_union : forall ts, (2 <= length ts)%nat -> Forall ty_atom ts -> ty_expr (join (T " | ") ts)
  | E_opt : forall t, ty_atom t -> ty_expr (t ++ T "?").

  (** the key of a [---@field] line *)
  Inductive key_ok : text -> Prop :=
  | K_bare : forall n, needs_bracket_notation n = false -> key_ok n
  | K_str : forall s, key_ok (T "[" ++ quote_lua_string s ++ T "]").

  Inductive line_ok : text -> Prop :=
  | L_blank : line_ok []
  | L_doc : forall x, clean_text x -> no_tag_start x = true -> line_ok (T "--- " ++ x)
  | L_class : forall wf n, name_tok n -> line_ok (T "---@class" ++ file_flag wf ++ [SP] ++ n)
  | L_alias : forall wf n, name_tok n -> line_ok (T "---@alias" ++ file_flag wf ++ [SP] ++ n)
  | L_field : forall k ty, key_ok k -> ty_expr ty -> line_ok (T "---@field " ++ k ++ [SP] ++ ty)
  | L_index : forall kt ty, ty_expr kt -> ty_expr ty -> line_ok (T "---@field [" ++ kt ++ T "] " ++ ty)
  | L_variant : forall ty, ty_atom ty -> line_ok (T "---| " ++ ty)
  | L_variant_d : forall ty d, ty_atom ty -> clean_text d -> line_ok (T "---| " ++ ty ++ T " # " ++ d).

  (** a line of the output: one of the shapes, on one physical line *)
  Definition good_line (l : text) : Prop := line_ok l /\ clean_text l.

  (** the lines declare the type [name] *)
  Definition declares (wf : bool) (name : text) (ls : list text) : Prop :=
    In (T "---@class" ++ file_flag wf ++ [SP] ++ name) ls \/ In (T "---@alias" ++ file_flag wf ++ [SP] ++ name) ls.
End Spec.
