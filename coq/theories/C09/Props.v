(** C09/Props.v — property theorems only (reindexing equals analysing the current files from scratch).
    Table obligations over today's source are in C09/Tables.v (re-proved against the regenerated tables on every run). *)
From EV Require Import Base.StoreSM C33.Model C33.Spec C08.Module C08.PropertyModel C33.Proofs C08.SimpleModels C08.Global C08.Diag C08.Product C09.Proofs C09.Tables.
Local Open Scope N_scope.

(** Clearing the module index after ANY history gives the answers and the container sizes of a new index
    (the id counter survives [clear]; no query and no size looks at it). *)
Theorem clear_is_init : forall (c : cfg) (ops : list (hop mfacts)),
  (forall q, mod_obs c (m_clear (state _ _ _ _ (mod_store c) ops)) q = mod_obs c m_init q) /\
  mod_size (m_clear (state _ _ _ _ (mod_store c) ops)) = mod_size m_init.
Proof. exact Proofs.clear_is_init. Qed.

(** After ANY history of updates, removals and reindexes, a reindex is observationally a fresh analysis of the files
    that are in the Vfs, loaded in file-id order: same answers to every require, same sizes. *)
Theorem reindex_eq_fresh : forall (c : cfg) (ops : list (hop mfacts)),
  (forall q, mod_obs c (state _ _ _ _ (mod_store c) (ops ++ [HReindex _])) q
             = mod_obs c (fresh _ _ _ _ (mod_store c) (vfs _ _ _ _ (mod_store c) (ops ++ [HReindex _]))) q) /\
  mod_size (state _ _ _ _ (mod_store c) (ops ++ [HReindex _]))
  = mod_size (fresh _ _ _ _ (mod_store c) (vfs _ _ _ _ (mod_store c) (ops ++ [HReindex _]))).
Proof. exact Proofs.reindex_eq_fresh. Qed.

(** LuaPropertyIndex, LuaGlobalIndex, DiagnosticIndex: [clear] yields literally the initial state, hence reindex from
    any state IS the fresh analysis (equality of states, not only of observations). *)
Theorem property_reindex_eq_fresh : forall (s : pidx) (live : list (N * list pfact)),
  fold_left (fun s fx => p_add (fst fx) (snd fx) s) live (p_clear s)
  = fold_left (fun s fx => p_add (fst fx) (snd fx) s) live p_init.
Proof. exact Proofs.property_reindex_eq_fresh. Qed.
Theorem global_reindex_eq_fresh : forall (s : gidx) (live : list (N * list (N * N))),
  fold_left (fun s fx => g_add (fst fx) (snd fx) s) live (g_clear s)
  = fold_left (fun s fx => g_add (fst fx) (snd fx) s) live g_init.
Proof. exact Proofs.global_reindex_eq_fresh. Qed.
Theorem diagnostic_reindex_eq_fresh : forall (s : didx) (live : list (N * list (N * N))),
  fold_left (fun s fx => d_add (fst fx) (snd fx) s) live (d_clear s)
  = fold_left (fun s fx => d_add (fst fx) (snd fx) s) live d_init.
Proof. exact Proofs.diagnostic_reindex_eq_fresh. Qed.

(** The product store (LuaModuleIndex x LuaGlobalIndex x DiagnosticIndex = the modelled part of DbIndex): DbIndex::clear gives
    the observations and sizes of a new DbIndex, and after ANY history a reindex is observationally a fresh analysis. *)
Theorem product_clear_is_init : forall c ops,
  (forall q, db_obs c (s_clear _ _ _ _ (db_store c) (db_state c ops)) q = db_obs c (s_init _ _ _ _ (db_store c)) q) /\
  db_size c (s_clear _ _ _ _ (db_store c) (db_state c ops)) = db_size c (s_init _ _ _ _ (db_store c)).
Proof. exact Product.db_clear_is_init. Qed.
Theorem product_reindex_eq_fresh : forall c ops,
  (forall q, db_obs c (db_state c (ops ++ [HReindex _])) q
             = db_obs c (fresh _ _ _ _ (db_store c) (vfs _ _ _ _ (db_store c) (ops ++ [HReindex _]))) q) /\
  db_size c (db_state c (ops ++ [HReindex _]))
  = db_size c (fresh _ _ _ _ (db_store c) (vfs _ _ _ _ (db_store c) (ops ++ [HReindex _]))).
Proof. exact Product.db_reindex_eq_fresh. Qed.

(** Table obligations (source of today): every index of DbIndex is cleared and removed-from; every fact container of
    every index is reset by its clear() and touched by its remove(), outside the one recorded exception. *)
Theorem dbindex_fields_all_cleared_and_removed : db_ok = true.
Proof. exact Tables.dbindex_fields_all_cleared_and_removed. Qed.
Theorem index_containers_reset_by_clear_outside_known : forallb clear_ok Gen.C09_IndexFields.indexes = true.
Proof. exact Tables.index_containers_reset_by_clear_outside_known. Qed.
Theorem index_containers_touched_by_remove_outside_known : forallb remove_ok Gen.C09_IndexFields.indexes = true.
Proof. exact Tables.index_containers_touched_by_remove_outside_known. Qed.
Theorem index_containers_known_refuted : known_tight = true.
Proof. exact Tables.index_containers_known_refuted. Qed.

(** non-vacuity: a history with a removal and a hidden file; the reindexed state differs from the fresh one in the
    id counter only *)
Example reindex_example :
  let c := ex_cfg in
  let ops := [HUpdate mfacts 1 ([97; 46; 98], 1, false); HUpdate _ 2 ([120; 46; 98], 1, false);
              HUpdate _ 1 ([99], 1, false); HRemove _ 2; HUpdate _ 3 ([97; 46; 98], 1, true); HReindex _] in
  m_counter (state _ _ _ _ (mod_store c) ops) <> m_counter (fresh _ _ _ _ (mod_store c) (vfs _ _ _ _ (mod_store c) ops)) /\
  mod_obs c (state _ _ _ _ (mod_store c) ops) [98] = Some (3, [97; 46; 98], 1, true) /\
  mod_size (state _ _ _ _ (mod_store c) ops) = [4; 2; 2].
Proof. exact Proofs.reindex_example. Qed.
