(** C09/Tables.v — obligations over the tables regenerated from today's source (Gen/C09_IndexFields.v):
    every index field of [DbIndex] is cleared by [DbIndex::clear] and removed-from by [DbIndex::remove]; every
    fact container of every index struct is reset by its [clear()] and touched by its [remove()].
    A new index, or a new container field that [clear]/[remove] forget, makes one of these fail. *)
From Coq Require Import String List Bool.
From EV Require Import Gen.C09_IndexFields.
Import ListNotations.
Local Open Scope string_scope.

Definition mem (x : string) (l : list string) : bool := existsb (String.eqb x) l.
Definition mem2 (x : string * string) (l : list (string * string)) : bool :=
  existsb (fun y => String.eqb (fst x) (fst y) && String.eqb (snd x) (snd y)) l.

(** reviewed classification: containers that hold configuration, not per-file facts; they survive [clear] by design
    (module patterns, workspace roots, moduleMap rewrites are installed by [update_config] / [add_workspace_root]) *)
Definition config_fields : list (string * string) :=
  [("LuaModuleIndex", "module_patterns"); ("LuaModuleIndex", "workspaces"); ("LuaModuleIndex", "module_replace_vec")].

(** the known open finding: [JsonSchemaIndex] is keyed by URL and its [clear]/[remove] are TODO stubs *)
Definition known_unreset : list (string * string) := [("JsonSchemaIndex", "schema_files")].

(** fields of [DbIndex] that are not indexes (reviewed): the virtual file system and the configuration *)
Definition non_index_fields : list string := ["vfs"; "emmyrc"].

Definition db_ok : bool :=
  forallb (fun x : string * string * bool =>
             let '(f, _, is_index) := x in
             if is_index then mem f db_cleared && mem f db_removed else mem f non_index_fields) db_fields.

Definition fact_containers (ix : index_tbl) : list string :=
  map fst (filter (fun x : string * fkind => match snd x with Container => negb (mem2 (it_name ix, fst x) config_fields) | Scalar => false end)
                  (it_fields ix)).

Definition clear_ok (ix : index_tbl) : bool :=
  forallb (fun f => mem f (it_cleared ix) || mem2 (it_name ix, f) known_unreset) (fact_containers ix).
Definition remove_ok (ix : index_tbl) : bool :=
  forallb (fun f => mem f (it_removed ix) || mem2 (it_name ix, f) known_unreset) (fact_containers ix).

(** the known entries really are unreset (so the exemption list cannot hide a repaired or renamed field) *)
Definition known_tight : bool :=
  forallb (fun x : string * string =>
             let '(i, f) := x in
             existsb (fun ix => String.eqb (it_name ix) i && mem f (fact_containers ix)
                                && negb (mem f (it_cleared ix)) && negb (mem f (it_removed ix))) indexes)
          known_unreset.

(** every index type listed in [DbIndex] has a table (its [impl LuaIndex] was found) *)
Definition db_indexes_known : bool :=
  forallb (fun x : string * string * bool => let '(_, ty, is_index) := x in if is_index then existsb (fun ix => String.eqb (it_name ix) ty) indexes else true)
          db_fields.

Theorem dbindex_fields_all_cleared_and_removed : db_ok = true.
Proof. vm_compute. reflexivity. Qed.

Theorem dbindex_indexes_have_tables : db_indexes_known = true.
Proof. vm_compute. reflexivity. Qed.

Theorem index_containers_reset_by_clear_outside_known : forallb clear_ok indexes = true.
Proof. vm_compute. reflexivity. Qed.

Theorem index_containers_touched_by_remove_outside_known : forallb remove_ok indexes = true.
Proof. vm_compute. reflexivity. Qed.

Theorem index_containers_known_refuted : known_tight = true.
Proof. vm_compute. reflexivity. Qed.
