(** C09/Proofs.v — lemmas behind C09/Props.v. *)
From EV Require Import Base.StoreSM C33.Model C33.Spec C33.Proofs C08.Module C08.PropertyModel C08.SimpleModels.
Local Open Scope N_scope.

Lemma clear_is_init : forall (c : cfg) (ops : list (hop mfacts)),
  (forall q, mod_obs c (m_clear (state _ _ _ _ (mod_store c) ops)) q = mod_obs c m_init q) /\
  mod_size (m_clear (state _ _ _ _ (mod_store c) ops)) = mod_size m_init.
Proof. intros c ops. exact (StoreSM.clear_is_init _ _ _ _ (mod_store c) (mod_refinement c) ops). Qed.

Lemma reindex_eq_fresh : forall (c : cfg) (ops : list (hop mfacts)),
  (forall q, mod_obs c (state _ _ _ _ (mod_store c) (ops ++ [HReindex _])) q
             = mod_obs c (fresh _ _ _ _ (mod_store c) (vfs _ _ _ _ (mod_store c) (ops ++ [HReindex _]))) q) /\
  mod_size (state _ _ _ _ (mod_store c) (ops ++ [HReindex _]))
  = mod_size (fresh _ _ _ _ (mod_store c) (vfs _ _ _ _ (mod_store c) (ops ++ [HReindex _]))).
Proof. intros c ops. exact (StoreSM.reindex_eq_fresh _ _ _ _ (mod_store c) (mod_refinement c) ops). Qed.

(** the id counter is the only thing [clear] does not reset, and no query looks at it *)
Lemma clear_differs_only_in_counter : forall s, m_clear s = mkIdx (m_nodes m_init) (m_files m_init) (m_fuzzy m_init) (m_counter s).
Proof. reflexivity. Qed.

(** the other modelled indexes: [clear] gives literally the initial state, so reindex IS a fresh analysis *)
Lemma property_clear_is_init : forall s, p_clear s = p_init.
Proof. reflexivity. Qed.
Lemma global_clear_is_init : forall s, g_clear s = g_init.
Proof. reflexivity. Qed.
Lemma diagnostic_clear_is_init : forall s, d_clear s = d_init.
Proof. reflexivity. Qed.

Lemma property_reindex_eq_fresh : forall (s : pidx) (live : list (N * list pfact)),
  fold_left (fun s fx => p_add (fst fx) (snd fx) s) live (p_clear s)
  = fold_left (fun s fx => p_add (fst fx) (snd fx) s) live p_init.
Proof. reflexivity. Qed.
Lemma global_reindex_eq_fresh : forall (s : gidx) (live : list (N * list (N * N))),
  fold_left (fun s fx => g_add (fst fx) (snd fx) s) live (g_clear s)
  = fold_left (fun s fx => g_add (fst fx) (snd fx) s) live g_init.
Proof. reflexivity. Qed.
Lemma diagnostic_reindex_eq_fresh : forall (s : didx) (live : list (N * list (N * N))),
  fold_left (fun s fx => d_add (fst fx) (snd fx) s) live (d_clear s)
  = fold_left (fun s fx => d_add (fst fx) (snd fx) s) live d_init.
Proof. reflexivity. Qed.

Lemma reindex_example :
  let c := ex_cfg in
  let ops := [HUpdate mfacts 1 ([97; 46; 98], 1, false); HUpdate _ 2 ([120; 46; 98], 1, false);
              HUpdate _ 1 ([99], 1, false); HRemove _ 2; HUpdate _ 3 ([97; 46; 98], 1, true); HReindex _] in
  m_counter (state _ _ _ _ (mod_store c) ops) <> m_counter (fresh _ _ _ _ (mod_store c) (vfs _ _ _ _ (mod_store c) ops)) /\
  mod_obs c (state _ _ _ _ (mod_store c) ops) [98] = Some (3, [97; 46; 98], 1, true) /\
  mod_size (state _ _ _ _ (mod_store c) ops) = [4; 2; 2].
Proof. cbv zeta. split; [vm_compute; discriminate | split; vm_compute; reflexivity]. Qed.
