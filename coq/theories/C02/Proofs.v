(** C02/Proofs.v — lemmas for the progress guard, the recursion guard and the token pump. *)
From Coq Require Import List Arith Lia Bool String.
Import ListNotations.
From EV Require Import C02.Model.

(* ------------------------------------------------------------------------------------------ *)
(** * (i) progress guard *)

Lemma exec_op_ge : forall s idx o, idx <= exec_op s idx o.
Proof. intros s idx o. destruct o; cbn [exec_op]; unfold bump; lia. Qed.

Lemma run_ops_ge : forall s ops idx, idx <= run_ops s idx ops.
Proof.
  intros s ops. unfold run_ops. induction ops as [|o r IH]; intros idx; cbn [fold_left].
  - lia.
  - specialize (IH (exec_op s idx o)). pose proof (exec_op_ge s idx o). lia.
Qed.

Lemma bump_gt : forall s idx, idx < bump s idx.
Proof. intros. unfold bump. lia. Qed.

Lemma chunk_terminates_gen : forall fuel s c k idx,
  len s - idx < fuel ->
  exists k' fin, chunk fuel s c k idx = Some (k', fin) /\ k' <= k + (len s - idx) /\ len s <= fin.
Proof.
  induction fuel as [|f IH]; intros s c k idx Hf.
  - lia.
  - cbn [chunk]. unfold at_eof. destruct (Nat.leb_spec (len s) idx) as [Hle|Hlt].
    + exists k, idx. split; [reflexivity|]. split; lia.
    + set (idx1 := run_ops s idx (c k idx)).
      assert (H1 : idx <= idx1) by apply run_ops_ge.
      set (idx2 := if idx1 =? idx then bump s idx else idx1).
      assert (H2 : idx < idx2).
      { subst idx2. destruct (Nat.eqb_spec idx1 idx) as [E|E]; [apply bump_gt|lia]. }
      destruct (IH s c (S k) idx2) as (k' & fin & Hc & Hk & Hfin); [lia|].
      exists k', fin. split; [exact Hc|]. split; lia.
Qed.

Lemma chunk_terminates : forall (s : stream) (c : client) (idx : nat),
  exists k fin, chunk (S (len s - idx)) s c 0 idx = Some (k, fin) /\ k <= len s - idx /\ len s <= fin.
Proof.
  intros s c idx. destruct (chunk_terminates_gen (S (len s - idx)) s c 0 idx) as (k & fin & H & Hk & Hf); [lia|].
  exists k, fin. split; [exact H|]. split; lia.
Qed.

(** more fuel never changes the answer *)
Lemma chunk_fuel_mono : forall fuel s c k idx r,
  chunk fuel s c k idx = Some r -> forall fuel', fuel <= fuel' -> chunk fuel' s c k idx = Some r.
Proof.
  induction fuel as [|f IH]; intros s c k idx r H fuel' Hle.
  - discriminate.
  - destruct fuel' as [|f']; [lia|]. cbn [chunk] in *. destruct (at_eof s idx); [exact H|].
    apply IH with (fuel' := f') in H; [exact H|lia].
Qed.

(** a client that consumes nothing never lets the unguarded loop end *)
Definition lazy_client : client := fun _ _ => [Mark; PeekNext; PushError; Complete].
Definition one_token : stream := {| len := 1; skip := fun _ => 0 |}.

Lemma chunk_noguard_diverges : forall fuel k, chunk_noguard fuel one_token lazy_client k 0 = None.
Proof. induction fuel as [|f IH]; intros k; [reflexivity|]. cbn [chunk_noguard]. cbn. apply IH. Qed.

Lemma guard_needed_refuted :
  exists (s : stream) (c : client), forall fuel, chunk_noguard fuel s c 0 0 = None.
Proof. exists one_token, lazy_client. intros fuel. apply chunk_noguard_diverges. Qed.

(** ... while the guarded loop ends after one iteration on the same client *)
Lemma guard_example : chunk 2 one_token lazy_client 0 0 = Some (1, 1).
Proof. reflexivity. Qed.

(* ------------------------------------------------------------------------------------------ *)
(** * (ii) recursion guard *)

Lemma ctree_ind2 (P : ctree -> Prop) :
  (forall f kids, Forall P kids -> P (CNode f kids)) -> forall t, P t.
Proof.
  intros H. fix IH 1. intros [f kids]. apply H.
  induction kids as [|a r IHr]; constructor; [apply IH|exact IHr].
Qed.

Lemma fold_max_le : forall (A : Type) (g : A -> nat) (l : list A) (b : nat),
  (forall x, In x l -> g x <= b) -> fold_right (fun k m => Nat.max (g k) m) 0 l <= b.
Proof.
  intros A g l b H. induction l as [|a r IH]; cbn [fold_right]; [lia|].
  assert (g a <= b) by (apply H; left; reflexivity).
  assert (fold_right (fun k m => Nat.max (g k) m) 0 r <= b) by (apply IH; intros x Hx; apply H; right; exact Hx).
  lia.
Qed.

Section GuardProofs.
  Variable LIMIT : nat.
  Variable guarded : nat -> bool.
  Variable rank : nat -> nat.
  Variable edge : nat -> nat -> bool.
  Variable K : nat.
  Hypothesis rank_dec : forall u v, edge u v = true -> guarded u = false -> guarded v = false -> rank v < rank u.
  Hypothesis rank_lt : forall u, guarded u = false -> rank u < K.

  Definition head_cost (t : ctree) : nat :=
    match t with CNode f _ => if guarded f then 1 else rank f + 2 end.

  Lemma frames_bound_gen : forall t lvl,
    lvl <= LIMIT -> respects LIMIT guarded edge lvl t = true ->
    frames t <= head_cost t + (LIMIT - lvl) * S K.
  Proof.
    induction t as [f kids IH] using ctree_ind2. intros lvl Hl Hr.
    cbn [respects] in Hr. apply andb_true_iff in Hr. destruct Hr as [Hedges Hr].
    cbn [frames head_cost]. rewrite Forall_forall in IH. rewrite forallb_forall in Hedges.
    destruct (guarded f) eqn:Gf.
    - destruct (Nat.leb_spec LIMIT lvl) as [Hge|Hlt].
      + destruct kids; [cbn; lia|discriminate].
      + rewrite forallb_forall in Hr.
        assert (Hk : fold_right (fun k m => Nat.max (frames k) m) 0 kids <= S K + (LIMIT - S lvl) * S K).
        { apply fold_max_le. intros x Hx. specialize (IH x Hx (S lvl)).
          assert (Hx' : frames x <= head_cost x + (LIMIT - S lvl) * S K) by (apply IH; [lia|apply Hr; exact Hx]).
          assert (head_cost x <= S K).
          { destruct x as [g gk]. cbn [head_cost]. destruct (guarded g) eqn:Gg; [lia|]. pose proof (rank_lt g Gg). lia. }
          lia. }
        replace (LIMIT - lvl) with (S (LIMIT - S lvl)) by lia. cbn [Nat.mul]. lia.
    - rewrite forallb_forall in Hr.
      assert (Hk : fold_right (fun k m => Nat.max (frames k) m) 0 kids <= rank f + 1 + (LIMIT - lvl) * S K).
      { apply fold_max_le. intros x Hx. specialize (IH x Hx lvl Hl (Hr x Hx)).
        assert (head_cost x <= rank f + 1).
        { destruct x as [g gk]. cbn [head_cost]. destruct (guarded g) eqn:Gg; [lia|].
          specialize (Hedges _ Hx). cbn in Hedges. pose proof (rank_dec f g Hedges Gf Gg). lia. }
        lia. }
      lia.
  Qed.

  Lemma frames_bounded : forall t,
    respects LIMIT guarded edge 0 t = true -> frames t <= S LIMIT * S K.
  Proof.
    intros t Hr. pose proof (frames_bound_gen t 0 (Nat.le_0_l _) Hr) as H.
    assert (head_cost t <= S K).
    { destruct t as [g gk]. cbn [head_cost]. destruct (guarded g) eqn:Gg; [lia|]. pose proof (rank_lt g Gg). lia. }
    replace (LIMIT - 0) with LIMIT in H by lia. cbn [Nat.mul]. lia.
  Qed.
End GuardProofs.

(** instantiation with a generated graph *)
Lemma max_rank_ge : forall rank ids i, In i ids -> rank i <= max_rank rank ids.
Proof.
  intros rank ids i. unfold max_rank. induction ids as [|a r IH]; intros Hin; [destruct Hin|].
  cbn [fold_right]. destruct Hin as [->|Hin]; [lia|]. specialize (IH Hin). lia.
Qed.

Lemma rank_of_lt_K : forall funs u, rank_of funs u < K_of funs.
Proof.
  intros funs u. unfold K_of.
  destruct (find (fun e => fid e =? u) funs) as [e|] eqn:F.
  - assert (Hu : fid e = u) by (apply find_some in F; destruct F as [_ Heq]; apply Nat.eqb_eq in Heq; exact Heq).
    assert (Hin : In u (ids_of funs)).
    { apply find_some in F. destruct F as [Hin _]. unfold ids_of. rewrite <- Hu. apply in_map. exact Hin. }
    pose proof (max_rank_ge (rank_of funs) (ids_of funs) u Hin). lia.
  - unfold rank_of at 1. rewrite F. lia.
Qed.

Lemma graph_rank_dec : forall funs edges,
  ranks_decrease (guarded_of funs) (rank_of funs) edges = true ->
  forall u v, edge_of edges u v = true -> guarded_of funs u = false -> guarded_of funs v = false ->
  rank_of funs v < rank_of funs u.
Proof.
  intros funs edges H u v He Gu Gv. unfold ranks_decrease in H. rewrite forallb_forall in H.
  unfold edge_of in He. apply existsb_exists in He. destruct He as [[a b] [Hin Hab]].
  apply andb_true_iff in Hab. destruct Hab as [Ha Hb]. apply Nat.eqb_eq in Ha. apply Nat.eqb_eq in Hb. subst a b.
  specialize (H _ Hin). cbn in H. rewrite Gu, Gv in H. cbn in H. apply Nat.ltb_lt in H. exact H.
Qed.

Lemma graph_frames_bounded : forall LIMIT funs edges,
  ranks_decrease (guarded_of funs) (rank_of funs) edges = true ->
  forall t, respects LIMIT (guarded_of funs) (edge_of edges) 0 t = true ->
  frames t <= S LIMIT * S (K_of funs).
Proof.
  intros LIMIT funs edges H t Hr.
  apply (frames_bounded LIMIT (guarded_of funs) (rank_of funs) (edge_of edges) (K_of funs)); [| |exact Hr].
  - apply graph_rank_dec. exact H.
  - intros u _. apply rank_of_lt_K.
Qed.

(** without the guard ([guarded] nowhere true) a call tree may be as deep as one likes:
    a chain of n activations of one self-recursive function *)
Fixpoint chain (n : nat) : ctree :=
  match n with 0 => CNode 0 [] | S m => CNode 0 [chain m] end.

Lemma chain_frames : forall n, frames (chain n) = S n.
Proof. induction n as [|n IH]; cbn [chain frames fold_right]; [reflexivity|]. rewrite IH. lia. Qed.

Lemma chain_respects_unguarded : forall LIMIT n lvl,
  respects LIMIT (fun _ => false) (fun _ _ => true) lvl (chain n) = true.
Proof.
  intros LIMIT. induction n as [|n IH]; intros lvl; [reflexivity|].
  cbn [chain respects forallb]. rewrite IH. destruct (chain n); reflexivity.
Qed.

Lemma unguarded_unbounded : forall LIMIT B, exists t,
  respects LIMIT (fun _ => false) (fun _ _ => true) 0 t = true /\ frames t > B.
Proof.
  intros LIMIT B. exists (chain B). split; [apply chain_respects_unguarded|]. rewrite chain_frames. lia.
Qed.

(* ------------------------------------------------------------------------------------------ *)
(** * (iii) token pump *)

Lemma pump_cost_gen : forall P s ops idx b,
  b <= P -> lookahead_ok P 0 b ops = true ->
  (forall n, ~ In (PeekNth n) ops) ->
  ops_cost s idx ops + (P - b) * (1 + skip s (idx + 1))
  <= (P + 2) * (run_ops s idx ops - idx) + P * (1 + skip s (run_ops s idx ops + 1)).
Proof.
  intros P s ops. induction ops as [|o r IH]; intros idx b Hb Hok Hnth.
  - cbn [ops_cost run_ops fold_left]. replace (idx - idx) with 0 by lia.
    assert ((P - b) * (1 + skip s (idx + 1)) <= P * (1 + skip s (idx + 1))) by (apply Nat.mul_le_mono_r; lia). lia.
  - assert (Hnth' : forall n, ~ In (PeekNth n) r) by (intros n Hin; apply (Hnth n); right; exact Hin).
    change (run_ops s idx (o :: r)) with (run_ops s (exec_op s idx o) r).
    pose proof (run_ops_ge s r (exec_op s idx o)) as Hge.
    cbn [ops_cost].
    destruct o; cbn [lookahead_ok] in Hok;
      try (cbn [op_cost exec_op] in *; specialize (IH idx b Hb Hok Hnth'); lia).
    + (* Bump *)
      cbn [op_cost exec_op] in *. specialize (IH (bump s idx) P (Nat.le_refl _) Hok Hnth').
      replace (P - P) with 0 in IH by lia.
      assert (Hb2 : bump s idx = idx + 1 + skip s (idx + 1)) by reflexivity.
      assert ((P - b) * (1 + skip s (idx + 1)) <= P * (1 + skip s (idx + 1))) by (apply Nat.mul_le_mono_r; lia).
      set (fin := run_ops s (bump s idx) r) in *.
      assert (Hd : fin - idx = (fin - bump s idx) + (1 + skip s (idx + 1))) by lia.
      rewrite Hd. rewrite Nat.mul_add_distr_l. nia.
    + (* PeekNext *)
      cbn [op_cost exec_op] in *. destruct b as [|b']; [discriminate|].
      specialize (IH idx b' ltac:(lia) Hok Hnth').
      replace (P - b') with (S (P - S b')) in IH by lia. cbn [Nat.mul] in IH. lia.
    + (* PeekNth *)
      exfalso. apply (Hnth n). left. reflexivity.
Qed.

Lemma pump_cost_linear : forall (P : nat) (s : stream) (ops : list op) (idx : nat),
  lookahead_ok P 0 P ops = true -> (forall n, ~ In (PeekNth n) ops) ->
  ops_cost s idx ops
  <= (P + 2) * (run_ops s idx ops - idx) + P * (1 + skip s (run_ops s idx ops + 1)).
Proof.
  intros P s ops idx Hok Hnth. pose proof (pump_cost_gen P s ops idx P (Nat.le_refl _) Hok Hnth) as H. lia.
Qed.

(* ------------------------------------------------------------------------------------------ *)
(** * token-level nesting: levels of the model's trees (C03.Model.nlev) *)
From EV Require Import C03.Syntax C03.Model.

Fixpoint nest (w : tree -> tree) (n : nat) (e : tree) : tree :=
  match n with 0 => e | S k => w (nest w k e) end.

Definition w_paren (e : tree) : tree := N KParen [L TLParen; e; L TRParen].
Definition w_unary (e : tree) : tree := N KUnary [L TMinus; e].
Definition w_concat (e : tree) : tree := N KBinary [N KLiteral [L TInt]; L TConcat; e].
Definition w_table (e : tree) : tree := N KTable [L TLBrace; N KFieldValue [e]; L TRBrace].
Definition w_func (e : tree) : tree :=
  N KClosure [L TFunction; N KParamList [L TLParen; L TRParen]; N KBlock [N KReturn [L TReturn; e]]; L TEnd].
Definition w_plus (e : tree) : tree := N KBinary [e; L TPlus; N KLiteral [L TInt]].

Lemma nlev_paren : forall e, nlev false (w_paren e) = S (nlev false e).
Proof. intros e. cbn. lia. Qed.
Lemma nlev_unary : forall e, nlev false (w_unary e) = S (nlev false e).
Proof. intros e. cbn. lia. Qed.
Lemma nlev_concat : forall e, nlev false (w_concat e) = S (nlev false e).
Proof. intros e. cbn. lia. Qed.
Lemma nlev_table : forall e, nlev false (w_table e) = S (nlev false e).
Proof. intros e. cbn. lia. Qed.
Lemma nlev_func : forall e, nlev false (w_func e) = S (S (nlev false e)).
Proof. intros e. cbn. lia. Qed.

Lemma depth_eq_nesting_gen : forall (w : tree -> tree) (k : nat),
  (forall e, nlev false (w e) = k + nlev false e) ->
  forall n e, nlev false (nest w n e) = k * n + nlev false e.
Proof.
  intros w k Hw. induction n as [|n IH]; intros e; cbn [nest]; [lia|]. rewrite Hw, IH. lia.
Qed.

(** a left-associative chain adds NO level (the parser loops) but one level of tree per link *)
Lemma nlev_plus_inside : forall e, nlev true (w_plus e) = Nat.max (nlev true e) 1.
Proof. intros e. reflexivity. Qed.

Lemma height_plus : forall e, height (w_plus e) = S (Nat.max (height e) 2).
Proof. intros e. cbn. lia. Qed.

Lemma depth_eq_nesting : forall (n : nat) (e : tree),
  nlev false (nest w_paren n e) = 1 * n + nlev false e /\
  nlev false (nest w_unary n e) = 1 * n + nlev false e /\
  nlev false (nest w_concat n e) = 1 * n + nlev false e /\
  nlev false (nest w_table n e) = 1 * n + nlev false e /\
  nlev false (nest w_func n e) = 2 * n + nlev false e.
Proof.
  intros n e. repeat split.
  - exact (depth_eq_nesting_gen w_paren 1 nlev_paren n e).
  - exact (depth_eq_nesting_gen w_unary 1 nlev_unary n e).
  - exact (depth_eq_nesting_gen w_concat 1 nlev_concat n e).
  - exact (depth_eq_nesting_gen w_table 1 nlev_table n e).
  - exact (depth_eq_nesting_gen w_func 2 nlev_func n e).
Qed.

From EV Require C03.Proofs C03.Corr C03.Props Gen.C02_Graph.

Lemma tree_height_unbounded : forall B : nat, exists (ts : list tok) (t : tree),
  (exists n, forall fuel, n <= fuel -> C03.Corr.gen_expr Lua54 fuel ts = Ok t []) /\
  height t > B /\ List.length ts = 2 * B + 1.
Proof.
  intros B. exists (C03.Proofs.plus_toks B), (C03.Proofs.plus_tree B). split; [|split].
  - apply (C03.Props.expr_complete Lua54 2); [apply C03.Proofs.plus_chain_E|].
    unfold Gen.C02_Graph.LIMIT. lia.
  - rewrite C03.Proofs.plus_tree_height. lia.
  - apply C03.Proofs.plus_toks_length.
Qed.

Lemma graph_guards_every_cycle :
  ranks_decrease (guarded_of Gen.C02_Graph.funs) (rank_of Gen.C02_Graph.funs) Gen.C02_Graph.edges = true.
Proof. vm_compute. reflexivity. Qed.

Lemma stack_frames_bounded : forall t : ctree,
  respects Gen.C02_Graph.LIMIT (guarded_of Gen.C02_Graph.funs) (edge_of Gen.C02_Graph.edges) 0 t = true ->
  frames t <= S Gen.C02_Graph.LIMIT * S (K_of Gen.C02_Graph.funs).
Proof. exact (graph_frames_bounded Gen.C02_Graph.LIMIT Gen.C02_Graph.funs Gen.C02_Graph.edges graph_guards_every_cycle). Qed.

Lemma graph_example :
  1 < Gen.C02_Graph.LIMIT /\ 100 < List.length Gen.C02_Graph.funs /\ 4 = List.length (filter fguard Gen.C02_Graph.funs)
  /\ K_of Gen.C02_Graph.funs <= 64
  /\ respects 2 (fun f => Nat.eqb f 0) (fun _ _ => true) 0 (CNode 0 [CNode 1 [CNode 0 [CNode 1 [CNode 0 []]]]]) = true
  /\ respects 2 (fun f => Nat.eqb f 0) (fun _ _ => true) 0 (CNode 0 [CNode 1 [CNode 0 [CNode 1 [CNode 0 [CNode 1 []]]]]]) = false
  /\ EV.C02.Model.chunk 5 {| len := 3; skip := fun _ => 0 |} (fun k _ => if Nat.eqb k 1 then [Bump; Bump] else [Mark; PushError]) 0 0 = Some (2, 3).
Proof.
  split; [unfold Gen.C02_Graph.LIMIT; lia|]. split; [vm_compute; lia|]. split; [vm_compute; reflexivity|].
  split; [vm_compute; lia|]. vm_compute. repeat split; reflexivity.
Qed.
