(** C02/Props.v — property theorems only ("parsing never crashes or hangs").
    Each is closed by [exact] of a lemma of Proofs.v (or of C03/Proofs.v for the token-level model).

    PROVED (for all inputs / all clients / all call trees):
      - chunk_terminates: the progress guard of parse_chunk bounds the loop by the number of tokens for
        EVERY statement parser that uses the parser API;
      - stack_frames_bounded: with the recursion guard (enter_level at MAX_NESTING_LEVEL) and the call
        graph regenerated from today's source, EVERY run of the descent has at most (LIMIT+1)*(K+1)
        frames — the obligation graph_guards_every_cycle is re-proved on the regenerated graph;
      - pump_cost_linear: token-array reads are linear in the distance the parser advances;
      - depth_eq_nesting: the nesting level of n-fold nesting is base + k*n in the token-level model.
    REFUTED (kept visible): without the guards the loop need not end (guard_needed_refuted) and the
    frames are unbounded (stack_unbounded_without_guard); flat input yields trees of unbounded height
    (tree_height_unbounded_refuted) — the open finding: rowan drops and hashes trees recursively.
    EXPLORATION only (not proved, see checks/C02.py): bytes of stack per frame, wall-clock, rowan. *)
From Coq Require Import List Arith Bool String.
Import ListNotations.
From EV Require Import C02.Model C02.Proofs Gen.C02_Graph.
From EV Require C03.Syntax C03.Model C03.Spec C03.Proofs C03.Corr C03.Props.

(** (i) for every client, parse_chunk's loop runs at most |tokens| iterations and ends at or after the
    last token *)
Theorem chunk_terminates : forall (s : stream) (c : client) (idx : nat),
  exists k fin, chunk (S (len s - idx)) s c 0 idx = Some (k, fin) /\ k <= len s - idx /\ len s <= fin.
Proof. exact Proofs.chunk_terminates. Qed.

(** ... and it is the guard that does it: without it a client that consumes nothing loops forever *)
Theorem guard_needed_refuted :
  exists (s : stream) (c : client), forall fuel, chunk_noguard fuel s c 0 0 = None.
Proof. exact Proofs.guard_needed_refuted. Qed.

(** (ii) table obligation on the regenerated call graph: every call edge between two unguarded functions
    strictly decreases the rank, i.e. every cycle of the descent passes through a guarded function *)
Theorem graph_guards_every_cycle :
  ranks_decrease (guarded_of funs) (rank_of funs) edges = true.
Proof. exact Proofs.graph_guards_every_cycle. Qed.

(** every run of the guarded descent (any call tree over the regenerated graph that respects the
    guard) keeps at most (LIMIT + 1) * (K + 1) frames on the stack *)
Theorem stack_frames_bounded : forall t : ctree,
  respects LIMIT (guarded_of funs) (edge_of edges) 0 t = true ->
  frames t <= S LIMIT * S (K_of funs).
Proof. exact Proofs.stack_frames_bounded. Qed.

(** the code before the guard: without guarded functions the frames are unbounded *)
Theorem stack_unbounded_without_guard : forall LIMIT B, exists t,
  respects LIMIT (fun _ => false) (fun _ _ => true) 0 t = true /\ frames t > B.
Proof. exact Proofs.unguarded_unbounded. Qed.

(** (iii) with at most P look-aheads between two bumps (grammar/lua: peek_next_token only), the token
    pump costs at most (P + 2) array reads per token advanced, plus the look-ahead past the end *)
Theorem pump_cost_linear : forall (P : nat) (s : stream) (ops : list op) (idx : nat),
  lookahead_ok P 0 P ops = true -> (forall n, ~ In (PeekNth n) ops) ->
  ops_cost s idx ops
  <= (P + 2) * (run_ops s idx ops - idx) + P * (1 + skip s (run_ops s idx ops + 1)).
Proof. exact Proofs.pump_cost_linear. Qed.

(** token-level model: n-fold nesting needs base + k*n levels (k = 1 for parentheses, unary operators,
    right operands and table constructors, k = 2 for function bodies) *)
Theorem depth_eq_nesting : forall (n : nat) (e : Syntax.tree),
  Model.nlev false (nest w_paren n e) = 1 * n + Model.nlev false e /\
  Model.nlev false (nest w_unary n e) = 1 * n + Model.nlev false e /\
  Model.nlev false (nest w_concat n e) = 1 * n + Model.nlev false e /\
  Model.nlev false (nest w_table n e) = 1 * n + Model.nlev false e /\
  Model.nlev false (nest w_func n e) = 2 * n + Model.nlev false e.
Proof. exact Proofs.depth_eq_nesting. Qed.

(** flat input, deep tree: 1 + 1 + ... + 1 is accepted at nesting level 2 and its tree is as high as
    one likes — what a recursive drop / hash of the tree (rowan) needs is not bounded by the guard *)
Theorem tree_height_unbounded_refuted : forall B : nat, exists (ts : list Syntax.tok) (t : Syntax.tree),
  (exists n, forall fuel, n <= fuel -> Corr.gen_expr Syntax.Lua54 fuel ts = Model.Ok t []) /\
  Syntax.height t > B /\ List.length ts = 2 * B + 1.
Proof. exact Proofs.tree_height_unbounded. Qed.

(** non-vacuity: the regenerated graph is not trivial, the bound is a number, and a small run respects
    the guard *)
Example graph_example :
  1 < LIMIT /\ 100 < List.length funs /\ 4 = List.length (filter fguard funs) /\ K_of funs <= 64
  /\ respects 2 (fun f => Nat.eqb f 0) (fun _ _ => true) 0 (CNode 0 [CNode 1 [CNode 0 [CNode 1 [CNode 0 []]]]]) = true
  /\ respects 2 (fun f => Nat.eqb f 0) (fun _ _ => true) 0 (CNode 0 [CNode 1 [CNode 0 [CNode 1 [CNode 0 [CNode 1 []]]]]]) = false
  /\ chunk 5 {| len := 3; skip := fun _ => 0 |} (fun k _ => if Nat.eqb k 1 then [Bump; Bump] else [Mark; PushError]) 0 0 = Some (2, 3).
Proof. exact Proofs.graph_example. Qed.
