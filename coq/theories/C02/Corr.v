(** C02/Corr.v — executable comparison of the measured nesting level (hook counter
    emmylua_parser::verif_depth::high_water) with the level the model predicts for the same tokens. *)
From Coq Require Import List Bool Arith.
Import ListNotations.
From EV Require Import C03.Syntax C03.Model C03.Corr Gen.C02_Graph.

Record case := {
  c_level : level;
  c_toks : list tok;       (* token kinds, trivia removed *)
  c_errs : bool;           (* the implementation reported a parser error *)
  c_depth : nat            (* nesting-level high-water measured by the hook *)
}.

(** accepted input: the measured high-water is the level count of the model's tree;
    rejected input: the guard kept the level at or below the limit *)
Definition check_case (c : case) : bool :=
  match gen_chunk (c_level c) (enough_fuel (c_toks c)) (c_toks c) with
  | Ok t [] => negb (c_errs c) && (chunk_levels t =? c_depth c) && (c_depth c <=? LIMIT)
  | Ok _ (_ :: _) => false
  | Err => c_errs c && (c_depth c <=? LIMIT)
  | Fuel => false
  end.
