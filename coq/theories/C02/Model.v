(** C02/Model.v — parsing never crashes or hangs: executable models (definitions only).

    (i)   [chunk]      crates/emmylua_parser/src/grammar/lua/mod.rs  fn parse_chunk: the progress guard
                       over an ABSTRACT statement parser (any sequence of parser-API operations).
    (ii)  [ctree] ...  the recursion guard of the descent (parser/lua_parser.rs fn enter_level /
                       leave_level, parser/lua_doc_parser.rs fn enter_type_level / leave_type_level) over
                       ABSTRACT call trees whose nodes are labelled with functions of the call graph that
                       the translator regenerates into Gen/C02_Graph.v.
    (iii) [pump_cost]  token pump: cost of bump / peek_next_token / peek_nth_token (skip_trivia loops).

    The token-level recursion-depth function [depth : tokens -> nat] of the Lua grammar is the level
    high-water of the C03 parser model (EV.C03.Model.hw_chunk); it is used by Corr.v and Proofs.v. *)
From Coq Require Import List Arith Lia Bool String.
Import ListNotations.

(* ------------------------------------------------------------------------------------------ *)
(** * (i) the parse_chunk progress guard *)

(** parser-API operations a statement parser may perform (LuaParser's pub/pub(crate) methods and
    the marker API).  Only [Bump] moves the token index; everything else reads state, edits the
    event stream or the error list. *)
Inductive op :=
| Bump | PeekNext | PeekNth (n : nat) | CurrentToken | CurrentRange | CurrentText
| SetKind | Mark | Complete | Undo | Precede | SetNodeKind | PushNodeEnd | PushError
| EnterLevel | LeaveLevel | EnterParen | LeaveParen | EnterTernary | LeaveTernary.

(** token stream: [len] = tokens.len(); [skip i] = number of trivia tokens skipped by
    LuaParser::skip_trivia when it starts at index [i] (arbitrary: any token stream). *)
Record stream := { len : nat; skip : nat -> nat }.

(** LuaParser::bump: next_index = token_index + 1; skip_trivia(&mut next_index); token_index = next_index *)
Definition bump (s : stream) (idx : nat) : nat := idx + 1 + skip s (idx + 1).

Definition exec_op (s : stream) (idx : nat) (o : op) : nat :=
  match o with Bump => bump s idx | _ => idx end.

Definition run_ops (s : stream) (idx : nat) (ops : list op) : nat := fold_left (exec_op s) ops idx.

(** an abstract statement parser: what it does on its k-th invocation when entered at token index
    [idx] (it may depend on the whole token stream and on everything it did before: the stream is
    fixed and the invocation number determines the history). *)
Definition client := nat -> nat -> list op.

(** current_token() == TkEof  <->  token_index >= tokens.len()  (the lexer never pushes TkEof) *)
Definition at_eof (s : stream) (idx : nat) : bool := len s <=? idx.

(** parse_chunk's loop.  Result: (number of iterations, final token index); None = fuel exhausted *)
Fixpoint chunk (fuel : nat) (s : stream) (c : client) (k idx : nat) : option (nat * nat) :=
  match fuel with
  | 0 => None
  | S f =>
      if at_eof s idx then Some (k, idx)
      else
        let idx1 := run_ops s idx (c k idx) in                   (* parse_stats(p) *)
        let idx2 := if idx1 =? idx then bump s idx else idx1 in  (* the guard: p.bump() when nothing was consumed *)
        chunk f s c (S k) idx2
  end.

(** the same loop WITHOUT the guard (used to show that the guard is what makes it terminate) *)
Fixpoint chunk_noguard (fuel : nat) (s : stream) (c : client) (k idx : nat) : option (nat * nat) :=
  match fuel with
  | 0 => None
  | S f =>
      if at_eof s idx then Some (k, idx)
      else chunk_noguard f s c (S k) (run_ops s idx (c k idx))
  end.

(* ------------------------------------------------------------------------------------------ *)
(** * (ii) the recursion guard over abstract call trees *)

(** one activation of a function of the descent: its id in the call graph and the activations it
    starts, in order *)
Inductive ctree := CNode (f : nat) (kids : list ctree).

(** number of stack frames alive at the deepest point of the run *)
Fixpoint frames (t : ctree) : nat :=
  match t with
  | CNode _ kids => S (fold_right (fun k m => Nat.max (frames k) m) 0 kids)
  end.

Section Guard.
  Variable LIMIT : nat.                (* MAX_NESTING_LEVEL *)
  Variable guarded : nat -> bool.      (* functions that call enter_level first *)
  Variable rank : nat -> nat.          (* ranking of the unguarded functions (see Gen/C02_Graph.v) *)
  Variable edge : nat -> nat -> bool.  (* call graph *)

  (** the tree is a run of the guarded descent entered at nesting level [lvl]:
      a guarded function entered at lvl >= LIMIT returns at once (no callee); otherwise its
      callees run at lvl+1; an unguarded function's callees run at the same level;
      every activation's callee is a callee in the call graph. *)
  Fixpoint respects (lvl : nat) (t : ctree) : bool :=
    match t with
    | CNode f kids =>
        forallb (fun k => match k with CNode g _ => edge f g end) kids &&
        if guarded f then
          if LIMIT <=? lvl then match kids with [] => true | _ => false end
          else forallb (respects (S lvl)) kids
        else forallb (respects lvl) kids
    end.

  (** longest run of consecutive unguarded activations starting at the root *)
  Fixpoint urun (t : ctree) : nat :=
    match t with
    | CNode f kids =>
        if guarded f then 0
        else S (fold_right (fun k m => Nat.max (urun k) m) 0 kids)
    end.
End Guard.

(** the graph obligation checked on the generated graph: along every edge between two unguarded
    functions the rank strictly decreases (so the unguarded part of the graph is acyclic and every
    cycle of the descent goes through a guarded function) *)
Definition ranks_decrease (guarded : nat -> bool) (rank : nat -> nat) (edges : list (nat * nat)) : bool :=
  forallb (fun '(u, v) => if guarded u || guarded v then true else rank v <? rank u) edges.

Definition edge_of (edges : list (nat * nat)) (u v : nat) : bool :=
  existsb (fun '(a, b) => (a =? u) && (b =? v)) edges.

Definition max_rank (rank : nat -> nat) (ids : list nat) : nat :=
  fold_right (fun i m => Nat.max (rank i) m) 0 ids.

(** reading the generated graph (Gen/C02_Graph.v): functions are (id, name, guarded, rank) *)
Definition fun_entry := (nat * string * bool * nat)%type.
Definition fid (e : fun_entry) : nat := match e with (i, _, _, _) => i end.
Definition fguard (e : fun_entry) : bool := match e with (_, _, g, _) => g end.
Definition frank (e : fun_entry) : nat := match e with (_, _, _, r) => r end.

Definition guarded_of (funs : list fun_entry) (id : nat) : bool :=
  existsb (fun e => (fid e =? id) && fguard e) funs.
Definition rank_of (funs : list fun_entry) (id : nat) : nat :=
  match find (fun e => fid e =? id) funs with Some e => frank e | None => 0 end.
Definition ids_of (funs : list fun_entry) : list nat := map fid funs.
(** strict upper bound of the ranks = length bound of a run of unguarded activations *)
Definition K_of (funs : list fun_entry) : nat := S (max_rank (rank_of funs) (ids_of funs)).

(* ------------------------------------------------------------------------------------------ *)
(** * (iii) token pump cost *)

(** elementary steps (token-array reads) of one operation at index idx:
    bump: 1 + the trivia run it skips (skip_trivia) and re-scans (parse_trivia_tokens): <= 2*(1+skip)
    peek_next_token: 1 + skip;  peek_nth_token(n): sum of n+1 such runs. *)
Fixpoint peek_cost (s : stream) (idx n : nat) : nat :=
  match n with
  | 0 => 1 + skip s (idx + 1)
  | S m => 1 + skip s (idx + 1) + peek_cost s (bump s idx) m
  end.

Definition op_cost (s : stream) (idx : nat) (o : op) : nat :=
  match o with
  | Bump => 2 * (1 + skip s (idx + 1))
  | PeekNext => 1 + skip s (idx + 1)
  | PeekNth n => peek_cost s idx n
  | _ => 0
  end.

Fixpoint ops_cost (s : stream) (idx : nat) (ops : list op) : nat :=
  match ops with
  | [] => 0
  | o :: r => op_cost s idx o + ops_cost s (exec_op s idx o) r
  end.

(** look-ahead discipline of the grammar: between two bumps at most [P] peeks, each of depth <= D
    (grammar/lua: peek_next_token only, P <= 2, D = 0) *)
Fixpoint lookahead_ok (P D : nat) (budget : nat) (ops : list op) : bool :=
  match ops with
  | [] => true
  | Bump :: r => lookahead_ok P D P r
  | PeekNext :: r => match budget with 0 => false | S b => lookahead_ok P D b r end
  | PeekNth n :: r => (n <=? D) && match budget with 0 => false | S b => lookahead_ok P D b r end
  | _ :: r => lookahead_ok P D budget r
  end.
