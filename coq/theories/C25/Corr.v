(** C25/Corr.v — dynamic tie: the REAL server's selectionRange answers, compared with the model.
    If the handler obtains its offset through get_offset (as the generated table says), then for every client
    position: the answer is null exactly when the model's get_offset is Nothing (or the document is empty: no
    token), and otherwise the innermost returned range, converted back through the model, contains the model's
    offset. *)
From EV Require Import C22.Model C25.Model.
Local Open Scope N_scope.

Record case := {
  c_text : text;
  c_obs : list ((N * N) * option ((N * N) * (N * N)))   (* position, innermost selection range or null *)
}.

Definition check_obs (t : text) (ob : (N * N) * option ((N * N) * (N * N))) : bool :=
  let '((l, c), r) := ob in
  (* a line past the end: decided without unfolding get_offset (C22 [missing_line_none]); this also keeps
     huge line numbers (u32::MAX) out of the unary [nth_error] index *)
  if line_count (parse t) <=? l then match r with None => true | Some _ => false end else
  match get_offset (parse t) t l c, r with
  | Nothing, None => true
  | Val o, None => match t with [] => true | _ => false end
  | Val o, Some (p, q) =>
      match get_offset (parse t) t (fst p) (snd p), get_offset (parse t) t (fst q) (snd q) with
      | Val a, Val b => (a <=? o) && (o <=? b) && (b <=? bytes t)
      | _, _ => false
      end
  | _, _ => false
  end.

Definition check_case (c : case) : bool := forallb (check_obs (c_text c)) (c_obs c).
