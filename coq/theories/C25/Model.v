(** C25/Model.v — what every position-taking LSP handler of crates/emmylua_ls/src/handlers does with a
    client-supplied (line, character) before it touches the syntax tree.  Executable definitions only.

    Every handler has the same prologue (e.g. hover/mod.rs [hover], definition/mod.rs [definition], ...):

      let position_offset = document.get_offset(position.line as usize, position.character as usize)?;
      if position_offset > root.syntax().text_range().end() { return None; }      // the guard
      let token = match root.syntax().token_at_offset(position_offset) { ... };

    [get_offset] is C22's model of LuaDocument::get_offset / LineIndex::get_offset.
    rowan-0.16.1 cursor.rs [SyntaxNode::token_at_offset]:
      assert!(range.start() <= offset && offset <= range.end(), "Bad offset: range {:?} offset {:?}", ..)
    on the root node, whose range is [0 .. root_end).  For a lossless parse root_end = bytes t; the parser can
    be lossy (property C01: a NUL character ends the tree early), so [root_end] is a separate parameter. *)
From EV Require Export C22.Model.
From Coq Require Export String.
Local Open Scope N_scope.

(** how a call site obtains the offset it hands to rowan / to string slicing *)
Inductive source :=
| ViaGetOffset      (* let o = document.get_offset(p.line as usize, p.character as usize)? *)
| ViaRowanRange     (* document.to_rowan_range(lsp_range)? *)
| TreeInternal      (* not a client position: an offset read from the same syntax tree / index *)
| Unknown.          (* anything else *)

(** one row of the generated table (Gen/C25_Handlers.v) *)
Record site := {
  s_file : string;
  s_fn : string;
  s_source : source;
  s_lookup : bool;     (* the offset is handed to token_at_offset *)
  s_guard : bool       (* an `offset > root end => return None` test precedes the lookup *)
}.

Inductive outcome :=
| RetNone            (* the handler answers null *)
| Proceeds (o : N)   (* the handler goes on with a token lookup / slice at offset o *)
| Crash.             (* a panic: the spawned task dies, the request is never answered (C24) *)

Definition token_at_offset_ok (root_end o : N) : bool := o <=? root_end.

(** the handler prologue *)
Definition entry (guard lookup : bool) (root_end : N) (t : text) (line col : N) : outcome :=
  match get_offset (parse t) t line col with
  | Nothing => RetNone
  | Panic => Crash
  | Val o =>
      if guard && (root_end <? o) then RetNone
      else if lookup && negb (token_at_offset_ok root_end o) then Crash
      else Proceeds o
  end.

(** [LuaDocument::to_rowan_range] (vfs/document.rs): both ends through [get_offset]; a reversed range is
    rejected (TextRange::new asserts start <= end) *)
Definition to_rowan_range_checked (t : text) (p q : N * N) : res (N * N) :=
  match get_offset (parse t) t (fst p) (snd p) with
  | Val a => match get_offset (parse t) t (fst q) (snd q) with
             | Val b => if b <? a then Nothing else Val (a, b)
             | Nothing => Nothing
             | Panic => Panic
             end
  | Nothing => Nothing
  | Panic => Panic
  end.

(** range-taking handlers (document_color/mod.rs [on_document_color_presentation], document_range_formatting):
    the range is converted, then the text is sliced ([LuaDocument::get_text_slice] = &text[a..b], which panics
    off a character boundary or past the end) *)
Definition range_entry (t : text) (p q : N * N) : outcome :=
  match to_rowan_range_checked t p q with
  | Nothing => RetNone
  | Panic => Crash
  | Val (a, b) => match slice t a b with Some _ => Proceeds a | None => Crash end
  end.

(** what a table row means: an [Unknown] source may produce any offset, so it counts as a crash *)
Definition site_entry (s : site) (root_end : N) (t : text) (p q : N * N) : outcome :=
  match s_source s with
  | ViaGetOffset => entry (s_guard s) (s_lookup s) root_end t (fst p) (snd p)
  | ViaRowanRange => range_entry t p q
  | TreeInternal => RetNone     (* no client position involved; outside this property *)
  | Unknown => Crash
  end.

(** the obligation on a row: the offset comes from get_offset / to_rowan_range, and a token lookup is guarded *)
Definition site_ok (s : site) : bool :=
  match s_source s with
  | ViaGetOffset => negb (s_lookup s) || s_guard s
  | ViaRowanRange => true
  | TreeInternal => true
  | Unknown => false
  end.

(* ------------------------------------------------------------------ ranges built inside the handlers *)
(** rowan / text-size [TextRange::new(start, end)]: assert!(start.raw <= end.raw) *)
Definition text_range_new (a b : N) : outcome := if b <? a then Crash else Proceeds a.

(** why a [TextRange::new(A, B)] site is ordered (one row of the generated table [range_sites]) *)
Inductive order_kind :=
| PlusOffset      (* B is A + TextSize::from(..) *)
| ShiftedRange    (* A = r.start() + k, B = r.end() + k for one range r *)
| SameRange       (* A = r.start(), B = r.end() *)
| GuardedOrder    (* an `if A > B { return }` precedes the site, or it stands inside `if A < B {` / `if B > A {` *)
| Reviewed        (* order follows from the surrounding code; reviewed by hand, pinned to a hash of the function *)
| UnknownOrder.   (* anything else *)

Record range_site := { r_file : string; r_fn : string; r_kind : order_kind }.

Definition range_site_ok (s : range_site) : bool :=
  match r_kind s with UnknownOrder => false | _ => true end.

(** the construction at a site, given the values involved: [a], [b] arbitrary; [k] an offset; [s <= e] a rowan range *)
Definition range_site_entry (kind : order_kind) (a b k : N) : outcome :=
  match kind with
  | PlusOffset => text_range_new a (a + k)
  | ShiftedRange => text_range_new (N.min a b + k) (N.max a b + k)    (* r = [min a b, max a b) *)
  | SameRange => text_range_new (N.min a b) (N.max a b)
  | GuardedOrder => if b <? a then RetNone else text_range_new a b
  | Reviewed => if b <? a then RetNone (* excluded by the reviewed invariant *) else text_range_new a b
  | UnknownOrder => text_range_new a b
  end.
