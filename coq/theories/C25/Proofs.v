(** C25/Proofs.v — lemmas for the property theorems of C25/Props.v *)
From EV Require Import Base.TextFacts C22.Model C22.Props C25.Model.
Local Open Scope N_scope.

Lemma offset_always_valid : forall (t : text) (line col : N),
  match get_offset (parse t) t line col with
  | Val o => o <= bytes t /\ boundaryb t o = true /\ line < line_count (parse t)
  | Nothing => line_count (parse t) <= line
  | Panic => False
  end.
Proof.
  intros t line col.
  destruct (N.ltb_spec line (line_count (parse t))) as [L|L].
  - destruct (clamp_to_line t line col L) as [o [start [_ [E [_ [H1 [H2 [H3 _]]]]]]]].
    rewrite E. split; [lia|]. split; assumption.
  - rewrite (missing_line_none t line col L). exact L.
Qed.

Lemma guarded_entry_never_crashes : forall (lookup : bool) (root_end : N) (t : text) (line col : N),
  entry true lookup root_end t line col <> Crash.
Proof.
  intros lookup root_end t line col. unfold entry.
  pose proof (offset_always_valid t line col) as H.
  destruct (get_offset (parse t) t line col) as [o| |]; [|discriminate|contradiction].
  cbn [andb]. destruct (N.ltb_spec root_end o) as [G|G]; [discriminate|].
  unfold token_at_offset_ok. destruct (N.leb_spec o root_end) as [K|K]; [|lia].
  destruct lookup; discriminate.
Qed.

Lemma unguarded_entry_safe_on_lossless_tree : forall (lookup : bool) (root_end : N) (t : text) (line col : N),
  bytes t <= root_end -> entry false lookup root_end t line col <> Crash.
Proof.
  intros lookup root_end t line col R. unfold entry.
  pose proof (offset_always_valid t line col) as H.
  destruct (get_offset (parse t) t line col) as [o| |]; [|discriminate|contradiction].
  destruct H as [H _]. cbn [andb].
  unfold token_at_offset_ok. destruct (N.leb_spec o root_end) as [K|K]; [|lia].
  destruct lookup; discriminate.
Qed.

(** "local a = 1\0 local b = 2\n": the tree of the real parser ends at the NUL (root_end = 11, property C01);
    the position (1, 0) is the end of the 25-byte text *)
Definition nul_text : text :=
  [108; 111; 99; 97; 108; 32; 97; 32; 61; 32; 49; 0; 32; 108; 111; 99; 97; 108; 32; 98; 32; 61; 32; 50; 10].

Lemma unguarded_lossy_refuted : exists (root_end : N) (t : text) (line col : N),
  root_end < bytes t /\ entry false true root_end t line col = Crash.
Proof. exists 11, nul_text, 1, 0. split; vm_compute; reflexivity. Qed.

Lemma slice_boundaries : forall t a b,
  boundaryb t a = true -> boundaryb t b = true -> a <= b -> slice t a b <> None.
Proof.
  intros t a b Ha Hb L.
  destruct (boundaryb_spec _ _ Ha) as [pa [ra [_ [Ea Ba]]]].
  destruct (boundaryb_spec _ _ Hb) as [pb [rb [_ [Eb Bb]]]].
  (* pb = pa ++ s for some s *)
  assert (exists s, pb = pa ++ s) as [s Es].
  { subst a b. clear Ha Hb. revert pb rb ra t Ea Eb L.
    induction pa as [|c pa IH]; intros pb rb ra t Ea Eb L.
    - exists pb. reflexivity.
    - destruct pb as [|d pb].
      + cbn [bytes] in L. pose proof (blen_pos c). lia.
      + subst t. cbn [app] in Eb. inversion Eb as [[Ec Et]]. subst d.
        cbn [bytes] in L.
        destruct (IH pb rb ra (pa ++ ra) eq_refl Et ltac:(lia)) as [s Es].
        exists s. cbn [app]. f_equal. exact Es. }
  subst pb. rewrite <- app_assoc in Eb.
  assert (t = pa ++ s ++ rb) as Et by exact Eb.
  rewrite Et. rewrite (slice_app pa s rb a b); [discriminate|lia|].
  rewrite bytes_app in Bb. lia.
Qed.

Lemma range_entry_never_crashes : forall (t : text) (p q : N * N),
  match to_rowan_range_checked t p q with
  | Val (a, b) => a <= b /\ b <= bytes t /\ slice t a b <> None
  | Nothing => True
  | Panic => False
  end /\ range_entry t p q <> Crash.
Proof.
  intros t p q.
  assert (match to_rowan_range_checked t p q with
          | Val (a, b) => a <= b /\ b <= bytes t /\ slice t a b <> None
          | Nothing => True
          | Panic => False
          end) as H.
  { unfold to_rowan_range_checked.
    pose proof (offset_always_valid t (fst p) (snd p)) as Hp.
    pose proof (offset_always_valid t (fst q) (snd q)) as Hq.
    destruct (get_offset (parse t) t (fst p) (snd p)) as [a| |]; [|exact I|contradiction].
    destruct (get_offset (parse t) t (fst q) (snd q)) as [b| |]; [|exact I|contradiction].
    destruct (N.ltb_spec b a) as [R|R]; [exact I|].
    destruct Hp as [_ [Ba _]]. destruct Hq as [Lb [Bb _]].
    split; [exact R|]. split; [exact Lb|]. apply slice_boundaries; assumption. }
  split; [exact H|].
  unfold range_entry. destruct (to_rowan_range_checked t p q) as [[a b]| |]; [|discriminate|contradiction].
  destruct H as [_ [_ S]]. destruct (slice t a b); [discriminate|congruence].
Qed.

Lemma site_ok_safe : forall (s : site), site_ok s = true ->
  forall (root_end : N) (t : text) (p q : N * N), site_entry s root_end t p q <> Crash.
Proof.
  intros s Hs root_end t p q. unfold site_entry. unfold site_ok in Hs.
  destruct (s_source s).
  - destruct (s_guard s).
    + apply guarded_entry_never_crashes.
    + rewrite orb_false_r in Hs. apply negb_true_iff in Hs. rewrite Hs.
      unfold entry. pose proof (offset_always_valid t (fst p) (snd p)) as H.
      destruct (get_offset (parse t) t (fst p) (snd p)); [discriminate|discriminate|contradiction].
  - apply range_entry_never_crashes.
  - discriminate.
  - discriminate.
Qed.

Lemma classified_range_site_never_crashes : forall (kind : order_kind) (a b k : N),
  kind <> UnknownOrder -> range_site_entry kind a b k <> Crash.
Proof.
  intros kind a b k Hk. unfold range_site_entry, text_range_new.
  destruct kind; try contradiction;
    repeat match goal with |- context [?x <? ?y] => destruct (N.ltb_spec x y) end; try discriminate; lia.
Qed.

Lemma unknown_range_site_refuted : exists a b k, range_site_entry UnknownOrder a b k = Crash.
Proof. exists 20, 19, 0. reflexivity. Qed.
