(** C25/Props.v — property theorems only.  Each is closed by [exact] of a lemma of Proofs.v (or, for the
    generated table, by evaluating the decidable obligation on today's table). *)
From EV Require Import C22.Model C25.Model C25.Proofs Gen.C25_Handlers.
Local Open Scope N_scope.

(** Offset safety.  For EVERY text and EVERY client position, [LuaDocument::get_offset] never panics and answers
    either nothing (exactly when the line does not exist) or an offset inside the document on a character
    boundary — so neither a string slice nor rowan's range assertion can fail on it. *)
Theorem offset_always_valid : forall (t : text) (line col : N),
  match get_offset (parse t) t line col with
  | Val o => o <= bytes t /\ boundaryb t o = true /\ line < line_count (parse t)
  | Nothing => line_count (parse t) <= line
  | Panic => False
  end.
Proof. exact Proofs.offset_always_valid. Qed.

(** A handler prologue WITH the `offset > root end => None` guard never crashes, whatever the position and
    whatever the extent of the syntax tree (even when the parser lost the tail of the text, property C01). *)
Theorem guarded_entry_never_crashes : forall (lookup : bool) (root_end : N) (t : text) (line col : N),
  entry true lookup root_end t line col <> Crash.
Proof. exact Proofs.guarded_entry_never_crashes. Qed.

(** Without the guard the prologue is safe only if the tree covers the whole text ... *)
Theorem unguarded_entry_safe_on_lossless_tree : forall (lookup : bool) (root_end : N) (t : text) (line col : N),
  bytes t <= root_end -> entry false lookup root_end t line col <> Crash.
Proof. exact Proofs.unguarded_entry_safe_on_lossless_tree. Qed.

(** ... and it does crash when the tree is shorter than the text (the document with a NUL character, replayed on
    the real server: selectionRange / inlineValue / codeAction got no response before the fix). *)
Theorem unguarded_lossy_refuted : exists (root_end : N) (t : text) (line col : N),
  root_end < bytes t /\ entry false true root_end t line col = Crash.
Proof. exact Proofs.unguarded_lossy_refuted. Qed.

(** Range-taking handlers: [to_rowan_range] yields an ordered in-document range on character boundaries or
    nothing (reversed ranges are rejected), and slicing the text by it cannot panic. *)
Theorem range_entry_never_crashes : forall (t : text) (p q : N * N),
  match to_rowan_range_checked t p q with
  | Val (a, b) => a <= b /\ b <= bytes t /\ slice t a b <> None
  | Nothing => True
  | Panic => False
  end /\ range_entry t p q <> Crash.
Proof. exact Proofs.range_entry_never_crashes. Qed.

(** The table regenerated from today's source: every site obtains its offset through get_offset /
    to_rowan_range (or from the tree itself), and every token lookup on a client offset is guarded. *)
Theorem all_sites_ok : forallb site_ok sites = true.
Proof. vm_compute. reflexivity. Qed.

(** Hence no site of today's handlers can crash on any client position or range, for any text and any tree extent. *)
Theorem all_sites_safe : forall (s : site), In s sites ->
  forall (root_end : N) (t : text) (p q : N * N), site_entry s root_end t p q <> Crash.
Proof.
  intros s Hin. apply Proofs.site_ok_safe.
  exact (proj1 (forallb_forall site_ok sites) all_sites_ok s Hin).
Qed.

(** Ranges built inside the handlers.  [TextRange::new(A, B)] asserts A <= B; a site classified as end = start +
    size, both ends of one range (shifted or not), or guarded by an explicit order test cannot crash for any
    values; [Reviewed] sites carry a hand-checked invariant A <= B (trusted, pinned to a hash of the function). *)
Theorem classified_range_site_never_crashes : forall (kind : order_kind) (a b k : N),
  kind <> UnknownOrder -> range_site_entry kind a b k <> Crash.
Proof. exact Proofs.classified_range_site_never_crashes. Qed.

(** ... while an unclassified construction can (the completion range (start+1, end-1) of a lone opening quote:
    20..19, found by the search and fixed). *)
Theorem unknown_range_site_refuted : exists a b k, range_site_entry UnknownOrder a b k = Crash.
Proof. exact Proofs.unknown_range_site_refuted. Qed.

(** today's table of every TextRange::new site under handlers/: none is unclassified *)
Theorem all_range_sites_ok : forallb range_site_ok range_sites = true.
Proof. vm_compute. reflexivity. Qed.

Theorem all_range_sites_safe : forall (s : range_site), In s range_sites ->
  forall (a b k : N), range_site_entry (r_kind s) a b k <> Crash.
Proof.
  intros s Hin a b k. apply Proofs.classified_range_site_never_crashes.
  pose proof (proj1 (forallb_forall range_site_ok range_sites) all_range_sites_ok s Hin) as H.
  unfold range_site_ok in H. destruct (r_kind s); try discriminate; congruence.
Qed.

(** non-vacuity: a text with an astral character, CRLF and no trailing newline; positions inside the surrogate
    pair, past the end of a line, past the end of the document, at column u32::MAX; a reversed range *)
Example entry_example :
  let t := [97; 128512; 98; 13; 10; 99; 100] in
  entry true true (bytes t) t 0 2 = Proceeds 1 /\ entry true true (bytes t) t 0 3 = Proceeds 5
  /\ entry true true (bytes t) t 0 4294967295 = Proceeds 7 /\ entry true true (bytes t) t 1 100 = Proceeds 10
  /\ entry true true (bytes t) t 2 0 = RetNone /\ entry true true (bytes t) t 7 4294967295 = RetNone
  /\ entry true true 3 t 1 0 = RetNone /\ entry false true 3 t 1 0 = Crash
  /\ range_entry t (0, 1) (1, 2) = Proceeds 1 /\ range_entry t (1, 2) (0, 1) = RetNone
  /\ (exists s, In s sites /\ s_source s = ViaGetOffset /\ s_lookup s = true)
  /\ (exists s, In s sites /\ s_source s = ViaRowanRange).
Proof.
  cbv zeta. repeat (split; [vm_compute; reflexivity|]).
  split.
  - assert (existsb (fun s => match s_source s with ViaGetOffset => s_lookup s | _ => false end) sites = true) as H
      by (vm_compute; reflexivity).
    apply existsb_exists in H. destruct H as [s [Hin Hs]]. exists s. split; [exact Hin|].
    destruct (s_source s); try discriminate. split; [reflexivity|exact Hs].
  - assert (existsb (fun s => match s_source s with ViaRowanRange => true | _ => false end) sites = true) as H
      by (vm_compute; reflexivity).
    apply existsb_exists in H. destruct H as [s [Hin Hs]]. exists s. split; [exact Hin|].
    destruct (s_source s); try discriminate. reflexivity.
Qed.
