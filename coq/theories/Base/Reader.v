(** Base/Reader.v — model of [crates/emmylua_parser/src/text/reader.rs] (struct [Reader]).
    A reader walks over a text (list of code points).  [r_rest] is the part of [chars] not yet moved
    into the buffer: [current] is its head, [next] the element after it; both are ['\0'] past the end.
    End of input is decided by POSITION ([is_eof], after the repair of the ['\0'] sentinel); the
    original sentinel test is kept as [is_eof_orig]/[bump_orig] for the refutation of the old code.
    Executable definitions only. *)
From EV Require Export Base.Text.
Local Open Scope N_scope.

Definition EOF : cp := 0.

Record reader : Type := {
  r_total : N;      (* text.len() *)
  r_start : N;      (* valid_range.start_offset *)
  r_pos : N;        (* current_buffer_byte_pos *)
  r_len : N;        (* current_buffer_byte_len *)
  r_prev : cp;
  r_buf : text;     (* the characters of the current buffer, i.e. [current_text()] = text[pos .. pos+len] *)
  r_rest : text     (* current :: next :: chars *)
}.

(** [Reader::new_with_range(text, range)] *)
Definition reader_new_at (t : text) (start : N) : reader :=
  {| r_total := bytes t; r_start := start; r_pos := 0; r_len := 0; r_prev := EOF; r_buf := []; r_rest := t |}.

(** [Reader::new] *)
Definition reader_new (t : text) : reader := reader_new_at t 0.

Definition current_char (r : reader) : cp := match r_rest r with c :: _ => c | [] => EOF end.
Definition next_char (r : reader) : cp := match r_rest r with _ :: c :: _ => c | _ => EOF end.
Definition prev_char (r : reader) : cp := r_prev r.

(** [fn is_eof]: [current_buffer_byte_pos + current_buffer_byte_len >= text.len()] *)
Definition is_eof (r : reader) : bool := r_total r <=? r_pos r + r_len r.

(** [fn bump] *)
Definition bump (r : reader) : reader :=
  if is_eof r then r
  else {| r_total := r_total r; r_start := r_start r; r_pos := r_pos r;
          r_len := r_len r + blen (current_char r);
          r_prev := current_char r;
          r_buf := r_buf r ++ [current_char r];
          r_rest := tl (r_rest r) |}.

(** [fn reset_buff] *)
Definition reset_buff (r : reader) : reader :=
  {| r_total := r_total r; r_start := r_start r; r_pos := r_pos r + r_len r; r_len := 0;
     r_prev := r_prev r; r_buf := []; r_rest := r_rest r |}.

(** [fn current_text] *)
Definition current_text (r : reader) : text := r_buf r.

(** [fn current_range] as (start_offset, length) *)
Definition current_range (r : reader) : N * N := (r_start r + r_pos r, r_len r).

(** [fn is_start_of_line] *)
Definition is_start_of_line (r : reader) : bool := r_pos r =? 0.

(** [fn get_current_end_pos] *)
Definition current_end_pos (r : reader) : N := r_pos r + r_len r.

(** [while !self.is_eof() && func(self.current_char()) { count += 1; self.bump(); }];
    structural on a copy of the unread part (each iteration moves one character) *)
Fixpoint eat_while_go (p : cp -> bool) (fuel : text) (r : reader) (count : N) : reader * N :=
  match fuel with
  | [] => (r, count)
  | _ :: fuel' => if negb (is_eof r) && p (current_char r)
                  then eat_while_go p fuel' (bump r) (count + 1)
                  else (r, count)
  end.

(** [fn eat_while] *)
Definition eat_while (p : cp -> bool) (r : reader) : reader * N := eat_while_go p (r_rest r) r 0.

(** [fn eat_when] *)
Definition eat_when (ch : cp) (r : reader) : reader * N := eat_while (N.eqb ch) r.

(** [fn eat_till_end] *)
Definition eat_till_end (r : reader) : reader * N := eat_while (fun _ => true) r.

(** [fn consume_n_times] *)
Fixpoint consume_n_go (p : cp -> bool) (fuel : text) (r : reader) (eaten limit : N) : reader * N :=
  match fuel with
  | [] => (r, eaten)
  | _ :: fuel' => if negb (is_eof r) && p (current_char r) && (eaten <? limit)
                  then consume_n_go p fuel' (bump r) (eaten + 1) limit
                  else (r, eaten)
  end.
Definition consume_n_times (p : cp -> bool) (limit : N) (r : reader) : reader * N :=
  consume_n_go p (r_rest r) r 0 limit.
Definition consume_char_n_times (ch : cp) (limit : N) (r : reader) : reader * N :=
  consume_n_times (N.eqb ch) limit r.

(** the original code (before the repair): EOF is the ['\0'] sentinel *)
Definition is_eof_orig (r : reader) : bool := current_char r =? EOF.
Definition bump_orig (r : reader) : reader :=
  if current_char r =? EOF then r
  else {| r_total := r_total r; r_start := r_start r; r_pos := r_pos r;
          r_len := r_len r + blen (current_char r); r_prev := current_char r; r_buf := r_buf r ++ [current_char r];
          r_rest := tl (r_rest r) |}.

(** well-formedness: the three parts account for the whole text *)
Definition reader_wf (r : reader) : Prop := r_pos r + r_len r + bytes (r_rest r) = r_total r.
