(** Base/TextFacts.v — generic lemmas about [bytes], [take_bytes], [drop_bytes], [slice],
    [boundaryb]. *)
From EV Require Export Base.Text.
Local Open Scope N_scope.

Lemma blen_pos : forall c, 1 <= blen c.
Proof.
  intros c. unfold blen.
  destruct (c <? 128); [lia|]. destruct (c <? 2048); [lia|]. destruct (c <? 65536); lia.
Qed.

Lemma u16len_pos : forall c, 1 <= u16len c.
Proof. intros c. unfold u16len. destruct (c <? 65536); lia. Qed.

Lemma ascii_blen : forall c, (c <? 128) = true -> blen c = 1.
Proof. intros c H. unfold blen. rewrite H. reflexivity. Qed.

Lemma ascii_u16len : forall c, (c <? 128) = true -> u16len c = 1.
Proof.
  intros c H. unfold u16len. apply N.ltb_lt in H.
  destruct (N.ltb_spec c 65536); [reflexivity|lia].
Qed.

Lemma bytes_app : forall p r, bytes (p ++ r) = bytes p + bytes r.
Proof.
  induction p as [|c p IH]; intros r; cbn [app bytes]; [lia|]. rewrite IH. lia.
Qed.

Lemma u16s_app : forall p r, u16s (p ++ r) = u16s p + u16s r.
Proof.
  induction p as [|c p IH]; intros r; cbn [app u16s]; [lia|]. rewrite IH. lia.
Qed.

Lemma all_ascii_app : forall p r, all_ascii (p ++ r) = all_ascii p && all_ascii r.
Proof. intros p r. unfold all_ascii. apply forallb_app. Qed.

Lemma all_ascii_bytes : forall s, all_ascii s = true -> bytes s = u16s s.
Proof.
  induction s as [|c s IH]; intros H; [reflexivity|].
  cbn [all_ascii forallb] in H. apply andb_true_iff in H. destruct H as [Hc Hs].
  cbn [bytes u16s]. rewrite (ascii_blen _ Hc), (ascii_u16len _ Hc).
  fold (all_ascii s) in Hs. rewrite (IH Hs). reflexivity.
Qed.

Lemma take_bytes_0 : forall t, take_bytes t 0 = Some [].
Proof. destruct t; reflexivity. Qed.

Lemma drop_bytes_0 : forall t, drop_bytes t 0 = Some t.
Proof. destruct t; reflexivity. Qed.

Lemma take_bytes_app : forall p r, take_bytes (p ++ r) (bytes p) = Some p.
Proof.
  induction p as [|c p IH]; intros r.
  - cbn [app bytes]. apply take_bytes_0.
  - cbn [app bytes take_bytes]. pose proof (blen_pos c) as Hc.
    destruct (N.eqb_spec (blen c + bytes p) 0) as [E|_]; [lia|].
    destruct (N.ltb_spec (blen c + bytes p) (blen c)) as [E|_]; [lia|].
    replace (blen c + bytes p - blen c) with (bytes p) by lia.
    rewrite IH. reflexivity.
Qed.

Lemma drop_bytes_app : forall p r, drop_bytes (p ++ r) (bytes p) = Some r.
Proof.
  induction p as [|c p IH]; intros r.
  - cbn [app bytes]. apply drop_bytes_0.
  - cbn [app bytes drop_bytes]. pose proof (blen_pos c) as Hc.
    destruct (N.eqb_spec (blen c + bytes p) 0) as [E|_]; [lia|].
    destruct (N.ltb_spec (blen c + bytes p) (blen c)) as [E|_]; [lia|].
    replace (blen c + bytes p - blen c) with (bytes p) by lia.
    apply IH.
Qed.

Lemma slice_app : forall p s r a b,
  a = bytes p -> b = bytes p + bytes s -> slice (p ++ s ++ r) a b = Some s.
Proof.
  intros p s r a b -> ->. unfold slice.
  destruct (N.ltb_spec (bytes p + bytes s) (bytes p)) as [E|_]; [lia|].
  rewrite drop_bytes_app.
  replace (bytes p + bytes s - bytes p) with (bytes s) by lia.
  apply take_bytes_app.
Qed.

Lemma take_bytes_spec : forall t o p,
  take_bytes t o = Some p -> exists r, t = p ++ r /\ bytes p = o.
Proof.
  induction t as [|c t IH]; intros o p H; cbn [take_bytes] in H.
  - destruct (N.eqb_spec o 0) as [E|E]; [|discriminate].
    inversion H; subst. exists []. split; reflexivity.
  - destruct (N.eqb_spec o 0) as [E|E].
    + inversion H; subst. exists (c :: t). split; reflexivity.
    + destruct (N.ltb_spec o (blen c)) as [L|L]; [discriminate|].
      destruct (take_bytes t (o - blen c)) as [p'|] eqn:T; [|discriminate].
      inversion H; subst. destruct (IH _ _ T) as [r [E1 E2]].
      exists r. split; [cbn [app]; f_equal; exact E1|]. cbn [bytes]. lia.
Qed.

Lemma boundaryb_app : forall p r, boundaryb (p ++ r) (bytes p) = true.
Proof. intros p r. unfold boundaryb. rewrite take_bytes_app. reflexivity. Qed.

Lemma boundaryb_spec : forall t o,
  boundaryb t o = true -> exists p r, take_bytes t o = Some p /\ t = p ++ r /\ bytes p = o.
Proof.
  intros t o H. unfold boundaryb in H.
  destruct (take_bytes t o) as [p|] eqn:T; [|discriminate].
  destruct (take_bytes_spec _ _ _ T) as [r [E1 E2]].
  exists p, r. split; [reflexivity|]. split; assumption.
Qed.
