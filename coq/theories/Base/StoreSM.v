(** Base/StoreSM.v — per-file fact stores as state machines (used by C08, C09, C10).

    A store is one index of [DbIndex] (or their product) with the operations the analysis driver uses:
    [s_add f x] = the index writes the analyzers perform for file [f] whose facts are [x];
    [s_remove f] = [LuaIndex::remove]; [s_clear] = [LuaIndex::clear]; [s_obs] = the results of the index's queries;
    [s_mentions] = "some stored entry carries file id f"; [s_size] = the entry counts of its containers.

    The driver ([EmmyLuaAnalysis]) is modelled on top: [HUpdate f x] = [update_file_by_uri] = remove_index;update_index,
    [HRemove f] = [remove_file_by_uri], [HReindex] = [reindex] = clear_index ; update_index(all files of the Vfs in
    file-id order).  Facts are an input of the model (the part of the analysis that reads other files' facts while
    analysing one file is outside it).

    A [refinement] relates the concrete store with the ordered list of (file, facts) pairs currently indexed; the
    generic theorems below reduce C08/C09/C10 to it. *)
From Coq Require Import List NArith Bool Lia.
Import ListNotations.
Local Open Scope N_scope.

Section StoreSM.
  Variables (St F Q O : Type).

  Record store := mkStore {
    s_init : St;
    s_add : N -> F -> St -> St;
    s_remove : N -> St -> St;
    s_clear : St -> St;
    s_obs : St -> Q -> O;
    s_mentions : St -> N -> bool;
    s_size : St -> list N
  }.

  Variable S : store.

  Definition alist := list (N * F).
  Definition keys (a : alist) : list N := map fst a.
  Definition al_remove (f : N) (a : alist) : alist := filter (fun gy => negb (fst gy =? f)) a.

  (** the Vfs: file -> facts, in file-id order ([Vfs::get_all_file_ids]).  A path keeps its id while it is in the
      Vfs (its text is replaced in place) and gets a new, larger id when it is added again after a removal, so the
      id order is the order of registration: replace in place, or append. *)
  Fixpoint live_put (f : N) (x : F) (l : alist) : alist :=
    match l with
    | [] => [(f, x)]
    | (g, y) :: r => if f =? g then (f, x) :: r else (g, y) :: live_put f x r
    end.

  Inductive hop := HUpdate (f : N) (x : F) | HRemove (f : N) | HReindex.

  Definition add_all (l : alist) (s : St) : St := fold_left (fun s fx => s_add S (fst fx) (snd fx) s) l s.

  Definition hstep (st : St * alist) (o : hop) : St * alist :=
    let '(s, live) := st in
    match o with
    | HUpdate f x => (s_add S f x (s_remove S f s), live_put f x live)
    | HRemove f => (s_remove S f s, al_remove f live)
    | HReindex => (add_all live (s_clear S s), live)
    end.

  Definition hrun (ops : list hop) : St * alist := fold_left hstep ops (s_init S, []).
  Definition state (ops : list hop) : St := fst (hrun ops).
  Definition vfs (ops : list hop) : alist := snd (hrun ops).

  (** a fresh analysis of the files in [live], loaded in file-id order *)
  Definition fresh (live : alist) : St := add_all live (s_init S).

  (** the abstract run: which (file, facts) pairs are indexed, in the order they were last submitted *)
  Definition astep (st : alist * alist) (o : hop) : alist * alist :=
    let '(a, live) := st in
    match o with
    | HUpdate f x => (al_remove f a ++ [(f, x)], live_put f x live)
    | HRemove f => (al_remove f a, al_remove f live)
    | HReindex => (live, live)
    end.
  Definition arun (ops : list hop) : alist * alist := fold_left astep ops ([], []).
  Definition indexed (ops : list hop) : alist := fst (arun ops).

  (** the history with every operation on file [f] deleted *)
  Definition about (f : N) (o : hop) : bool :=
    match o with HUpdate g _ => g =? f | HRemove g => g =? f | HReindex => false end.
  Definition without (f : N) (ops : list hop) : list hop := filter (fun o => negb (about f o)) ops.

  Record refinement := mkRef {
    r_R : St -> alist -> Prop;
    r_obs : alist -> Q -> O;
    r_size : alist -> list N;
    r_excl : alist -> N -> Prop;    (* the keys file f contributes to have no contribution from another file *)
    r_init : r_R (s_init S) [];
    r_add : forall s a f x, r_R s a -> ~ In f (keys a) -> NoDup (keys a) -> r_R (s_add S f x s) (a ++ [(f, x)]);
    r_remove : forall s a f, r_R s a -> NoDup (keys a) -> r_R (s_remove S f s) (al_remove f a);
    r_clear : forall s a, r_R s a -> r_R (s_clear S s) [];
    r_obs_eq : forall s a q, r_R s a -> s_obs S s q = r_obs a q;
    r_size_eq : forall s a, r_R s a -> s_size S s = r_size a;
    r_mentions : forall s a f, r_R s a -> ~ In f (keys a) -> s_mentions S s f = false;
    r_move_obs : forall a f x q, NoDup (keys a) -> In (f, x) a -> r_excl a f ->
                   r_obs (al_remove f a ++ [(f, x)]) q = r_obs a q;
    r_move_size : forall a f x, NoDup (keys a) -> In (f, x) a ->
                   r_size (al_remove f a ++ [(f, x)]) = r_size a
  }.

  (** ---- list facts ---- *)
  Lemma in_al_remove : forall f a g y, In (g, y) (al_remove f a) <-> In (g, y) a /\ g <> f.
  Proof.
    intros f a g y. unfold al_remove. rewrite filter_In. cbn [fst]. split; intros [H1 H2]; split; auto.
    - destruct (N.eqb_spec g f); [discriminate | assumption].
    - destruct (N.eqb_spec g f); [contradiction | reflexivity].
  Qed.

  Lemma keys_al_remove : forall f a, keys (al_remove f a) = filter (fun g => negb (g =? f)) (keys a).
  Proof.
    intros f a. unfold keys, al_remove. induction a as [|[g y] a IH]; cbn [filter map fst]; [reflexivity|].
    destruct (negb (g =? f)); cbn [map fst]; rewrite IH; reflexivity.
  Qed.

  Lemma notin_al_remove : forall f a, ~ In f (keys (al_remove f a)).
  Proof.
    intros f a H. rewrite keys_al_remove in H. apply filter_In in H. destruct H as [_ H].
    rewrite N.eqb_refl in H. discriminate.
  Qed.

  Lemma nodup_filter : forall A (p : A -> bool) l, NoDup l -> NoDup (filter p l).
  Proof.
    induction l as [|x l IH]; intro H; cbn [filter]; [constructor|].
    inversion H as [|? ? Hx Hl]; subst. destruct (p x); [|auto].
    constructor; [|auto]. intro Hin. apply filter_In in Hin. tauto.
  Qed.

  Lemma nodup_al_remove : forall f a, NoDup (keys a) -> NoDup (keys (al_remove f a)).
  Proof. intros f a H. rewrite keys_al_remove. apply nodup_filter. exact H. Qed.

  Lemma nodup_snoc : forall A (x : A) l, NoDup l -> ~ In x l -> NoDup (l ++ [x]).
  Proof.
    induction l as [|y l IH]; cbn [app]; intros Hnd Hnotin.
    - constructor; [intros [] | constructor].
    - inversion Hnd as [|? ? Hy Hnd']; subst. constructor.
      + intro Hin. apply in_app_or in Hin. destruct Hin as [Hin|[Heq|[]]].
        * exact (Hy Hin).
        * apply Hnotin. left. symmetry. exact Heq.
      + apply IH; [exact Hnd' | intro Hin; apply Hnotin; right; exact Hin].
  Qed.

  Lemma nodup_resubmit : forall f x a, NoDup (keys a) -> NoDup (keys (al_remove f a ++ [(f, x)])).
  Proof.
    intros f x a H. unfold keys. rewrite map_app. cbn [map fst].
    apply nodup_snoc; [apply nodup_al_remove; exact H | apply notin_al_remove].
  Qed.

  Lemma al_remove_id : forall f a, ~ In f (keys a) -> al_remove f a = a.
  Proof.
    intros f a. unfold al_remove, keys. induction a as [|[g y] a IH]; intro H; cbn [filter fst]; [reflexivity|].
    destruct (N.eqb_spec g f) as [->|_]; cbn [negb].
    - exfalso. apply H. left. reflexivity.
    - f_equal. apply IH. intro Hin. apply H. right. exact Hin.
  Qed.

  Lemma al_remove_comm : forall f g a, al_remove f (al_remove g a) = al_remove g (al_remove f a).
  Proof.
    intros f g a. unfold al_remove. induction a as [|x a IH]; cbn [filter]; [reflexivity|].
    destruct (negb (fst x =? g)) eqn:Eg, (negb (fst x =? f)) eqn:Ef; cbn [filter]; rewrite ?Eg, ?Ef, IH; reflexivity.
  Qed.

  Lemma al_remove_app : forall f a b, al_remove f (a ++ b) = al_remove f a ++ al_remove f b.
  Proof. intros. unfold al_remove. apply filter_app. Qed.

  Lemma keys_live_put_in : forall f x l g, In g (keys (live_put f x l)) <-> g = f \/ In g (keys l).
  Proof.
    induction l as [|[h y] l IH]; intro g; cbn [live_put keys map fst In].
    - intuition congruence.
    - destruct (N.eqb_spec f h) as [->|Hne]; cbn [keys map fst In]; [intuition congruence|].
      fold (keys (live_put f x l)). rewrite IH. unfold keys. intuition congruence.
  Qed.

  Lemma nodup_live_put : forall f x l, NoDup (keys l) -> NoDup (keys (live_put f x l)).
  Proof.
    induction l as [|[h y] l IH]; intro H; cbn [live_put keys map fst].
    - constructor; [intros [] | constructor].
    - destruct (N.eqb_spec f h) as [->|Hne]; [exact H|].
      cbn [keys map fst] in *. inversion H as [|? ? Hh Hl]; subst. constructor; [|apply IH; exact Hl].
      intro Hin. apply (keys_live_put_in f x l h) in Hin. destruct Hin as [->|Hin]; [congruence | exact (Hh Hin)].
  Qed.

  (** removing f from the Vfs commutes with writing another file *)
  Lemma live_put_remove : forall f g x l, g <> f ->
    al_remove f (live_put g x l) = live_put g x (al_remove f l).
  Proof.
    intros f g x l Hne. unfold al_remove. induction l as [|[h y] l IH]; cbn [live_put filter fst].
    - destruct (N.eqb_spec g f); [contradiction | reflexivity].
    - destruct (N.eqb_spec g h) as [->|Hgh]; cbn [filter fst].
      + destruct (N.eqb_spec h f); [contradiction|]. cbn [negb live_put]. rewrite N.eqb_refl. reflexivity.
      + destruct (N.eqb_spec h f) as [->|Hhf]; cbn [negb].
        * exact IH.
        * cbn [live_put]. destruct (N.eqb_spec g h); [contradiction|]. f_equal. exact IH.
  Qed.

  Lemma live_put_remove_same : forall f x l, al_remove f (live_put f x l) = al_remove f l.
  Proof.
    intros f x l. unfold al_remove. induction l as [|[h y] l IH]; cbn [live_put filter fst].
    - rewrite N.eqb_refl. reflexivity.
    - destruct (N.eqb_spec f h) as [->|Hfh]; cbn [filter fst].
      + rewrite N.eqb_refl. reflexivity.
      + destruct (N.eqb_spec h f); [congruence|]. cbn [negb]. f_equal. exact IH.
  Qed.

  (** ---- the refinement is preserved by the driver ---- *)
  Variable Rf : refinement.

  Lemma nodup_app_l : forall A (l r : list A), NoDup (l ++ r) -> NoDup l.
  Proof.
    induction l as [|x l IH]; intros r H; [constructor|].
    cbn [app] in H. inversion H as [|? ? Hx Hl]; subst. constructor; [|eapply IH; exact Hl].
    intro Hin. apply Hx. apply in_or_app. left. exact Hin.
  Qed.

  Lemma add_all_R : forall l s a, r_R Rf s a -> NoDup (keys (a ++ l)) -> r_R Rf (add_all l s) (a ++ l).
  Proof.
    induction l as [|[f x] l IH]; intros s a HR Hnd; cbn [add_all fold_left].
    - rewrite app_nil_r. exact HR.
    - change (fold_left _ l ?s0) with (add_all l s0).
      replace (a ++ (f, x) :: l) with ((a ++ [(f, x)]) ++ l) in * by (rewrite <- app_assoc; reflexivity).
      apply IH; [|exact Hnd].
      unfold keys in Hnd. rewrite !map_app in Hnd. cbn [map fst] in Hnd.
      apply nodup_app_l in Hnd.
      assert (Ha : NoDup (keys a)) by (apply nodup_app_l in Hnd; exact Hnd).
      apply (r_add Rf); [exact HR | | exact Ha].
      intro Hin. apply NoDup_remove_2 in Hnd. apply Hnd. rewrite app_nil_r. exact Hin.
  Qed.

  Definition run_inv (st : St * alist) (ast : alist * alist) : Prop :=
    r_R Rf (fst st) (fst ast) /\ snd st = snd ast /\ NoDup (keys (fst ast)) /\ NoDup (keys (snd ast)).

  Lemma step_inv : forall st ast o, run_inv st ast -> run_inv (hstep st o) (astep ast o).
  Proof.
    intros [s live] [a live'] o [HR [Hl [Ha Hlive]]]. cbn [fst snd] in *. subst live'.
    destruct o as [f x|f|]; cbn [hstep astep fst snd]; unfold run_inv; cbn [fst snd].
    - split; [|split; [reflexivity | split; [apply nodup_resubmit; exact Ha | apply nodup_live_put; exact Hlive]]].
      apply (r_add Rf); [apply (r_remove Rf); assumption | apply notin_al_remove | apply nodup_al_remove; exact Ha].
    - split; [apply (r_remove Rf); assumption|]. split; [reflexivity|].
      split; apply nodup_al_remove; assumption.
    - split; [|split; [reflexivity | split; exact Hlive]].
      apply (add_all_R live (s_clear S s) []); [eapply (r_clear Rf); exact HR | exact Hlive].
  Qed.

  Lemma run_inv_fold : forall ops st ast, run_inv st ast -> run_inv (fold_left hstep ops st) (fold_left astep ops ast).
  Proof.
    induction ops as [|o ops IH]; intros st ast H; cbn [fold_left]; [exact H|].
    apply IH. apply step_inv. exact H.
  Qed.

  Lemma run_ok : forall ops, run_inv (hrun ops) (arun ops).
  Proof.
    intro ops. unfold hrun, arun. apply run_inv_fold. unfold run_inv. cbn [fst snd].
    split; [exact (r_init Rf)|]. split; [reflexivity|]. split; constructor.
  Qed.

  Lemma state_R : forall ops, r_R Rf (state ops) (indexed ops).
  Proof. intro ops. destruct (run_ok ops) as [H _]. exact H. Qed.

  Lemma indexed_nodup : forall ops, NoDup (keys (indexed ops)).
  Proof. intro ops. destruct (run_ok ops) as [_ [_ [H _]]]. exact H. Qed.

  Lemma same_abs : forall s s' a, r_R Rf s a -> r_R Rf s' a ->
    (forall q, s_obs S s q = s_obs S s' q) /\ s_size S s = s_size S s'.
  Proof.
    intros s s' a H H'. split.
    - intro q. rewrite (r_obs_eq Rf s a q H), (r_obs_eq Rf s' a q H'). reflexivity.
    - rewrite (r_size_eq Rf s a H), (r_size_eq Rf s' a H'). reflexivity.
  Qed.

  Lemma hrun_app : forall ops o, hrun (ops ++ [o]) = hstep (hrun ops) o.
  Proof. intros. unfold hrun. rewrite fold_left_app. reflexivity. Qed.

  Lemma arun_app : forall ops o, arun (ops ++ [o]) = astep (arun ops) o.
  Proof. intros. unfold arun. rewrite fold_left_app. reflexivity. Qed.

  (** ---- C09 ---- *)

  (** clearing any reachable state gives the observations and sizes of a new store *)
  Theorem clear_is_init : forall ops,
    (forall q, s_obs S (s_clear S (state ops)) q = s_obs S (s_init S) q) /\
    s_size S (s_clear S (state ops)) = s_size S (s_init S).
  Proof.
    intro ops. apply (same_abs _ _ []); [eapply (r_clear Rf); apply state_R | exact (r_init Rf)].
  Qed.

  (** after ANY history, reindex is observationally a fresh analysis of the surviving files *)
  Theorem reindex_eq_fresh : forall ops,
    (forall q, s_obs S (state (ops ++ [HReindex])) q = s_obs S (fresh (vfs (ops ++ [HReindex]))) q) /\
    s_size S (state (ops ++ [HReindex])) = s_size S (fresh (vfs (ops ++ [HReindex]))).
  Proof.
    intro ops. pose proof (run_ok (ops ++ [HReindex])) as [HR [Hl [Ha Hlive]]].
    apply (same_abs _ _ (indexed (ops ++ [HReindex]))); [exact HR|].
    unfold fresh, vfs. rewrite Hl. unfold indexed. rewrite arun_app in *.
    destruct (arun ops) as [a live]. cbn [astep fst snd] in *.
    apply (add_all_R live (s_init S) []); [exact (r_init Rf) | exact Hlive].
  Qed.

  (** ---- C10 ---- *)

  Theorem remove_no_mention : forall ops f, s_mentions S (state (ops ++ [HRemove f])) f = false.
  Proof.
    intros ops f. apply (r_mentions Rf _ (indexed (ops ++ [HRemove f]))); [apply state_R|].
    unfold indexed. rewrite arun_app. destruct (arun ops) as [a live]. cbn [astep fst]. apply notin_al_remove.
  Qed.

  Lemma astep_without : forall f o a live, about f o = false ->
    astep (al_remove f a, al_remove f live) o =
    (al_remove f (fst (astep (a, live) o)), al_remove f (snd (astep (a, live) o))).
  Proof.
    intros f o a live Ho. destruct o as [g x|g|]; cbn [about astep fst snd] in *.
    - destruct (N.eqb_spec g f) as [|Hne]; [discriminate|].
      rewrite al_remove_app, (al_remove_comm f g). cbn [al_remove filter fst].
      destruct (N.eqb_spec g f); [contradiction|]. cbn [negb]. rewrite live_put_remove by exact Hne. reflexivity.
    - rewrite !(al_remove_comm f g). reflexivity.
    - reflexivity.
  Qed.

  Lemma astep_about : forall f o a live, about f o = true ->
    al_remove f (fst (astep (a, live) o)) = al_remove f a /\ al_remove f (snd (astep (a, live) o)) = al_remove f live.
  Proof.
    intros f o a live Ho. destruct o as [g x|g|]; cbn [about astep fst snd] in *; [| |discriminate].
    - apply N.eqb_eq in Ho. subst g. split.
      + rewrite al_remove_app. cbn [al_remove filter fst]. rewrite N.eqb_refl. cbn [negb]. rewrite app_nil_r.
        apply al_remove_id. apply notin_al_remove.
      + apply live_put_remove_same.
    - apply N.eqb_eq in Ho. subst g. split; apply al_remove_id; apply notin_al_remove.
  Qed.

  Lemma arun_without : forall f ops a live,
    fold_left astep (without f ops) (al_remove f a, al_remove f live) =
    (al_remove f (fst (fold_left astep ops (a, live))), al_remove f (snd (fold_left astep ops (a, live)))).
  Proof.
    intros f. induction ops as [|o ops IH]; intros a live; cbn [without filter fold_left fst snd]; [reflexivity|].
    destruct (about f o) eqn:Ho; cbn [negb].
    - fold (without f ops). destruct (astep_about f o a live Ho) as [H1 H2].
      destruct (astep (a, live) o) as [a1 live1]. cbn [fst snd] in *. rewrite <- H1, <- H2. apply IH.
    - cbn [fold_left]. fold (without f ops). rewrite (astep_without f o a live Ho).
      destruct (astep (a, live) o) as [a1 live1]. cbn [fst snd]. apply IH.
  Qed.

  Lemma arun_without0 : forall f ops,
    arun (without f ops) = (al_remove f (fst (arun ops)), al_remove f (snd (arun ops))).
  Proof. intros f ops. exact (arun_without f ops [] []). Qed.

  (** removing a file leaves the store as if the file had never been submitted: same observations, same sizes *)
  Theorem remove_frees : forall ops f,
    (forall q, s_obs S (state (ops ++ [HRemove f])) q = s_obs S (state (without f ops)) q) /\
    s_size S (state (ops ++ [HRemove f])) = s_size S (state (without f ops)).
  Proof.
    intros ops f. apply (same_abs _ _ (indexed (ops ++ [HRemove f]))); [apply state_R|].
    replace (indexed (ops ++ [HRemove f])) with (indexed (without f ops)); [apply state_R|].
    unfold indexed. rewrite arun_app, arun_without0. destruct (arun ops) as [a live]. reflexivity.
  Qed.

  (** ---- C08 ---- *)

  (** re-submitting a file with unchanged facts: no container grows or shrinks *)
  Theorem resubmit_size : forall ops f x, In (f, x) (indexed ops) ->
    s_size S (state (ops ++ [HUpdate f x])) = s_size S (state ops).
  Proof.
    intros ops f x Hin.
    rewrite (r_size_eq Rf _ _ (state_R (ops ++ [HUpdate f x]))), (r_size_eq Rf _ _ (state_R ops)).
    unfold indexed at 1. rewrite arun_app. pose proof (indexed_nodup ops) as Hnd. unfold indexed in *.
    destruct (arun ops) as [a live]. cbn [astep fst] in *. apply (r_move_size Rf); assumption.
  Qed.

  (** ... and, when no other file contributes to the same keys, every observation is unchanged *)
  Theorem resubmit_obs : forall ops f x q, In (f, x) (indexed ops) -> r_excl Rf (indexed ops) f ->
    s_obs S (state (ops ++ [HUpdate f x])) q = s_obs S (state ops) q.
  Proof.
    intros ops f x q Hin Hex.
    rewrite (r_obs_eq Rf _ _ q (state_R (ops ++ [HUpdate f x]))), (r_obs_eq Rf _ _ q (state_R ops)).
    unfold indexed at 1. rewrite arun_app. pose proof (indexed_nodup ops) as Hnd. unfold indexed in *.
    destruct (arun ops) as [a live]. cbn [astep fst] in *. apply (r_move_obs Rf); assumption.
  Qed.

  (** editing a file and restoring its previous facts is the same as re-submitting it *)
  Theorem edit_restore : forall ops f x y,
    indexed (ops ++ [HUpdate f y; HUpdate f x]) = indexed (ops ++ [HUpdate f x]).
  Proof.
    intros ops f x y. unfold indexed, arun. rewrite !fold_left_app. cbn [fold_left].
    destruct (fold_left astep ops ([], [])) as [a live]. cbn [astep fst].
    rewrite al_remove_app. cbn [al_remove filter fst]. rewrite N.eqb_refl. cbn [negb]. rewrite app_nil_r.
    rewrite (al_remove_id f (al_remove f a)) by apply notin_al_remove. reflexivity.
  Qed.

  Theorem edit_restore_obs : forall ops f x y q, In (f, x) (indexed ops) -> r_excl Rf (indexed ops) f ->
    s_obs S (state (ops ++ [HUpdate f y; HUpdate f x])) q = s_obs S (state ops) q.
  Proof.
    intros ops f x y q Hin Hex. rewrite <- (resubmit_obs ops f x q Hin Hex).
    apply (same_abs _ _ (indexed (ops ++ [HUpdate f x]))); [|apply state_R].
    rewrite <- (edit_restore ops f x y). apply state_R.
  Qed.

  Theorem edit_restore_size : forall ops f x y, In (f, x) (indexed ops) ->
    s_size S (state (ops ++ [HUpdate f y; HUpdate f x])) = s_size S (state ops).
  Proof.
    intros ops f x y Hin. rewrite <- (resubmit_size ops f x Hin).
    apply (same_abs _ _ (indexed (ops ++ [HUpdate f x]))); [|apply state_R].
    rewrite <- (edit_restore ops f x y). apply state_R.
  Qed.
End StoreSM.
