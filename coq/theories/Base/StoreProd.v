(** Base/StoreProd.v — the product of two per-file fact stores (DbIndex = product of its indexes: [DbIndex::remove],
    [DbIndex::clear] and the analysis of a file act on every index) and of their refinements.  All generic theorems
    of Base/StoreSM.v (clear_is_init, reindex_eq_fresh, remove_no_mention, remove_frees, resubmit_obs, resubmit_size,
    edit_restore) apply to the product through [prod_refinement]. *)
From Coq Require Import List NArith Bool Lia.
From EV Require Import Base.StoreSM.
Import ListNotations.
Local Open Scope N_scope.

Section Prod.
  Variables (St1 F1 Q1 O1 St2 F2 Q2 O2 : Type).
  Variable S1 : store St1 F1 Q1 O1.
  Variable S2 : store St2 F2 Q2 O2.

  Definition prod_store : store (St1 * St2) (F1 * F2) (Q1 + Q2) (O1 + O2) :=
    mkStore _ _ _ _
      (s_init _ _ _ _ S1, s_init _ _ _ _ S2)
      (fun f x s => (s_add _ _ _ _ S1 f (fst x) (fst s), s_add _ _ _ _ S2 f (snd x) (snd s)))
      (fun f s => (s_remove _ _ _ _ S1 f (fst s), s_remove _ _ _ _ S2 f (snd s)))
      (fun s => (s_clear _ _ _ _ S1 (fst s), s_clear _ _ _ _ S2 (snd s)))
      (fun s q => match q with
                  | inl q1 => inl (s_obs _ _ _ _ S1 (fst s) q1)
                  | inr q2 => inr (s_obs _ _ _ _ S2 (snd s) q2)
                  end)
      (fun s f => s_mentions _ _ _ _ S1 (fst s) f || s_mentions _ _ _ _ S2 (snd s) f)
      (fun s => s_size _ _ _ _ S1 (fst s) ++ s_size _ _ _ _ S2 (snd s)).

  Definition p1 (a : list (N * (F1 * F2))) : list (N * F1) := map (fun fx => (fst fx, fst (snd fx))) a.
  Definition p2 (a : list (N * (F1 * F2))) : list (N * F2) := map (fun fx => (fst fx, snd (snd fx))) a.

  Lemma keys_p1 : forall a, keys _ (p1 a) = keys _ a.
  Proof. intro a. unfold keys, p1. rewrite map_map. reflexivity. Qed.
  Lemma keys_p2 : forall a, keys _ (p2 a) = keys _ a.
  Proof. intro a. unfold keys, p2. rewrite map_map. reflexivity. Qed.

  Lemma p1_remove : forall f a, p1 (al_remove _ f a) = al_remove _ f (p1 a).
  Proof.
    intros f a. unfold p1, al_remove. induction a as [|x a IH]; cbn [filter map fst]; [reflexivity|].
    destruct (negb (fst x =? f)); cbn [map]; rewrite IH; reflexivity.
  Qed.
  Lemma p2_remove : forall f a, p2 (al_remove _ f a) = al_remove _ f (p2 a).
  Proof.
    intros f a. unfold p2, al_remove. induction a as [|x a IH]; cbn [filter map fst]; [reflexivity|].
    destruct (negb (fst x =? f)); cbn [map]; rewrite IH; reflexivity.
  Qed.

  Lemma p1_snoc : forall a f x, p1 (a ++ [(f, x)]) = p1 a ++ [(f, fst x)].
  Proof. intros. unfold p1. rewrite map_app. reflexivity. Qed.
  Lemma p2_snoc : forall a f x, p2 (a ++ [(f, x)]) = p2 a ++ [(f, snd x)].
  Proof. intros. unfold p2. rewrite map_app. reflexivity. Qed.

  Lemma in_p1 : forall a f x, In (f, x) a -> In (f, fst x) (p1 a).
  Proof. intros a f x H. unfold p1. apply (in_map (fun fx => (fst fx, fst (snd fx))) a (f, x) H). Qed.
  Lemma in_p2 : forall a f x, In (f, x) a -> In (f, snd x) (p2 a).
  Proof. intros a f x H. unfold p2. apply (in_map (fun fx => (fst fx, snd (snd fx))) a (f, x) H). Qed.

  Variable R1 : refinement _ _ _ _ S1.
  Variable R2 : refinement _ _ _ _ S2.

  Definition prod_R (s : St1 * St2) (a : list (N * (F1 * F2))) : Prop :=
    r_R _ _ _ _ S1 R1 (fst s) (p1 a) /\ r_R _ _ _ _ S2 R2 (snd s) (p2 a).

  Definition prod_aobs (a : list (N * (F1 * F2))) (q : Q1 + Q2) : O1 + O2 :=
    match q with
    | inl q1 => inl (r_obs _ _ _ _ S1 R1 (p1 a) q1)
    | inr q2 => inr (r_obs _ _ _ _ S2 R2 (p2 a) q2)
    end.

  Definition prod_asize (a : list (N * (F1 * F2))) : list N :=
    r_size _ _ _ _ S1 R1 (p1 a) ++ r_size _ _ _ _ S2 R2 (p2 a).

  Definition prod_excl (a : list (N * (F1 * F2))) (f : N) : Prop :=
    r_excl _ _ _ _ S1 R1 (p1 a) f /\ r_excl _ _ _ _ S2 R2 (p2 a) f.

  Lemma prod_init : prod_R (s_init _ _ _ _ prod_store) [].
  Proof. split; [exact (r_init _ _ _ _ S1 R1) | exact (r_init _ _ _ _ S2 R2)]. Qed.

  Lemma prod_add : forall s a f x, prod_R s a -> ~ In f (keys _ a) -> NoDup (keys _ a) ->
    prod_R (s_add _ _ _ _ prod_store f x s) (a ++ [(f, x)]).
  Proof.
    intros s a f x [H1 H2] Hn Hnd. split; cbn [s_add prod_store fst snd].
    - rewrite p1_snoc. apply (r_add _ _ _ _ S1 R1); [exact H1 | rewrite keys_p1; exact Hn | rewrite keys_p1; exact Hnd].
    - rewrite p2_snoc. apply (r_add _ _ _ _ S2 R2); [exact H2 | rewrite keys_p2; exact Hn | rewrite keys_p2; exact Hnd].
  Qed.

  Lemma prod_remove : forall s a f, prod_R s a -> NoDup (keys _ a) ->
    prod_R (s_remove _ _ _ _ prod_store f s) (al_remove _ f a).
  Proof.
    intros s a f [H1 H2] Hnd. split; cbn [s_remove prod_store fst snd].
    - rewrite p1_remove. apply (r_remove _ _ _ _ S1 R1); [exact H1 | rewrite keys_p1; exact Hnd].
    - rewrite p2_remove. apply (r_remove _ _ _ _ S2 R2); [exact H2 | rewrite keys_p2; exact Hnd].
  Qed.

  Lemma prod_clear : forall s a, prod_R s a -> prod_R (s_clear _ _ _ _ prod_store s) [].
  Proof.
    intros s a [H1 H2]. split; cbn [s_clear prod_store fst snd].
    - exact (r_clear _ _ _ _ S1 R1 _ _ H1).
    - exact (r_clear _ _ _ _ S2 R2 _ _ H2).
  Qed.

  Lemma prod_obs : forall s a q, prod_R s a -> s_obs _ _ _ _ prod_store s q = prod_aobs a q.
  Proof.
    intros s a q [H1 H2]. destruct q as [q1|q2]; cbn [s_obs prod_store prod_aobs]; f_equal.
    - exact (r_obs_eq _ _ _ _ S1 R1 _ _ q1 H1).
    - exact (r_obs_eq _ _ _ _ S2 R2 _ _ q2 H2).
  Qed.

  Lemma prod_size : forall s a, prod_R s a -> s_size _ _ _ _ prod_store s = prod_asize a.
  Proof.
    intros s a [H1 H2]. cbn [s_size prod_store]. unfold prod_asize.
    rewrite (r_size_eq _ _ _ _ S1 R1 _ _ H1), (r_size_eq _ _ _ _ S2 R2 _ _ H2). reflexivity.
  Qed.

  Lemma prod_mentions : forall s a f, prod_R s a -> ~ In f (keys _ a) -> s_mentions _ _ _ _ prod_store s f = false.
  Proof.
    intros s a f [H1 H2] Hn. cbn [s_mentions prod_store].
    rewrite (r_mentions _ _ _ _ S1 R1 _ _ f H1), (r_mentions _ _ _ _ S2 R2 _ _ f H2); [reflexivity | |];
      [rewrite keys_p2 | rewrite keys_p1]; exact Hn.
  Qed.

  Lemma prod_move_obs : forall a f x q, NoDup (keys _ a) -> In (f, x) a -> prod_excl a f ->
    prod_aobs (al_remove _ f a ++ [(f, x)]) q = prod_aobs a q.
  Proof.
    intros a f x q Hnd Hin [E1 E2]. destruct q as [q1|q2]; cbn [prod_aobs]; f_equal.
    - rewrite p1_snoc, p1_remove. apply (r_move_obs _ _ _ _ S1 R1); [rewrite keys_p1; exact Hnd | apply in_p1; exact Hin | exact E1].
    - rewrite p2_snoc, p2_remove. apply (r_move_obs _ _ _ _ S2 R2); [rewrite keys_p2; exact Hnd | apply in_p2; exact Hin | exact E2].
  Qed.

  Lemma prod_move_size : forall a f x, NoDup (keys _ a) -> In (f, x) a ->
    prod_asize (al_remove _ f a ++ [(f, x)]) = prod_asize a.
  Proof.
    intros a f x Hnd Hin. unfold prod_asize. rewrite p1_snoc, p1_remove, p2_snoc, p2_remove.
    rewrite (r_move_size _ _ _ _ S1 R1) by (try rewrite keys_p1; try apply in_p1; assumption).
    rewrite (r_move_size _ _ _ _ S2 R2) by (try rewrite keys_p2; try apply in_p2; assumption).
    reflexivity.
  Qed.

  Definition prod_refinement : refinement _ _ _ _ prod_store :=
    mkRef _ _ _ _ prod_store prod_R prod_aobs prod_asize prod_excl
          prod_init prod_add prod_remove prod_clear prod_obs prod_size prod_mentions prod_move_obs prod_move_size.
End Prod.
