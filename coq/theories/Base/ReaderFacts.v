(** Base/ReaderFacts.v — lemmas about the Reader model. *)
From EV Require Import Base.Text Base.TextFacts Base.Reader.
Local Open Scope N_scope.

Lemma reader_new_wf : forall t s, reader_wf (reader_new_at t s).
Proof. intros. unfold reader_wf, reader_new_at. cbn. lia. Qed.

Lemma wf_eof_iff : forall r, reader_wf r -> (is_eof r = true <-> r_rest r = []).
Proof.
  intros r Hwf. unfold reader_wf in Hwf. unfold is_eof. split.
  - intros H. apply N.leb_le in H. destruct (r_rest r) as [|c l]; [reflexivity|].
    cbn [bytes] in Hwf. pose proof (blen_pos c). lia.
  - intros E. rewrite E in Hwf. cbn [bytes] in Hwf. apply N.leb_le. lia.
Qed.

(** one [bump]: either nothing moves (at the end), or exactly the current character moves into the buffer *)
Lemma bump_spec : forall r, reader_wf r ->
  (r_rest r = [] /\ bump r = r) \/
  (exists c rest, r_rest r = c :: rest /\ r_rest (bump r) = rest /\ r_len (bump r) = r_len r + blen c /\
                  r_pos (bump r) = r_pos r /\ r_total (bump r) = r_total r /\ r_start (bump r) = r_start r /\
                  reader_wf (bump r)).
Proof.
  intros r Hwf. unfold bump. destruct (is_eof r) eqn:E.
  - left. split; [apply wf_eof_iff; assumption|reflexivity].
  - right. destruct (r_rest r) as [|c rest] eqn:Hr.
    + assert (is_eof r = true) by (apply wf_eof_iff; assumption). congruence.
    + exists c, rest. unfold current_char. rewrite Hr. cbn.
      repeat (split; [reflexivity|]). unfold reader_wf in *. cbn. rewrite Hr in Hwf. cbn [bytes] in Hwf. lia.
Qed.

(** "moved": [r'] is [r] after moving the characters [cs] from the unread part into the buffer *)
Definition moved (r r' : reader) (cs : text) : Prop :=
  r_rest r = cs ++ r_rest r' /\ r_len r' = r_len r + bytes cs /\ r_pos r' = r_pos r /\
  r_total r' = r_total r /\ r_start r' = r_start r /\ reader_wf r'.

Lemma moved_refl : forall r, reader_wf r -> moved r r [].
Proof. intros r H. unfold moved. cbn. repeat split; auto; lia. Qed.

Lemma moved_trans : forall r1 r2 r3 a b, moved r1 r2 a -> moved r2 r3 b -> moved r1 r3 (a ++ b).
Proof.
  unfold moved. intros r1 r2 r3 a b (H1 & H2 & H3 & H4 & H5 & H6) (G1 & G2 & G3 & G4 & G5 & G6).
  repeat split; try congruence.
  - rewrite H1, G1, app_assoc. reflexivity.
  - rewrite bytes_app. lia.
Qed.

Lemma bump_moved : forall r, reader_wf r -> exists cs, moved r (bump r) cs /\ (is_eof r = false -> cs <> []).
Proof.
  intros r Hwf. destruct (bump_spec r Hwf) as [[E1 E2]|(c & rest & E1 & E2 & E3 & E4 & E5 & E6 & E7)].
  - exists []. split; [rewrite E2; apply moved_refl; assumption|].
    intros H. assert (is_eof r = true) by (apply wf_eof_iff; assumption). congruence.
  - exists [c]. split; [|discriminate]. unfold moved. rewrite E1, E2. cbn [app bytes].
    repeat split; auto. lia.
Qed.

Lemma eat_while_go_moved : forall p fuel r n, reader_wf r ->
  exists cs, moved r (fst (eat_while_go p fuel r n)) cs.
Proof.
  induction fuel as [|x fuel IH]; intros r n Hwf; cbn [eat_while_go].
  - exists []. apply moved_refl; assumption.
  - destruct (negb (is_eof r) && p (current_char r)).
    + destruct (bump_moved r Hwf) as (a & Ha & _).
      assert (Hw2 : reader_wf (bump r)) by apply Ha.
      destruct (IH (bump r) (n + 1) Hw2) as (b & Hb). exists (a ++ b). eapply moved_trans; eauto.
    + exists []. apply moved_refl; assumption.
Qed.

Lemma eat_while_moved : forall p r, reader_wf r -> exists cs, moved r (fst (eat_while p r)) cs.
Proof. intros. apply eat_while_go_moved; assumption. Qed.

Lemma reset_buff_wf : forall r, reader_wf r -> reader_wf (reset_buff r).
Proof. unfold reader_wf, reset_buff. cbn. intros. lia. Qed.
