(** Base/Json.v — [serde_json::Value] without the [preserve_order] feature.
    Executable definitions only (facts are in Base/JsonFacts.v).

    * strings / keys are texts (lists of code points); the order of [String] (bytewise on UTF-8) is the
      lexicographic order on code points ([text_cmp]);
    * numbers are integers (the generators of the checks emit integers only);
    * an object is a [BTreeMap<String, Value>]: an association list, kept key-sorted by [bt_insert];
      [bt_get] / [bt_insert] are [Map::get] / [Map::insert] (and [entry(k).or_insert(..)] + assignment);
    * a hash map ([hashbrown::HashMap], [HashSet]) is modelled where it is used: its *content* is an
      association list and its *iteration order* is an arbitrary permutation of that list. *)
From EV Require Export Base.Text.
From Coq Require Export ZArith.
Local Open Scope N_scope.

Inductive json : Type :=
| JNull
| JBool (b : bool)
| JNum (z : Z)
| JStr (s : text)
| JArr (l : list json)
| JObj (m : list (text * json)).

(** [Ord for str] *)
Fixpoint text_cmp (a b : text) : comparison :=
  match a, b with
  | [], [] => Eq
  | [], _ :: _ => Lt
  | _ :: _, [] => Gt
  | x :: a', y :: b' => match N.compare x y with Eq => text_cmp a' b' | c => c end
  end.

Definition text_eqb (a b : text) : bool :=
  match text_cmp a b with Eq => true | _ => false end.

(** [Map::get] *)
Fixpoint bt_get (k : text) (m : list (text * json)) : option json :=
  match m with
  | [] => None
  | (k', v) :: r => if text_eqb k k' then Some v else bt_get k r
  end.

(** [Map::insert] (replaces the value of an existing key, keeps the keys sorted) *)
Fixpoint bt_insert (k : text) (v : json) (m : list (text * json)) : list (text * json) :=
  match m with
  | [] => [(k, v)]
  | (k', v') :: r =>
      match text_cmp k k' with
      | Lt => (k, v) :: m
      | Eq => (k, v) :: r
      | Gt => (k', v') :: bt_insert k v r
      end
  end.

Definition is_obj (v : json) : bool := match v with JObj _ => true | _ => false end.
Definition is_arr (v : json) : bool := match v with JArr _ => true | _ => false end.

(** [PartialEq for Value] *)
Fixpoint json_eqb (a b : json) : bool :=
  match a, b with
  | JNull, JNull => true
  | JBool x, JBool y => Bool.eqb x y
  | JNum x, JNum y => Z.eqb x y
  | JStr x, JStr y => text_eqb x y
  | JArr x, JArr y =>
      (fix go (x y : list json) : bool :=
         match x, y with
         | [], [] => true
         | a :: x', b :: y' => json_eqb a b && go x' y'
         | _, _ => false
         end) x y
  | JObj x, JObj y =>
      (fix go (x y : list (text * json)) : bool :=
         match x, y with
         | [], [] => true
         | (k, a) :: x', (k', b) :: y' => text_eqb k k' && json_eqb a b && go x' y'
         | _, _ => false
         end) x y
  | _, _ => false
  end.

Fixpoint json_mem (x : json) (l : list json) : bool :=
  match l with [] => false | y :: r => json_eqb x y || json_mem x r end.

(** [Value::get(&str)] : only objects have members *)
Definition val_get (v : json) (k : text) : option json :=
  match v with JObj m => bt_get k m | _ => None end.

(** path lookup in a nested value *)
Fixpoint lookup (ks : list text) (v : json) : option json :=
  match ks with
  | [] => Some v
  | k :: r => match val_get v k with Some x => lookup r x | None => None end
  end.
