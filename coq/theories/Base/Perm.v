(** Base/Perm.v — permutation invariance.
    - folds over a permutation with a commutative step;
    - total orders given by a [comparison] function, closed under pairs, options and lists
      (Rust's derived / lexicographic [Ord]);
    - a stable insertion sort, and uniqueness of sorting: two permutations of the same items
      with pairwise distinct keys sort to the same list, whatever the sorting algorithm;
    - [dedup] (Rust's [Vec::dedup_by]) on a sorted list keeps one item per key.
    Hash-map iteration is modelled as "some permutation of the entries". *)
From Coq Require Import List NArith Lia Bool Permutation Sorting.Sorted.
Import ListNotations.

(** * folds *)
Section Fold.
  Variables (A B : Type) (f : A -> B -> A).
  Hypothesis f_comm : forall a x y, f (f a x) y = f (f a y) x.

  Lemma fold_left_perm : forall l l', Permutation l l' -> forall a, fold_left f l a = fold_left f l' a.
  Proof.
    induction 1; intros a; cbn [fold_left].
    - reflexivity.
    - apply IHPermutation.
    - rewrite f_comm. reflexivity.
    - rewrite IHPermutation1. apply IHPermutation2.
  Qed.
End Fold.

(** * total orders *)
Record total_order {K : Type} (cmp : K -> K -> comparison) : Prop := {
  to_eq : forall x y, cmp x y = Eq -> x = y;
  to_refl : forall x, cmp x x = Eq;
  to_antisym : forall x y, cmp y x = CompOpp (cmp x y);
  to_trans : forall x y z, cmp x y = Lt -> cmp y z = Lt -> cmp x z = Lt
}.

Lemma N_total_order : total_order N.compare.
Proof.
  split.
  - intros x y H. apply N.compare_eq_iff. exact H.
  - intros x. apply N.compare_refl.
  - intros x y. apply N.compare_antisym.
  - intros x y z H1 H2.
    pose proof (proj1 (N.compare_lt_iff x y) H1) as L1. pose proof (proj1 (N.compare_lt_iff y z) H2) as L2.
    apply (proj2 (N.compare_lt_iff x z)). lia.
Qed.

Definition bool_cmp (a b : bool) : comparison :=
  match a, b with
  | false, true => Lt
  | true, false => Gt
  | _, _ => Eq
  end.

Lemma bool_total_order : total_order bool_cmp.
Proof.
  split.
  - intros [|] [|]; cbn; intros H; try discriminate; reflexivity.
  - intros [|]; reflexivity.
  - intros [|] [|]; reflexivity.
  - intros [|] [|] [|]; cbn; intros; try discriminate; reflexivity.
Qed.

Definition pair_cmp {A B : Type} (ca : A -> A -> comparison) (cb : B -> B -> comparison)
  (x y : A * B) : comparison :=
  match ca (fst x) (fst y) with
  | Eq => cb (snd x) (snd y)
  | c => c
  end.

(** Rust: [None < Some _] *)
Definition opt_cmp {A : Type} (c : A -> A -> comparison) (x y : option A) : comparison :=
  match x, y with
  | None, None => Eq
  | None, Some _ => Lt
  | Some _, None => Gt
  | Some a, Some b => c a b
  end.

(** Rust: lexicographic comparison of slices / strings *)
Fixpoint list_cmp {A : Type} (c : A -> A -> comparison) (x y : list A) : comparison :=
  match x, y with
  | [], [] => Eq
  | [], _ :: _ => Lt
  | _ :: _, [] => Gt
  | a :: x', b :: y' => match c a b with Eq => list_cmp c x' y' | r => r end
  end.

Lemma pair_total_order : forall A B (ca : A -> A -> comparison) (cb : B -> B -> comparison),
  total_order ca -> total_order cb -> total_order (pair_cmp ca cb).
Proof.
  intros A B ca cb Ha Hb. split.
  - intros [a b] [a' b']; unfold pair_cmp; cbn [fst snd]. intros H.
    destruct (ca a a') eqn:E; try discriminate.
    apply (to_eq _ Ha) in E. apply (to_eq _ Hb) in H. subst. reflexivity.
  - intros [a b]; unfold pair_cmp; cbn [fst snd]. rewrite (to_refl _ Ha). apply (to_refl _ Hb).
  - intros [a b] [a' b']; unfold pair_cmp; cbn [fst snd].
    rewrite (to_antisym _ Ha a a'). destruct (ca a a'); cbn [CompOpp]; try reflexivity.
    apply (to_antisym _ Hb).
  - intros [a b] [a' b'] [a'' b'']; unfold pair_cmp; cbn [fst snd]. intros H1 H2.
    destruct (ca a a') eqn:E1; try discriminate; destruct (ca a' a'') eqn:E2; try discriminate.
    + apply (to_eq _ Ha) in E1. apply (to_eq _ Ha) in E2. subst. rewrite (to_refl _ Ha).
      eapply (to_trans _ Hb); eassumption.
    + apply (to_eq _ Ha) in E1. subst. rewrite E2. reflexivity.
    + apply (to_eq _ Ha) in E2. subst. rewrite E1. reflexivity.
    + rewrite (to_trans _ Ha _ _ _ E1 E2). reflexivity.
Qed.

Lemma opt_total_order : forall A (c : A -> A -> comparison), total_order c -> total_order (opt_cmp c).
Proof.
  intros A c H. split.
  - intros [a|] [b|]; cbn; intros E; try discriminate; [|reflexivity].
    apply (to_eq _ H) in E. subst. reflexivity.
  - intros [a|]; cbn; [apply (to_refl _ H)|reflexivity].
  - intros [a|] [b|]; cbn; try reflexivity. apply (to_antisym _ H).
  - intros [a|] [b|] [d|]; cbn; intros H1 H2; try discriminate; try reflexivity.
    eapply (to_trans _ H); eassumption.
Qed.

Lemma list_total_order : forall A (c : A -> A -> comparison), total_order c -> total_order (list_cmp c).
Proof.
  intros A c H. split.
  - induction x as [|a x IH]; intros [|b y]; cbn [list_cmp]; intros E; try discriminate; [reflexivity|].
    destruct (c a b) eqn:E1; try discriminate.
    apply (to_eq _ H) in E1. subst. f_equal. apply IH. exact E.
  - induction x as [|a x IH]; cbn [list_cmp]; [reflexivity|]. rewrite (to_refl _ H). exact IH.
  - induction x as [|a x IH]; intros [|b y]; cbn [list_cmp]; try reflexivity.
    rewrite (to_antisym _ H a b). destruct (c a b); cbn [CompOpp]; try reflexivity. apply IH.
  - induction x as [|a x IH]; intros [|b y] [|d z]; cbn [list_cmp]; intros H1 H2; try discriminate; try reflexivity.
    destruct (c a b) eqn:E1; try discriminate; destruct (c b d) eqn:E2; try discriminate.
    + apply (to_eq _ H) in E1. apply (to_eq _ H) in E2. subst. rewrite (to_refl _ H).
      eapply IH; eassumption.
    + apply (to_eq _ H) in E1. subst. rewrite E2. reflexivity.
    + apply (to_eq _ H) in E2. subst. rewrite E1. reflexivity.
    + rewrite (to_trans _ H _ _ _ E1 E2). reflexivity.
Qed.

(** a text (list of code points) ordered as Rust orders [str] (bytewise = by code point) *)
Definition text_cmp : list N -> list N -> comparison := list_cmp N.compare.
Lemma text_total_order : total_order text_cmp.
Proof. apply list_total_order. exact N_total_order. Qed.

(** * sorting by a key *)
Section Sort.
  Variables (A K : Type) (key : A -> K) (cmp : K -> K -> comparison).
  Hypothesis cmp_order : total_order cmp.

  Definition ltk (x y : A) : Prop := cmp (key x) (key y) = Lt.
  Definition lek (x y : A) : Prop := cmp (key x) (key y) <> Gt.

  (** stable insertion: [x] goes before the first item whose key is not smaller *)
  Fixpoint insert (x : A) (l : list A) : list A :=
    match l with
    | [] => [x]
    | y :: r => match cmp (key x) (key y) with
                | Gt => y :: insert x r
                | _ => x :: y :: r
                end
    end.

  (** the result of a stable sort ([slice::sort_by], [sort_by_cached_key], [sort_by_key]) *)
  Fixpoint isort (l : list A) : list A :=
    match l with
    | [] => []
    | x :: r => insert x (isort r)
    end.

  Lemma insert_perm : forall x l, Permutation (insert x l) (x :: l).
  Proof.
    induction l as [|y r IH]; cbn [insert]; [apply Permutation_refl|].
    destruct (cmp (key x) (key y)); try apply Permutation_refl.
    eapply perm_trans; [apply perm_skip; exact IH|apply perm_swap].
  Qed.

  Lemma isort_perm : forall l, Permutation (isort l) l.
  Proof.
    induction l as [|x r IH]; cbn [isort]; [constructor|].
    eapply perm_trans; [apply insert_perm|]. apply perm_skip. exact IH.
  Qed.

  Lemma ltk_trans : forall x y z, ltk x y -> ltk y z -> ltk x z.
  Proof. unfold ltk. intros. eapply (to_trans _ cmp_order); eassumption. Qed.

  Lemma ltk_irrefl : forall x, ~ ltk x x.
  Proof. unfold ltk. intros x H. rewrite (to_refl _ cmp_order) in H. discriminate. Qed.

  Lemma cmp_gt_lt : forall a b, cmp a b = Gt -> cmp b a = Lt.
  Proof. intros a b H. rewrite (to_antisym _ cmp_order a b), H. reflexivity. Qed.

  Lemma insert_sorted : forall x l,
    StronglySorted ltk l -> ~ In (key x) (map key l) -> StronglySorted ltk (insert x l).
  Proof.
    induction l as [|y r IH]; intros Hs Hn; cbn [insert].
    - constructor; constructor.
    - inversion Hs as [|? ? Hr Hall]; subst.
      destruct (cmp (key x) (key y)) eqn:E.
      + exfalso. apply Hn. left. symmetry. apply (to_eq _ cmp_order). exact E.
      + constructor; [exact Hs|]. constructor; [exact E|].
        eapply Forall_impl; [|exact Hall]. intros z Hz. eapply ltk_trans; [exact E|exact Hz].
      + constructor.
        * apply IH; [exact Hr|]. intros Hin. apply Hn. right. exact Hin.
        * apply Forall_forall. intros z Hz.
          apply (Permutation_in _ (insert_perm x r)) in Hz. destruct Hz as [Hz|Hz].
          -- subst z. apply cmp_gt_lt. exact E.
          -- rewrite Forall_forall in Hall. apply Hall. exact Hz.
  Qed.

  Lemma isort_sorted : forall l, NoDup (map key l) -> StronglySorted ltk (isort l).
  Proof.
    induction l as [|x r IH]; intros Hnd; cbn [isort]; [constructor|].
    cbn [map] in Hnd. inversion Hnd as [|? ? Hx Hr]; subst.
    apply insert_sorted; [apply IH; exact Hr|].
    intros Hin. apply Hx.
    eapply Permutation_in; [|exact Hin]. apply Permutation_map. apply isort_perm.
  Qed.

  (** two strictly sorted permutations of each other are equal *)
  Lemma sorted_perm_unique : forall l l',
    StronglySorted ltk l -> StronglySorted ltk l' -> Permutation l l' -> l = l'.
  Proof.
    induction l as [|a l IH]; intros l' Hs Hs' Hp.
    - apply Permutation_nil in Hp. subst. reflexivity.
    - destruct l' as [|b l'].
      + apply Permutation_sym, Permutation_nil in Hp. discriminate.
      + inversion Hs as [|? ? Hsl Hall]; subst. inversion Hs' as [|? ? Hsl' Hall']; subst.
        assert (a = b) as ->.
        { assert (In a (b :: l')) as Ha by (eapply Permutation_in; [exact Hp|left; reflexivity]).
          assert (In b (a :: l)) as Hb by (eapply Permutation_in; [apply Permutation_sym; exact Hp|left; reflexivity]).
          destruct Ha as [Ha|Ha]; [symmetry; exact Ha|].
          destruct Hb as [Hb|Hb]; [exact Hb|].
          rewrite Forall_forall in Hall, Hall'.
          exfalso. apply (ltk_irrefl a). eapply ltk_trans; [apply Hall; exact Hb|apply Hall'; exact Ha]. }
        f_equal. apply IH; [exact Hsl|exact Hsl'|]. eapply Permutation_cons_inv. exact Hp.
  Qed.

  (** the sorted list does not depend on the order in which the items were enumerated *)
  Theorem isort_perm_invariant : forall l l',
    NoDup (map key l) -> Permutation l l' -> isort l = isort l'.
  Proof.
    intros l l' Hnd Hp.
    assert (NoDup (map key l')) as Hnd'.
    { eapply Permutation_NoDup; [apply Permutation_map; exact Hp|exact Hnd]. }
    apply sorted_perm_unique; [apply isort_sorted; exact Hnd|apply isort_sorted; exact Hnd'|].
    eapply perm_trans; [apply isort_perm|]. eapply perm_trans; [exact Hp|]. apply Permutation_sym, isort_perm.
  Qed.

  (** ... nor on the sorting algorithm: any sorted permutation is [isort] *)
  Lemma lek_strict : forall l, NoDup (map key l) -> StronglySorted lek l -> StronglySorted ltk l.
  Proof.
    induction l as [|x r IH]; intros Hnd Hs; [constructor|].
    cbn [map] in Hnd. inversion Hnd as [|? ? Hx Hr]; subst. inversion Hs as [|? ? Hsr Hall]; subst.
    constructor; [apply IH; assumption|].
    apply Forall_forall. intros z Hz. rewrite Forall_forall in Hall. specialize (Hall z Hz).
    unfold lek in Hall. unfold ltk. destruct (cmp (key x) (key z)) eqn:E; [|reflexivity|contradiction].
    exfalso. apply Hx. apply (to_eq _ cmp_order) in E. rewrite E. apply in_map. exact Hz.
  Qed.

  Theorem sort_unique : forall s l,
    NoDup (map key l) -> Permutation s l -> StronglySorted lek s -> s = isort l.
  Proof.
    intros s l Hnd Hp Hs.
    assert (NoDup (map key s)) as Hnds.
    { eapply Permutation_NoDup; [apply Permutation_map, Permutation_sym; exact Hp|exact Hnd]. }
    apply sorted_perm_unique; [apply lek_strict; assumption|apply isort_sorted; exact Hnd|].
    eapply perm_trans; [exact Hp|]. apply Permutation_sym, isort_perm.
  Qed.

  (** sorted (non-strictly) without the distinct-keys hypothesis *)
  Lemma insert_sorted_le : forall x l, StronglySorted lek l -> StronglySorted lek (insert x l).
  Proof.
    induction l as [|y r IH]; intros Hs; cbn [insert].
    - constructor; constructor.
    - inversion Hs as [|? ? Hr Hall]; subst.
      assert (forall z, lek y z -> cmp (key x) (key y) <> Gt -> lek x z) as Htr.
      { unfold lek. intros z Hyz Hxy Hxz.
        destruct (cmp (key x) (key y)) eqn:E1; [|clear Hxy|contradiction].
        - apply (to_eq _ cmp_order) in E1. rewrite E1 in Hxz. contradiction.
        - destruct (cmp (key y) (key z)) eqn:E2; [| |contradiction].
          + apply (to_eq _ cmp_order) in E2. rewrite <- E2, E1 in Hxz. discriminate.
          + rewrite (to_trans _ cmp_order _ _ _ E1 E2) in Hxz. discriminate. }
      destruct (cmp (key x) (key y)) eqn:E.
      + constructor; [exact Hs|]. constructor; [unfold lek; rewrite E; discriminate|].
        eapply Forall_impl; [|exact Hall]. intros z Hz. apply Htr; [exact Hz|discriminate].
      + constructor; [exact Hs|]. constructor; [unfold lek; rewrite E; discriminate|].
        eapply Forall_impl; [|exact Hall]. intros z Hz. apply Htr; [exact Hz|discriminate].
      + constructor; [apply IH; exact Hr|].
        apply Forall_forall. intros z Hz.
        apply (Permutation_in _ (insert_perm x r)) in Hz. destruct Hz as [Hz|Hz].
        * subst z. unfold lek. rewrite (cmp_gt_lt _ _ E). discriminate.
        * rewrite Forall_forall in Hall. apply Hall. exact Hz.
  Qed.

  Lemma isort_sorted_le : forall l, StronglySorted lek (isort l).
  Proof.
    induction l as [|x r IH]; cbn [isort]; [constructor|]. apply insert_sorted_le. exact IH.
  Qed.
End Sort.

Arguments insert {A K} key cmp x l.
Arguments isort {A K} key cmp l.
Arguments ltk {A K} key cmp x y.
Arguments lek {A K} key cmp x y.

Lemma StronglySorted_filter : forall A (R : A -> A -> Prop) (p : A -> bool) l,
  StronglySorted R l -> StronglySorted R (filter p l).
Proof.
  induction l as [|x r IH]; intros Hs; cbn [filter]; [constructor|].
  inversion Hs as [|? ? Hr Hall]; subst.
  destruct (p x); [|apply IH; exact Hr].
  constructor; [apply IH; exact Hr|].
  apply Forall_forall. intros z Hz. apply filter_In in Hz. destruct Hz as [Hz _].
  rewrite Forall_forall in Hall. apply Hall. exact Hz.
Qed.

(** * [Vec::dedup_by] with "same key as the last retained item" *)
Section Dedup.
  Variables (A K : Type) (key : A -> K) (cmp : K -> K -> comparison).
  Hypothesis cmp_order : total_order cmp.

  Definition same (a b : A) : bool := match cmp (key a) (key b) with Eq => true | _ => false end.

  Fixpoint dedup_from (prev : A) (l : list A) : list A :=
    match l with
    | [] => []
    | b :: r => if same prev b then dedup_from prev r else b :: dedup_from b r
    end.

  Definition dedup (l : list A) : list A :=
    match l with
    | [] => []
    | a :: r => a :: dedup_from a r
    end.

  Lemma same_true : forall a b, same a b = true <-> key a = key b.
  Proof.
    unfold same. intros a b. split.
    - destruct (cmp (key a) (key b)) eqn:E; try discriminate. intros _. apply (to_eq _ cmp_order). exact E.
    - intros H. rewrite H, (to_refl _ cmp_order). reflexivity.
  Qed.

  (** on a list sorted by key, what [dedup_from prev] keeps: strictly increasing keys above
      [prev], the same key set minus [key prev] *)
  Lemma dedup_from_spec : forall l prev,
    StronglySorted (lek key cmp) l -> Forall (lek key cmp prev) l ->
    StronglySorted (ltk key cmp) (dedup_from prev l) /\
    Forall (ltk key cmp prev) (dedup_from prev l) /\
    (forall k, In k (map key (dedup_from prev l)) <-> (In k (map key l) /\ k <> key prev)) /\
    (forall x, In x (dedup_from prev l) -> In x l).
  Proof.
    induction l as [|b r IH]; intros prev Hs Hall; cbn [dedup_from].
    - split; [constructor|]. split; [constructor|]. split; [|intros x []].
      intros k. cbn. tauto.
    - inversion Hs as [|? ? Hsr Hbr]; subst. inversion Hall as [|? ? Hpb Hpr]; subst.
      destruct (same prev b) eqn:E.
      + apply same_true in E.
        destruct (IH prev Hsr Hpr) as (I1 & I2 & I3 & I4).
        split; [exact I1|]. split; [exact I2|]. split.
        * intros k. rewrite I3. cbn [map In]. split; [tauto|].
          intros [[Hk|Hk] Hne]; [exfalso; apply Hne; rewrite <- Hk; symmetry; exact E|tauto].
        * intros x Hx. right. apply I4. exact Hx.
      + assert (ltk key cmp prev b) as Hlt.
        { unfold ltk. unfold lek in Hpb. destruct (cmp (key prev) (key b)) eqn:E2; [|reflexivity|contradiction].
          unfold same in E. rewrite E2 in E. discriminate. }
        destruct (IH b Hsr Hbr) as (I1 & I2 & I3 & I4).
        split; [constructor; assumption|].
        split.
        * constructor; [exact Hlt|]. eapply Forall_impl; [|exact I2].
          intros z Hz. eapply (ltk_trans _ _ key cmp cmp_order); eassumption.
        * split.
          -- intros k. cbn [map In]. rewrite I3. split.
             ++ intros [Hk|[Hk Hne]].
                ** split; [left; exact Hk|]. subst k. intros Heq. unfold ltk in Hlt.
                   rewrite Heq, (to_refl _ cmp_order) in Hlt. discriminate.
                ** split; [right; exact Hk|]. intros Heq. subst k.
                   apply in_map_iff in Hk. destruct Hk as (z & Hz1 & Hz2).
                   rewrite Forall_forall in Hbr. specialize (Hbr z Hz2). unfold lek in Hbr.
                   rewrite Hz1 in Hbr. apply Hbr. unfold ltk in Hlt.
                   rewrite (to_antisym _ cmp_order (key prev) (key b)), Hlt. reflexivity.
             ++ intros [[Hk|Hk] Hne]; [left; exact Hk|].
                destruct (cmp k (key b)) eqn:E3.
                ** left. symmetry. apply (to_eq _ cmp_order). exact E3.
                ** right. split; [exact Hk|]. intros Heq. rewrite Heq, (to_refl _ cmp_order) in E3. discriminate.
                ** right. split; [exact Hk|]. intros Heq. rewrite Heq, (to_refl _ cmp_order) in E3. discriminate.
          -- intros x [Hx|Hx]; [left; exact Hx|right; apply I4; exact Hx].
  Qed.

  Lemma StronglySorted_ltk_NoDup : forall l, StronglySorted (ltk key cmp) l -> NoDup (map key l).
  Proof.
    induction l as [|x r IH]; intros Hs; cbn [map]; [constructor|].
    inversion Hs as [|? ? Hr Hall]; subst. constructor; [|apply IH; exact Hr].
    intros Hin. apply in_map_iff in Hin. destruct Hin as (z & Hz1 & Hz2).
    rewrite Forall_forall in Hall. specialize (Hall z Hz2). unfold ltk in Hall.
    rewrite Hz1, (to_refl _ cmp_order) in Hall. discriminate.
  Qed.

  (** [dedup] of a list sorted by key: every key once, nothing new *)
  Theorem dedup_sorted_spec : forall l,
    StronglySorted (lek key cmp) l ->
    NoDup (map key (dedup l)) /\
    (forall k, In k (map key (dedup l)) <-> In k (map key l)) /\
    (forall x, In x (dedup l) -> In x l).
  Proof.
    intros [|a r] Hs; cbn [dedup].
    - split; [constructor|]. split; [tauto|tauto].
    - inversion Hs as [|? ? Hsr Har]; subst.
      destruct (dedup_from_spec r a Hsr Har) as (I1 & I2 & I3 & I4).
      split.
      + apply StronglySorted_ltk_NoDup. constructor; assumption.
      + split.
        * intros k. cbn [map In]. rewrite I3. split; [tauto|].
          intros [Hk|Hk]; [left; exact Hk|].
          destruct (cmp k (key a)) eqn:E.
          -- left. symmetry. apply (to_eq _ cmp_order). exact E.
          -- right. split; [exact Hk|]. intros Heq. rewrite Heq, (to_refl _ cmp_order) in E. discriminate.
          -- right. split; [exact Hk|]. intros Heq. rewrite Heq, (to_refl _ cmp_order) in E. discriminate.
        * intros x [Hx|Hx]; [left; exact Hx|right; apply I4; exact Hx].
  Qed.
End Dedup.

Arguments same {A K} key cmp a b.
Arguments dedup_from {A K} key cmp prev l.
Arguments dedup {A K} key cmp l.
