(** Base/JsonFacts.v — facts about Base/Json.v: the string order, sorted-map insertion, equality,
    and an induction principle for the nested type. *)
From EV Require Export Base.Json.
Local Open Scope N_scope.

(* ------------------------------------------------------------------ text order *)
Lemma text_cmp_refl : forall a, text_cmp a a = Eq.
Proof. induction a as [|x a IH]; cbn [text_cmp]; [reflexivity|]. rewrite N.compare_refl. exact IH. Qed.

Lemma text_cmp_eq : forall a b, text_cmp a b = Eq -> a = b.
Proof.
  induction a as [|x a IH]; destruct b as [|y b]; cbn [text_cmp]; intros H; try discriminate; [reflexivity|].
  destruct (N.compare x y) eqn:E; try discriminate.
  apply N.compare_eq in E. subst. f_equal. apply IH. exact H.
Qed.

Lemma text_cmp_antisym : forall a b, text_cmp b a = CompOpp (text_cmp a b).
Proof.
  induction a as [|x a IH]; destruct b as [|y b]; cbn [text_cmp]; try reflexivity.
  rewrite (N.compare_antisym x y). destruct (N.compare x y); cbn [CompOpp]; try reflexivity. apply IH.
Qed.

Lemma text_cmp_lt_trans : forall a b c, text_cmp a b = Lt -> text_cmp b c = Lt -> text_cmp a c = Lt.
Proof.
  induction a as [|x a IH]; destruct b as [|y b]; destruct c as [|z c]; cbn [text_cmp]; intros H1 H2;
    try discriminate; try reflexivity.
  destruct (N.compare x y) eqn:E1; try discriminate.
  - apply N.compare_eq in E1. subst y.
    destruct (N.compare x z) eqn:E2; try discriminate; [|reflexivity]. eapply IH; eassumption.
  - destruct (N.compare y z) eqn:E2; try discriminate.
    + apply N.compare_eq in E2. subst z. rewrite E1. reflexivity.
    + assert (x < z) by (rewrite N.compare_lt_iff in *; lia).
      rewrite <- N.compare_lt_iff in H. rewrite H. reflexivity.
Qed.

Lemma text_cmp_gt_lt : forall a b, text_cmp a b = Gt -> text_cmp b a = Lt.
Proof. intros a b H. rewrite text_cmp_antisym, H. reflexivity. Qed.

Lemma text_cmp_lt_gt : forall a b, text_cmp a b = Lt -> text_cmp b a = Gt.
Proof. intros a b H. rewrite text_cmp_antisym, H. reflexivity. Qed.

Lemma text_eqb_spec : forall a b, reflect (a = b) (text_eqb a b).
Proof.
  intros a b. unfold text_eqb. destruct (text_cmp a b) eqn:E; constructor.
  - apply text_cmp_eq. exact E.
  - intros ->. rewrite text_cmp_refl in E. discriminate.
  - intros ->. rewrite text_cmp_refl in E. discriminate.
Qed.

Lemma text_eqb_refl : forall a, text_eqb a a = true.
Proof. intros a. destruct (text_eqb_spec a a); congruence. Qed.

Lemma text_eqb_neq : forall a b, a <> b -> text_eqb a b = false.
Proof. intros a b H. destruct (text_eqb_spec a b); congruence. Qed.

Lemma text_eq_dec : forall a b : text, {a = b} + {a <> b}.
Proof. intros a b. destruct (text_eqb_spec a b); [left|right]; assumption. Qed.

(* ------------------------------------------------------------------ sorted-map operations
   (the laws hold for every association list, sorted or not) *)
Lemma bt_get_insert_same : forall k v m, bt_get k (bt_insert k v m) = Some v.
Proof.
  intros k v. induction m as [|[k' v'] r IH]; cbn [bt_insert bt_get].
  - rewrite text_eqb_refl. reflexivity.
  - destruct (text_cmp k k') eqn:E; cbn [bt_get].
    + rewrite text_eqb_refl. reflexivity.
    + rewrite text_eqb_refl. reflexivity.
    + unfold text_eqb at 1. rewrite E. exact IH.
Qed.

Lemma bt_get_insert_other : forall k k' v m, k <> k' -> bt_get k (bt_insert k' v m) = bt_get k m.
Proof.
  intros k k' v m Hne. induction m as [|[k2 v2] r IH]; cbn [bt_insert bt_get].
  - rewrite text_eqb_neq by exact Hne. reflexivity.
  - destruct (text_cmp k' k2) eqn:E; cbn [bt_get].
    + apply text_cmp_eq in E. subst k2. rewrite text_eqb_neq by exact Hne. reflexivity.
    + rewrite (text_eqb_neq k k') by exact Hne. reflexivity.
    + rewrite IH. reflexivity.
Qed.

Lemma bt_insert_insert_same : forall k v w m, bt_insert k v (bt_insert k w m) = bt_insert k v m.
Proof.
  intros k v w. induction m as [|[k' v'] r IH]; cbn [bt_insert].
  - rewrite text_cmp_refl. reflexivity.
  - destruct (text_cmp k k') eqn:E; cbn [bt_insert].
    + rewrite text_cmp_refl. reflexivity.
    + rewrite text_cmp_refl. reflexivity.
    + rewrite E. rewrite IH. reflexivity.
Qed.

Ltac tc_flip H := first [pose proof (text_cmp_lt_gt _ _ H) | pose proof (text_cmp_gt_lt _ _ H)].
Ltac tc_norm :=
  repeat (cbn [bt_insert];
          match goal with
          | H : text_cmp ?a ?b = _ |- context [text_cmp ?a ?b] => rewrite H
          | |- context [text_cmp ?a ?a] => rewrite text_cmp_refl
          end);
  try reflexivity.

Lemma bt_insert_comm : forall k1 k2 v1 v2 m, k1 <> k2 ->
  bt_insert k1 v1 (bt_insert k2 v2 m) = bt_insert k2 v2 (bt_insert k1 v1 m).
Proof.
  intros k1 k2 v1 v2 m Hne.
  induction m as [|[k v] r IH].
  - destruct (text_cmp k1 k2) eqn:E; [apply text_cmp_eq in E; congruence| |]; tc_flip E; tc_norm.
  - destruct (text_cmp k2 k) eqn:E2; destruct (text_cmp k1 k) eqn:E1.
    + apply text_cmp_eq in E1. apply text_cmp_eq in E2. congruence.
    + apply text_cmp_eq in E2. subst k. tc_flip E1. tc_norm.
    + apply text_cmp_eq in E2. subst k. tc_flip E1. tc_norm.
    + apply text_cmp_eq in E1. subst k. tc_flip E2. tc_norm.
    + destruct (text_cmp k1 k2) eqn:E; [apply text_cmp_eq in E; congruence| |]; tc_flip E; tc_norm.
    + assert (H : text_cmp k2 k1 = Lt) by (eapply text_cmp_lt_trans; [exact E2|apply text_cmp_gt_lt; exact E1]).
      tc_flip H. tc_norm.
    + apply text_cmp_eq in E1. subst k. tc_flip E2. tc_norm.
    + assert (H : text_cmp k1 k2 = Lt) by (eapply text_cmp_lt_trans; [exact E1|apply text_cmp_gt_lt; exact E2]).
      tc_flip H. tc_norm.
    + tc_norm. rewrite IH. reflexivity.
Qed.

(* ------------------------------------------------------------------ induction on the nested type *)
Section JsonInd.
  Variable P : json -> Prop.
  Hypothesis Hnull : P JNull.
  Hypothesis Hbool : forall b, P (JBool b).
  Hypothesis Hnum : forall z, P (JNum z).
  Hypothesis Hstr : forall s, P (JStr s).
  Hypothesis Harr : forall l, Forall P l -> P (JArr l).
  Hypothesis Hobj : forall m, Forall (fun kv => P (snd kv)) m -> P (JObj m).

  Fixpoint json_ind' (j : json) : P j :=
    match j with
    | JNull => Hnull
    | JBool b => Hbool b
    | JNum z => Hnum z
    | JStr s => Hstr s
    | JArr l => Harr l ((fix go (l : list json) : Forall P l :=
                           match l with
                           | [] => Forall_nil _
                           | x :: r => Forall_cons _ (json_ind' x) (go r)
                           end) l)
    | JObj m => Hobj m ((fix go (m : list (text * json)) : Forall (fun kv => P (snd kv)) m :=
                           match m with
                           | [] => Forall_nil _
                           | (k, x) :: r => Forall_cons (k, x) (json_ind' x) (go r)
                           end) m)
    end.
End JsonInd.

(* ------------------------------------------------------------------ equality *)
Lemma json_eqb_refl : forall a, json_eqb a a = true.
Proof.
  induction a using json_ind'; cbn [json_eqb]; try reflexivity.
  - destruct b; reflexivity.
  - apply Z.eqb_refl.
  - apply text_eqb_refl.
  - induction H as [|x l Hx Hl IH]; [reflexivity|]. rewrite Hx, IH. reflexivity.
  - induction H as [|[k x] m Hx Hm IH]; [reflexivity|]. cbn [snd] in Hx. rewrite text_eqb_refl, Hx, IH. reflexivity.
Qed.

Lemma json_eqb_eq : forall a c, json_eqb a c = true -> a = c.
Proof.
  induction a using json_ind'; intros c; destruct c as [| b' | z' | s' | l' | m']; cbn [json_eqb]; intros E; try discriminate.
  - reflexivity.
  - apply Bool.eqb_prop in E. congruence.
  - apply Z.eqb_eq in E. congruence.
  - destruct (text_eqb_spec s s'); congruence.
  - f_equal. revert l' E. induction H as [|x l Hx Hl IH]; intros [|y l'] E; try discriminate; [reflexivity|].
    apply andb_prop in E. destruct E as [E1 E2]. f_equal; [apply Hx; exact E1|apply IH; exact E2].
  - f_equal. revert m' E. induction H as [|[k x] m Hx Hm IH]; intros [|[k' y] m'] E; try discriminate; [reflexivity|].
    apply andb_prop in E. destruct E as [E1 E3]. apply andb_prop in E1. destruct E1 as [E1 E2].
    cbn [snd] in Hx. destruct (text_eqb_spec k k'); [|discriminate]. subst k'.
    f_equal; [f_equal; apply Hx; exact E2|apply IH; exact E3].
Qed.

Lemma json_eqb_spec : forall a b, reflect (a = b) (json_eqb a b).
Proof.
  intros a b. destruct (json_eqb a b) eqn:E; constructor.
  - apply json_eqb_eq. exact E.
  - intros ->. rewrite json_eqb_refl in E. discriminate.
Qed.

Lemma json_mem_In : forall x l, json_mem x l = true <-> In x l.
Proof.
  intros x. induction l as [|y r IH]; cbn [json_mem In].
  - split; [discriminate|tauto].
  - rewrite Bool.orb_true_iff, IH. destruct (json_eqb_spec x y) as [->|Hne]; split.
    + intros _. left. reflexivity.
    + intros _. left. reflexivity.
    + intros [H|H]; [discriminate|right; exact H].
    + intros [H|H]; [congruence|right; exact H].
Qed.

Lemma json_mem_false : forall x l, json_mem x l = false <-> ~ In x l.
Proof.
  intros x l. rewrite <- json_mem_In. destruct (json_mem x l); split; congruence.
Qed.
