(** Base/LTS.v — labelled transition systems given by a partial step function, executions along
    arbitrary label sequences (schedules), invariants by induction over ALL schedules, strictly
    decreasing measures (every schedule is finite and bounded), quiescence.

    A system is [step : label -> state -> option state]; [step l s = None] means that [l] is not
    enabled in [s].  A schedule is a list of labels; [run s ls] executes it (and is [None] as soon as
    a label is not enabled).  Interleaving of concurrent tasks is expressed by labels that name the
    task which moves: quantifying over all schedules quantifies over all interleavings. *)
From Coq Require Import List Arith Lia.
Import ListNotations.

Section LTS.
  Variable state label : Type.
  Variable step : label -> state -> option state.

  Fixpoint run (s : state) (ls : list label) : option state :=
    match ls with
    | [] => Some s
    | l :: r => match step l s with
                | Some s' => run s' r
                | None => None
                end
    end.

  Definition reachable (s0 s : state) : Prop := exists ls, run s0 ls = Some s.

  (** no label is enabled *)
  Definition quiescent (s : state) : Prop := forall l, step l s = None.

  Lemma run_app : forall ls1 ls2 s,
    run s (ls1 ++ ls2) = match run s ls1 with Some s' => run s' ls2 | None => None end.
  Proof.
    induction ls1 as [|l r IH]; intros ls2 s; cbn [run app]; [reflexivity|].
    destruct (step l s); [apply IH|reflexivity].
  Qed.

  Lemma reachable_refl : forall s, reachable s s.
  Proof. intros s; exists []; reflexivity. Qed.

  Lemma reachable_step : forall s0 s l s', reachable s0 s -> step l s = Some s' -> reachable s0 s'.
  Proof.
    intros s0 s l s' [ls H] Hs. exists (ls ++ [l]).
    rewrite run_app, H. cbn [run]. rewrite Hs. reflexivity.
  Qed.

  (** an inductive invariant holds after every schedule *)
  Lemma run_invariant : forall (I : state -> Prop),
    (forall l s s', I s -> step l s = Some s' -> I s') ->
    forall ls s0 s, I s0 -> run s0 ls = Some s -> I s.
  Proof.
    intros I Hstep. induction ls as [|l r IH]; intros s0 s H0 Hrun; cbn [run] in Hrun.
    - inversion Hrun; subst; assumption.
    - destruct (step l s0) as [s1|] eqn:E; [|discriminate].
      eapply IH; [eapply Hstep; eassumption|exact Hrun].
  Qed.

  (** a measure that every step strictly decreases bounds the length of every schedule *)
  Lemma run_measure : forall (m : state -> nat),
    (forall l s s', step l s = Some s' -> m s' < m s) ->
    forall ls s0 s, run s0 ls = Some s -> length ls + m s <= m s0.
  Proof.
    intros m Hdec. induction ls as [|l r IH]; intros s0 s Hrun; cbn [run] in Hrun.
    - inversion Hrun; subst. cbn. lia.
    - destruct (step l s0) as [s1|] eqn:E; [|discriminate].
      apply Hdec in E. apply IH in Hrun. cbn [length]. lia.
  Qed.

  (** with such a measure, every state can be driven to quiescence (given a decision procedure
      that exhibits an enabled label in every non-quiescent state) *)
  Lemma reaches_quiescence : forall (m : state -> nat) (pick : state -> option label),
    (forall l s s', step l s = Some s' -> m s' < m s) ->
    (forall s, match pick s with
               | Some l => exists s', step l s = Some s'
               | None => quiescent s
               end) ->
    forall n s, m s <= n -> exists ls s', run s ls = Some s' /\ quiescent s'.
  Proof.
    intros m pick Hdec Hpick. induction n as [|n IH]; intros s Hm.
    - specialize (Hpick s). destruct (pick s) as [l|].
      + destruct Hpick as [s' Hs]. apply Hdec in Hs. lia.
      + exists [], s. split; [reflexivity|assumption].
    - specialize (Hpick s). destruct (pick s) as [l|].
      + destruct Hpick as [s' Hs]. pose proof (Hdec _ _ _ Hs) as Hlt.
        destruct (IH s') as [ls [s'' [Hr Hq]]]; [lia|].
        exists (l :: ls), s''. split; [|assumption]. cbn [run]. rewrite Hs. exact Hr.
      + exists [], s. split; [reflexivity|assumption].
  Qed.
End LTS.

Arguments run {state label} step s ls.
Arguments reachable {state label} step s0 s.
Arguments quiescent {state label} step s.
