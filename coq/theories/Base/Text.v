(** Base/Text.v — texts as lists of Unicode scalar values; UTF-8 byte offsets; UTF-16 widths.
    Executable definitions only.  A Rust [&str] is modelled by the list of its [char]s; a byte
    offset is a prefix sum of [blen]; slicing off a character boundary is where Rust panics, and
    is [None] here. *)
From Coq Require Export List NArith Bool Lia.
Export ListNotations.
Local Open Scope N_scope.

Arguments N.add : simpl never.
Arguments N.sub : simpl never.
Arguments N.mul : simpl never.
Arguments N.eqb : simpl never.
Arguments N.ltb : simpl never.
Arguments N.leb : simpl never.
Arguments N.min : simpl never.
Arguments N.max : simpl never.

Definition cp := N.
Definition text := list cp.

(** [char::len_utf8] *)
Definition blen (c : cp) : N :=
  if c <? 128 then 1 else if c <? 2048 then 2 else if c <? 65536 then 3 else 4.

(** [char::len_utf16] *)
Definition u16len (c : cp) : N := if c <? 65536 then 1 else 2.

Fixpoint bytes (t : text) : N :=
  match t with [] => 0 | c :: r => blen c + bytes r end.

Fixpoint u16s (t : text) : N :=
  match t with [] => 0 | c :: r => u16len c + u16s r end.

Definition all_ascii (t : text) : bool := forallb (fun c => c <? 128) t.

(** [&s[n..]] : [None] when [n] is past the end or not on a character boundary (Rust panics) *)
Fixpoint drop_bytes (t : text) (n : N) : option text :=
  if n =? 0 then Some t
  else match t with
       | [] => None
       | c :: r => if n <? blen c then None else drop_bytes r (n - blen c)
       end.

(** [&s[..n]] *)
Fixpoint take_bytes (t : text) (n : N) : option text :=
  if n =? 0 then Some []
  else match t with
       | [] => None
       | c :: r => if n <? blen c then None
                   else match take_bytes r (n - blen c) with
                        | Some p => Some (c :: p)
                        | None => None
                        end
       end.

(** [&s[a..b]] *)
Definition slice (t : text) (a b : N) : option text :=
  if b <? a then None
  else match drop_bytes t a with
       | Some r => take_bytes r (b - a)
       | None => None
       end.

(** [o] is a character boundary of [t] (including [0] and [bytes t]) *)
Definition boundaryb (t : text) (o : N) : bool :=
  match take_bytes t o with Some _ => true | None => false end.

(** result of a partial Rust function: a value, [None], or a panic *)
Inductive res (A : Type) : Type :=
| Val (a : A)
| Nothing
| Panic.
Arguments Val {A} a.
Arguments Nothing {A}.
Arguments Panic {A}.
