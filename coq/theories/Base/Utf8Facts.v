(** Base/Utf8Facts.v — facts about the UTF-8 codec of Base/Utf8.v:
    [utf8_decode_encode] (decode ∘ encode = id on scalar values), injectivity, byte ranges, lengths. *)
From EV Require Export Base.Utf8.
From Coq Require Import ZArith.
Local Open Scope N_scope.

(* division by constants for [lia]; the redefinition is local to this section *)
Section Facts.
Ltac Zify.zify_post_hook ::= Z.to_euclidean_division_equations.

Lemma is_scalar_lt : forall c, is_scalar c = true -> c < 1114112 /\ (c < 55296 \/ 57344 <= c).
Proof.
  intros c H. unfold is_scalar in H. apply orb_true_iff in H. destruct H as [H|H].
  - apply N.ltb_lt in H. lia.
  - apply andb_true_iff in H. destruct H as [H1 H2]. apply N.leb_le in H1. apply N.ltb_lt in H2. lia.
Qed.

Lemma utf8_encode_app : forall a b, utf8_encode (a ++ b) = utf8_encode a ++ utf8_encode b.
Proof.
  induction a as [|c a IH]; intros b; cbn [app utf8_encode]; [reflexivity|].
  rewrite IH, app_assoc. reflexivity.
Qed.

(** the length of the encoding is [char::len_utf8] ([Base.Text.blen]) *)
Lemma utf8_encode_cp_length : forall c, N.of_nat (length (utf8_encode_cp c)) = blen c.
Proof.
  intros c. unfold utf8_encode_cp, blen.
  destruct (c <? 128); [reflexivity|]. destruct (c <? 2048); [reflexivity|].
  destruct (c <? 65536); reflexivity.
Qed.

Lemma utf8_encode_length : forall t, N.of_nat (length (utf8_encode t)) = bytes t.
Proof.
  induction t as [|c t IH]; cbn [utf8_encode bytes]; [reflexivity|].
  rewrite app_length, Nat2N.inj_add, IH, utf8_encode_cp_length. reflexivity.
Qed.

(** every byte of the encoding of a scalar value is a byte, and non-ASCII characters only
    produce bytes >= 128 *)
Lemma utf8_encode_cp_bytes : forall c, is_scalar c = true ->
  Forall (fun b => b < 256) (utf8_encode_cp c).
Proof.
  intros c H. apply is_scalar_lt in H. destruct H as [H _]. unfold utf8_encode_cp.
  destruct (N.ltb_spec c 128); [repeat constructor; lia|].
  destruct (N.ltb_spec c 2048); [repeat constructor; lia|].
  destruct (N.ltb_spec c 65536); repeat constructor; lia.
Qed.

Lemma utf8_encode_cp_high : forall c, 128 <= c ->
  Forall (fun b => 128 <= b) (utf8_encode_cp c).
Proof.
  intros c H. unfold utf8_encode_cp.
  destruct (N.ltb_spec c 128); [lia|].
  destruct (N.ltb_spec c 2048); [repeat constructor; lia|].
  destruct (N.ltb_spec c 65536); repeat constructor; lia.
Qed.

Lemma utf8_encode_cp_ascii : forall c, c < 128 -> utf8_encode_cp c = [c].
Proof. intros c H. unfold utf8_encode_cp. destruct (N.ltb_spec c 128); [reflexivity|lia]. Qed.

Lemma utf8_encode_cp_nonempty : forall c, utf8_encode_cp c <> [].
Proof.
  intros c. unfold utf8_encode_cp.
  destruct (c <? 128); [discriminate|]. destruct (c <? 2048); [discriminate|].
  destruct (c <? 65536); discriminate.
Qed.

(** one character: decoding its encoding followed by anything *)
Lemma utf8_decode_encode_cp : forall c rest, is_scalar c = true ->
  utf8_decode (utf8_encode_cp c ++ rest) = option_map (cons c) (utf8_decode rest).
Proof.
  intros c rest H. apply is_scalar_lt in H. destruct H as [Hmax Hsur]. unfold utf8_encode_cp.
  destruct (N.ltb_spec c 128) as [H1|H1].
  { cbn [app utf8_decode]. destruct (N.ltb_spec c 128); [reflexivity|lia]. }
  destruct (N.ltb_spec c 2048) as [H2|H2].
  { cbn [app utf8_decode]. unfold is_cont.
    destruct (N.ltb_spec (192 + c / 64) 128); [lia|].
    destruct (N.ltb_spec (192 + c / 64) 194); [lia|].
    destruct (N.ltb_spec (192 + c / 64) 224); [|lia].
    destruct (N.leb_spec 128 (128 + c mod 64)); [|lia].
    destruct (N.ltb_spec (128 + c mod 64) 192); [|lia].
    cbn [andb]. replace ((192 + c / 64 - 192) * 64 + (128 + c mod 64 - 128)) with c by lia.
    reflexivity. }
  destruct (N.ltb_spec c 65536) as [H3|H3].
  { cbn [app utf8_decode]. unfold is_cont.
    destruct (N.ltb_spec (224 + c / 4096) 128); [lia|].
    destruct (N.ltb_spec (224 + c / 4096) 194); [lia|].
    destruct (N.ltb_spec (224 + c / 4096) 224); [lia|].
    destruct (N.ltb_spec (224 + c / 4096) 240); [|lia].
    destruct (N.leb_spec 128 (128 + (c / 64) mod 64)); [|lia].
    destruct (N.ltb_spec (128 + (c / 64) mod 64) 192); [|lia].
    destruct (N.leb_spec 128 (128 + c mod 64)); [|lia].
    destruct (N.ltb_spec (128 + c mod 64) 192); [|lia].
    replace ((224 + c / 4096 - 224) * 4096 + (128 + (c / 64) mod 64 - 128) * 64 + (128 + c mod 64 - 128))
      with c by lia.
    destruct (N.leb_spec 2048 c); [|lia].
    cbn [andb].
    destruct (N.leb_spec 55296 c); destruct (N.ltb_spec c 57344); cbn [andb negb]; try reflexivity; lia. }
  cbn [app utf8_decode]. unfold is_cont.
  destruct (N.ltb_spec (240 + c / 262144) 128); [lia|].
  destruct (N.ltb_spec (240 + c / 262144) 194); [lia|].
  destruct (N.ltb_spec (240 + c / 262144) 224); [lia|].
  destruct (N.ltb_spec (240 + c / 262144) 240); [lia|].
  destruct (N.ltb_spec (240 + c / 262144) 245); [|lia].
  destruct (N.leb_spec 128 (128 + (c / 4096) mod 64)); [|lia].
  destruct (N.ltb_spec (128 + (c / 4096) mod 64) 192); [|lia].
  destruct (N.leb_spec 128 (128 + (c / 64) mod 64)); [|lia].
  destruct (N.ltb_spec (128 + (c / 64) mod 64) 192); [|lia].
  destruct (N.leb_spec 128 (128 + c mod 64)); [|lia].
  destruct (N.ltb_spec (128 + c mod 64) 192); [|lia].
  replace ((240 + c / 262144 - 240) * 262144 + (128 + (c / 4096) mod 64 - 128) * 4096
           + (128 + (c / 64) mod 64 - 128) * 64 + (128 + c mod 64 - 128)) with c by lia.
  destruct (N.leb_spec 65536 c); [|lia].
  destruct (N.ltb_spec c 1114112); [|lia].
  reflexivity.
Qed.

(** [String::from_utf8(s.as_bytes()) == Ok(s)] for every string of scalar values *)
Theorem utf8_decode_encode : forall t, scalar_text t = true -> utf8_decode (utf8_encode t) = Some t.
Proof.
  induction t as [|c t IH]; intros H; [reflexivity|].
  cbn [scalar_text forallb] in H. apply andb_true_iff in H. destruct H as [Hc Ht].
  cbn [utf8_encode]. rewrite utf8_decode_encode_cp by exact Hc.
  fold (scalar_text t) in Ht. rewrite (IH Ht). reflexivity.
Qed.

(** the encoding is injective on scalar texts *)
Corollary utf8_encode_inj : forall a b, scalar_text a = true -> scalar_text b = true ->
  utf8_encode a = utf8_encode b -> a = b.
Proof.
  intros a b Ha Hb E. apply utf8_decode_encode in Ha. apply utf8_decode_encode in Hb.
  rewrite E in Ha. rewrite Ha in Hb. injection Hb. auto.
Qed.

Lemma scalar_text_app : forall a b, scalar_text (a ++ b) = scalar_text a && scalar_text b.
Proof. intros. unfold scalar_text. apply forallb_app. Qed.

(** ASCII texts are their own encoding *)
Lemma utf8_encode_ascii : forall t, all_ascii t = true -> utf8_encode t = t.
Proof.
  induction t as [|c t IH]; intros H; [reflexivity|].
  cbn [all_ascii forallb] in H. apply andb_true_iff in H. destruct H as [Hc Ht].
  apply N.ltb_lt in Hc. cbn [utf8_encode]. rewrite utf8_encode_cp_ascii by exact Hc.
  fold (all_ascii t) in Ht. rewrite (IH Ht). reflexivity.
Qed.

End Facts.
