(** Base/Utf8.v — bytes and the UTF-8 codec over Unicode scalar values.
    A byte is an [N] below 256; a Rust [&str]/[String] is the list of its [char]s ([Base.Text.text]);
    [utf8_encode] is [str::as_bytes], [utf8_decode] is [str::from_utf8] (strict: no overlong forms,
    no surrogates, nothing above U+10FFFF, no truncated sequences).
    Executable definitions only; the facts ([utf8_decode_encode] : decode ∘ encode = id on scalar
    values, injectivity, lengths) are in Base/Utf8Facts.v. *)
From EV Require Export Base.Text.
Local Open Scope N_scope.

Definition byte := N.

(** [char] : a Unicode scalar value *)
Definition is_scalar (c : cp) : bool := (c <? 55296) || ((57344 <=? c) && (c <? 1114112)).

Definition scalar_text (t : text) : bool := forallb is_scalar t.

(** [char::encode_utf8] *)
Definition utf8_encode_cp (c : cp) : list byte :=
  if c <? 128 then [c]
  else if c <? 2048 then [192 + c / 64; 128 + c mod 64]
  else if c <? 65536 then [224 + c / 4096; 128 + (c / 64) mod 64; 128 + c mod 64]
  else [240 + c / 262144; 128 + (c / 4096) mod 64; 128 + (c / 64) mod 64; 128 + c mod 64].

(** [str::as_bytes] *)
Fixpoint utf8_encode (t : text) : list byte :=
  match t with
  | [] => []
  | c :: r => utf8_encode_cp c ++ utf8_encode r
  end.

(** continuation byte 10xxxxxx *)
Definition is_cont (b : byte) : bool := (128 <=? b) && (b <? 192).

(** [str::from_utf8] : [None] is [Err(Utf8Error)] *)
Fixpoint utf8_decode (bs : list byte) : option text :=
  match bs with
  | [] => Some []
  | b0 :: r0 =>
      if b0 <? 128 then option_map (cons b0) (utf8_decode r0)
      else if b0 <? 194 then None                       (* continuation byte, or overlong C0/C1 *)
      else if b0 <? 224 then
        match r0 with
        | b1 :: r1 =>
            if is_cont b1
            then option_map (cons ((b0 - 192) * 64 + (b1 - 128))) (utf8_decode r1)
            else None
        | _ => None
        end
      else if b0 <? 240 then
        match r0 with
        | b1 :: b2 :: r2 =>
            let c := (b0 - 224) * 4096 + (b1 - 128) * 64 + (b2 - 128) in
            if is_cont b1 && is_cont b2 && (2048 <=? c) && negb ((55296 <=? c) && (c <? 57344))
            then option_map (cons c) (utf8_decode r2)
            else None
        | _ => None
        end
      else if b0 <? 245 then
        match r0 with
        | b1 :: b2 :: b3 :: r3 =>
            let c := (b0 - 240) * 262144 + (b1 - 128) * 4096 + (b2 - 128) * 64 + (b3 - 128) in
            if is_cont b1 && is_cont b2 && is_cont b3 && (65536 <=? c) && (c <? 1114112)
            then option_map (cons c) (utf8_decode r3)
            else None
        | _ => None
        end
      else None
  end.

Definition is_byte (b : N) : bool := b <? 256.
