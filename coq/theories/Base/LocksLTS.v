(** Base/LocksLTS.v — interleaving semantics of tasks that run lock programs over tokio's FAIR
    read-write locks and mutexes.  Definitions only (the facts are in C28/Proofs.v).

    What is modelled (tokio 1.x, sync/batch_semaphore.rs + sync/rwlock.rs + sync/mutex.rs):
    - an [RwLock] is a semaphore with MAX_READS permits; a reader needs one permit, a writer all of
      them; a [Mutex] is a semaphore with one permit (= a lock that is only ever taken in [Write] mode);
    - waiters are queued FIFO; a queued writer takes every permit that is released, so a read request
      issued after a writer was queued waits behind that writer even when only readers hold the lock;
    - released permits are handed to the HEAD of the queue first.
    Here: a request is appended to the lock's queue ([step] on a task whose [waiting] flag is clear) and
    only the head of the queue can be granted, when it is compatible with the current holders.
    A task is a finite straight-line program (one control path of an async fn, see C28/Model.v for the
    structured programs that the translator extracts); an arbitrary number of task instances run in an
    arbitrary interleaving ([step s i] = task [i] performs its next action). *)
From Coq Require Import List Arith Bool PeanoNat.
Import ListNotations.

Definition lock := nat.

Inductive mode := Read | Write.

(** [Await j k]: wait until task [j] has executed at least [k] actions (k = its length: join;
    smaller k: a message/notification produced at that point) *)
Inductive act :=
| Acq (l : lock) (m : mode)
| Rel (l : lock)
| Await (j k : nat).

Record tstate := mkT { pc : nat; waiting : bool; held : list lock }.
Record lstate := mkL { holders : list (nat * mode); queue : list (nat * mode) }.
Record state := mkS { ts : list tstate; lk : lock -> lstate }.

Definition is_read (m : mode) : bool := match m with Read => true | Write => false end.

(** may a request of mode [m] be granted while [hs] hold the lock *)
Definition compat (m : mode) (hs : list (nat * mode)) : bool :=
  match m with
  | Read => forallb (fun e => is_read (snd e)) hs
  | Write => match hs with [] => true | _ :: _ => false end
  end.

Fixpoint upd {A} (i : nat) (x : A) (l : list A) : list A :=
  match l, i with
  | [], _ => []
  | _ :: r, 0 => x :: r
  | a :: r, S i' => a :: upd i' x r
  end.

Definition setl (f : lock -> lstate) (l : lock) (v : lstate) : lock -> lstate :=
  fun l' => if Nat.eqb l' l then v else f l'.

Section Sys.
  Variable progs : list (list act).

  Definition prog (i : nat) : list act := nth i progs [].

  Definition cur (s : state) (i : nat) : option act :=
    match nth_error (ts s) i with
    | Some t => nth_error (prog i) (pc t)
    | None => None
    end.

  (** task [i] performs its next action, if it can *)
  Definition step (s : state) (i : nat) : option state :=
    match nth_error (ts s) i with
    | None => None
    | Some t =>
      match nth_error (prog i) (pc t) with
      | None => None
      | Some (Acq l m) =>
          let L := lk s l in
          if waiting t then
            match queue L with
            | (h, _) :: q' =>
                if Nat.eqb h i && compat m (holders L)
                then Some (mkS (upd i (mkT (S (pc t)) false (l :: held t)) (ts s))
                               (setl (lk s) l (mkL ((i, m) :: holders L) q')))
                else None
            | [] => None
            end
          else Some (mkS (upd i (mkT (pc t) true (held t)) (ts s))
                         (setl (lk s) l (mkL (holders L) (queue L ++ [(i, m)]))))
      | Some (Rel l) =>
          let L := lk s l in
          Some (mkS (upd i (mkT (S (pc t)) false (remove Nat.eq_dec l (held t))) (ts s))
                    (setl (lk s) l (mkL (filter (fun e => negb (Nat.eqb (fst e) i)) (holders L)) (queue L))))
      | Some (Await j k) =>
          match nth_error (ts s) j with
          | Some tj =>
              if k <=? pc tj
              then Some (mkS (upd i (mkT (S (pc t)) false (held t)) (ts s)) (lk s))
              else None
          | None => None
          end
      end
    end.

  Definition init : state :=
    mkS (map (fun _ => mkT 0 false []) progs) (fun _ => mkL [] []).

  Inductive reach : state -> Prop :=
  | reach_init : reach init
  | reach_step : forall s i s', reach s -> step s i = Some s' -> reach s'.

  (** some task has not finished and no task can move *)
  Definition deadlock (s : state) : Prop :=
    (exists i, cur s i <> None) /\ forall i, step s i = None.

  Definition all_finished (s : state) : Prop := forall i, cur s i = None.

  (** executable schedule runner and stuck test (used by the refutations) *)
  Fixpoint run (s : state) (sched : list nat) : option state :=
    match sched with
    | [] => Some s
    | i :: r => match step s i with Some s' => run s' r | None => None end
    end.

  Definition is_none {A} (o : option A) : bool := match o with None => true | Some _ => false end.

  Definition stuckb (s : state) : bool :=
    forallb (fun i => is_none (step s i)) (seq 0 (length (ts s))).

  Definition unfinishedb (s : state) : bool :=
    existsb (fun i => negb (is_none (cur s i))) (seq 0 (length (ts s))).
End Sys.
