//! Shared helpers for the /verif harness crates: one seeded PRNG, argument parsing,
//! Coq term printing, panic capture.
use std::collections::HashMap;
use std::panic::{AssertUnwindSafe, catch_unwind};

/// splitmix64; every random choice of a harness derives from one state so cases replay exactly.
#[derive(Clone, Debug)]
pub struct Rng(pub u64);

impl Rng {
    pub fn new(seed: u64) -> Self {
        Rng(seed)
    }
    pub fn next(&mut self) -> u64 {
        self.0 = self.0.wrapping_add(0x9E3779B97F4A7C15);
        let mut z = self.0;
        z = (z ^ (z >> 30)).wrapping_mul(0xBF58476D1CE4E5B9);
        z = (z ^ (z >> 27)).wrapping_mul(0x94D049BB133111EB);
        z ^ (z >> 31)
    }
    pub fn below(&mut self, n: usize) -> usize {
        if n == 0 { 0 } else { (self.next() % n as u64) as usize }
    }
    pub fn range(&mut self, lo: usize, hi: usize) -> usize {
        lo + self.below(hi.saturating_sub(lo) + 1)
    }
    pub fn chance(&mut self, num: usize, den: usize) -> bool {
        self.below(den) < num
    }
    pub fn pick<'a, T>(&mut self, xs: &'a [T]) -> &'a T {
        &xs[self.below(xs.len())]
    }
    pub fn fork(&mut self) -> Rng {
        Rng(self.next())
    }
}

/// `--key value` and bare flags
pub struct Args {
    pub cmd: String,
    pub kv: HashMap<String, String>,
    pub rest: Vec<String>,
}

impl Args {
    pub fn parse() -> Args {
        let mut it = std::env::args().skip(1);
        let cmd = it.next().unwrap_or_default();
        let mut kv = HashMap::new();
        let mut rest = Vec::new();
        let all: Vec<String> = it.collect();
        let mut i = 0;
        while i < all.len() {
            if let Some(k) = all[i].strip_prefix("--") {
                if i + 1 < all.len() && !all[i + 1].starts_with("--") {
                    kv.insert(k.to_string(), all[i + 1].clone());
                    i += 2;
                } else {
                    kv.insert(k.to_string(), "1".to_string());
                    i += 1;
                }
            } else {
                rest.push(all[i].clone());
                i += 1;
            }
        }
        Args { cmd, kv, rest }
    }
    pub fn u64(&self, k: &str, d: u64) -> u64 {
        self.kv.get(k).and_then(|s| s.parse().ok()).unwrap_or(d)
    }
    pub fn usize(&self, k: &str, d: usize) -> usize {
        self.kv.get(k).and_then(|s| s.parse().ok()).unwrap_or(d)
    }
    pub fn str(&self, k: &str, d: &str) -> String {
        self.kv.get(k).cloned().unwrap_or_else(|| d.to_string())
    }
    pub fn flag(&self, k: &str) -> bool {
        self.kv.contains_key(k)
    }
}

/// run `f`, mapping a panic to Err(message); the default panic hook is silenced once.
pub fn guarded<T>(f: impl FnOnce() -> T) -> Result<T, String> {
    static ONCE: std::sync::Once = std::sync::Once::new();
    ONCE.call_once(|| {
        std::panic::set_hook(Box::new(|_| {}));
    });
    catch_unwind(AssertUnwindSafe(f)).map_err(|e| {
        if let Some(s) = e.downcast_ref::<&str>() {
            s.to_string()
        } else if let Some(s) = e.downcast_ref::<String>() {
            s.clone()
        } else {
            "panic".to_string()
        }
    })
}

// ---- Coq term printing (texts are lists of code points as N) ----
pub fn coq_text(s: &str) -> String {
    let v: Vec<String> = s.chars().map(|c| (c as u32).to_string()).collect();
    format!("[{}]", v.join(";"))
}
pub fn coq_list<T: AsRef<str>>(xs: &[T]) -> String {
    let v: Vec<&str> = xs.iter().map(|x| x.as_ref()).collect();
    format!("[{}]", v.join(";"))
}
pub fn coq_opt(x: Option<String>) -> String {
    match x {
        Some(s) => format!("(Some {})", s),
        None => "None".to_string(),
    }
}
pub fn coq_bool(b: bool) -> &'static str {
    if b { "true" } else { "false" }
}

pub fn json_str(s: &str) -> String {
    serde_json::to_string(s).unwrap()
}
