// shared helpers for vh_cli bins
use emmylua_code_analysis::{
    EmmyLuaAnalysis, WorkspaceFolder, build_workspace_folders, collect_workspace_files, load_configs,
};
use std::path::{Path, PathBuf};
use std::sync::Arc;

/// Load a workspace the way `emmylua_check::init::load_workspace` and
/// `emmylua_doc_cli::init::load_workspace` do (both are private): default config files of the main
/// folder, std lib, library folders from the config, every collected file through
/// `update_files_by_path`.  `main` must be absolute (and canonical for the checker).
pub fn load_workspace_like_cli(main: &Path) -> EmmyLuaAnalysis {
    let main_path: PathBuf = main.to_path_buf();
    let config_files: Vec<PathBuf> = vec![
        main_path.join(".luarc.json"),
        main_path.join(".emmyrc.json"),
    ]
    .into_iter()
    .filter(|p| p.exists())
    .collect();
    let mut emmyrc = load_configs(config_files, None);
    emmyrc.pre_process_emmyrc(&main_path);
    let folders = vec![WorkspaceFolder::new(main_path.clone(), false)];
    let mut analysis = EmmyLuaAnalysis::new();
    analysis.update_config(Arc::new(emmyrc));
    analysis.init_std_lib(None);
    let folders = build_workspace_folders(&folders, &analysis.emmyrc);
    for ws in &folders {
        if ws.is_library {
            analysis.add_library_workspace(ws);
        } else {
            analysis.add_main_workspace(ws.root.clone());
        }
    }
    let infos = collect_workspace_files(&folders, &analysis.emmyrc, None, None);
    let files = infos.into_iter().map(|f| f.into_tuple()).collect();
    analysis.update_files_by_path(files);
    analysis
}

/// run `jobs` closures on up to `par` threads, results in job order
pub fn par_map<T: Send, R: Send>(items: Vec<T>, par: usize, f: impl Fn(T) -> R + Sync) -> Vec<R> {
    let n = items.len();
    let queue = std::sync::Mutex::new(items.into_iter().enumerate().collect::<Vec<_>>());
    let results = std::sync::Mutex::new((0..n).map(|_| None).collect::<Vec<Option<R>>>());
    std::thread::scope(|s| {
        for _ in 0..par.max(1).min(n.max(1)) {
            s.spawn(|| {
                loop {
                    let job = queue.lock().unwrap().pop();
                    let Some((i, item)) = job else { break };
                    let r = f(item);
                    results.lock().unwrap()[i] = Some(r);
                }
            });
        }
    });
    results.into_inner().unwrap().into_iter().map(|r| r.unwrap()).collect()
}
