// shared helpers for vh_cli bins
