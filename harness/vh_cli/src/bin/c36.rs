//! C36 harness: exit status and reports of the real `emmylua_check` binary (fresh processes) against the per-file
//! `diagnose_file` results obtained in-process.
//!   c36 corr   --seed S --n N --combos K --dir D --bin B  -> one JSON line per (workspace, option set): the in-process
//!                                                            diagnostics as model messages + what the binary did
//!   c36 search --seed S --n N --combos K --dir D --bin B  -> violations of the property oracle + summary
//!   c36 one    --case FILE --dir D --bin B                -> replay one workspace ({"files":[[rel,text]..],"rc":{..}}) on all option sets
use lsp_types::{Diagnostic, DiagnosticSeverity, NumberOrString};
use serde_json::{Value, json};
use std::collections::{BTreeMap, BTreeSet, HashMap};
use std::path::{Path, PathBuf};
use std::process::Command;
use tokio_util::sync::CancellationToken;
use vh_cli::{load_workspace_like_cli, par_map};
use vh_common::{Args, Rng};

// ------------------------------------------------------------------ generator

#[derive(Clone, Debug, Default)]
struct Spec {
    files: Vec<(String, String)>, // rel ("main/..", "lib/..") -> text
    rc: Value,                    // extra .emmyrc.json content (diagnostics section)
    planted: Vec<(String, String, usize)>, // (rel file, code, 0-based line) the generator expects
    features: BTreeSet<String>,
    slow: bool, // large workspace checked with a reader that starts late (more results than the channel holds)
}

impl Spec {
    fn to_json(&self) -> Value {
        json!({"files": self.files, "rc": self.rc, "planted": self.planted, "features": self.features,
               "scenario": if self.slow { "slow-reader" } else { "plain" }})
    }
}

fn gen_file(rng: &mut Rng, rel: &str, sp: &mut Spec, mode: usize) -> String {
    let mut t = String::new();
    let mut line = 0usize;
    let eol = if mode == 3 && rng.chance(1, 2) {
        sp.features.insert("crlf".into());
        "\r\n"
    } else if mode == 4 && rng.chance(1, 2) {
        sp.features.insert("lone-cr".into());
        "\r"
    } else {
        "\n"
    };
    let n = rng.range(0, 7);
    let push = |t: &mut String, s: &str, line: &mut usize| {
        t.push_str(s);
        t.push_str(eol);
        *line += 1;
    };
    for k in 0..n {
        match rng.below(9) {
            0 | 1 => {
                sp.planted.push((rel.to_string(), "undefined-global".into(), line));
                push(&mut t, &format!("print(undef_{}_{})", k, rng.below(5)), &mut line);
            }
            2 => {
                sp.planted.push((rel.to_string(), "unused".into(), line));
                push(&mut t, &format!("local unused_{} = {}", k, k), &mut line);
            }
            3 => {
                push(&mut t, "---@param a integer", &mut line);
                push(&mut t, &format!("local function f{}(a) return a end", k), &mut line);
                sp.planted.push((rel.to_string(), "param-type-mismatch".into(), line));
                push(&mut t, &format!("f{}(\"s\")", k), &mut line);
            }
            4 => {
                sp.planted.push((rel.to_string(), "unnecessary-if".into(), line));
                push(&mut t, "if true then print(1) end", &mut line);
            }
            5 => {
                push(&mut t, &format!("local ok_{} = {}", k, k), &mut line);
                push(&mut t, &format!("print(ok_{})", k), &mut line);
            }
            6 => {
                sp.features.insert("non-ascii".into());
                sp.planted.push((rel.to_string(), "undefined-global".into(), line));
                push(&mut t, &format!("print(\"é😀\", undef_u{})", k), &mut line);
            }
            7 => {
                push(&mut t, "", &mut line);
            }
            _ => {
                push(&mut t, "---@type integer", &mut line);
                sp.planted.push((rel.to_string(), "assign-type-mismatch".into(), line));
                push(&mut t, &format!("local ty_{} = \"text\"", k), &mut line);
                push(&mut t, &format!("print(ty_{})", k), &mut line);
            }
        }
    }
    match rng.below(8) {
        0 => {
            // syntax error at the very end, no final newline
            sp.features.insert("syntax-error-at-eof".into());
            sp.planted.push((rel.to_string(), "syntax-error".into(), line));
            t.push_str("local function g(");
        }
        1 => {
            sp.features.insert("syntax-error-then-blank-lines".into());
            sp.planted.push((rel.to_string(), "syntax-error".into(), line));
            push(&mut t, "if x_cond then", &mut line);
            push(&mut t, "", &mut line);
            push(&mut t, "", &mut line);
        }
        2 => {
            // no trailing newline after a diagnostic line
            sp.planted.push((rel.to_string(), "undefined-global".into(), line));
            t.push_str("print(last_undef)");
        }
        _ => {}
    }
    t
}

fn gen_spec(rng: &mut Rng, mode: usize) -> Spec {
    let mut sp = Spec::default();
    let names = ["a.lua", "b.lua", "sub/c.lua", "sub/deep/d.lua", "e.lua", "f.lua", "g h.lua"];
    let nfiles = rng.range(1, 5);
    for i in 0..nfiles {
        let rel = format!("main/{}", names[i]);
        let mut text = gen_file(rng, &rel, &mut sp, mode);
        if rng.chance(1, 8) {
            text = format!("---@meta\n{}", text);
            // every planted line of this file moves down by one; a meta file reports (almost) nothing: forget them
            sp.planted.retain(|p| p.0 != rel);
            sp.features.insert("meta-file".into());
        }
        if rng.chance(1, 8) {
            text = format!("---@diagnostic disable\n{}", text);
            sp.planted.retain(|p| p.0 != rel);
            sp.features.insert("file-disable".into());
        }
        sp.files.push((rel, text));
    }
    if rng.chance(1, 2) {
        // a library with problems of its own: must never be reported
        let mut dummy = Spec::default();
        let text = gen_file(rng, "lib/l.lua", &mut dummy, 0);
        sp.files.push(("lib/l.lua".into(), format!("print(lib_undefined)\n{}", text)));
        sp.features.insert("library-with-diagnostics".into());
    }
    let mut diag = serde_json::Map::new();
    match rng.below(8) {
        0 => {
            diag.insert("severity".into(), json!({"unused": "information", "undefined-global": "warning"}));
            sp.features.insert("severity-override".into());
        }
        1 => {
            diag.insert("severity".into(), json!({"unused": "error", "unnecessary-if": "information", "param-type-mismatch": "hint"}));
            sp.features.insert("severity-override".into());
        }
        2 => {
            diag.insert("disable".into(), json!(["undefined-global"]));
            sp.planted.retain(|p| p.1 != "undefined-global");
            sp.features.insert("code-disabled".into());
        }
        3 | 4 if mode == 2 => {
            diag.insert("enable".into(), json!(false));
            sp.planted.clear();
            sp.features.insert("diagnostics-off".into());
        }
        _ => {}
    }
    sp.rc = json!({"diagnostics": Value::Object(diag)});
    sp
}

/// more main-workspace files than the result channel holds (100), one known diagnostic in most of them
fn gen_large(rng: &mut Rng, n: usize, one_bad: bool) -> Spec {
    let mut sp = Spec::default();
    sp.slow = true;
    let bad = rng.below(n);
    for i in 0..n {
        let rel = format!("main/d{}/f{}.lua", i % 7, i);
        let clean = if one_bad { i != bad } else { rng.chance(1, 10) };
        if clean {
            sp.files.push((rel, format!("local v{} = {}\nprint(v{})\n", i, i, i)));
        } else {
            sp.planted.push((rel.clone(), "undefined-global".into(), 0));
            sp.files.push((rel, format!("print(undef_large_{})\n", i)));
        }
    }
    sp.rc = json!({"diagnostics": {}});
    sp.features.insert(if one_bad { "large-one-bad-file".into() } else { "large-workspace".into() });
    sp
}

fn fixed_specs() -> Vec<Spec> {
    let mut v = Vec::new();
    let mut a = Spec::default();
    a.files = vec![
        ("main/a.lua".into(), "if true then\n".into()),
        ("main/b.lua".into(), "local x = 1\nprint(y)\nlocal t = {}\nt.x.y = 1\n".into()),
        ("main/m.lua".into(), "---@meta\n".into()),
        ("main/c.lua".into(), "print(\"é\", zz)\nlocal function f(\n".into()),
        ("lib/l.lua".into(), "print(lib_undefined)\n".into()),
    ];
    a.rc = json!({"diagnostics": {}});
    a.planted = vec![("main/b.lua".into(), "undefined-global".into(), 1), ("main/c.lua".into(), "undefined-global".into(), 0)];
    a.features.insert("library-with-diagnostics".into());
    v.push(a);
    // a lone CR ends a line for the analyzer; a diagnostic on the second "line" must still be in the text report
    let mut b = Spec::default();
    b.files = vec![
        ("main/cr.lua".into(), "print(x)\rprint(y)\n".into()),
        ("main/e.lua".into(), "print(x)\n\n\nlocal function f(".into()),
    ];
    b.rc = json!({"diagnostics": {}});
    b.planted = vec![("main/cr.lua".into(), "undefined-global".into(), 0), ("main/cr.lua".into(), "undefined-global".into(), 1)];
    b.features.insert("lone-cr".into());
    v.push(b);
    // only warnings: exit status depends on --warnings-as-errors alone
    let mut c = Spec::default();
    c.files = vec![("main/w.lua".into(), "if true then print(1) end\n".into()), ("main/ok.lua".into(), "local v = 1\nprint(v)\n".into())];
    c.rc = json!({"diagnostics": {}});
    c.planted = vec![("main/w.lua".into(), "unnecessary-if".into(), 0)];
    c.features.insert("warnings-only".into());
    v.push(c);
    v
}

fn materialise(dir: &Path, sp: &Spec) {
    let _ = std::fs::remove_dir_all(dir);
    std::fs::create_dir_all(dir.join("main")).unwrap();
    std::fs::create_dir_all(dir.join("lib")).unwrap();
    for (rel, text) in &sp.files {
        let p = dir.join(rel);
        std::fs::create_dir_all(p.parent().unwrap()).unwrap();
        std::fs::write(p, text).unwrap();
    }
    let mut rc = sp.rc.clone();
    if !rc.is_object() {
        rc = json!({});
    }
    rc["workspace"] = json!({"library": [dir.join("lib").to_string_lossy()]});
    std::fs::write(dir.join("main/.emmyrc.json"), serde_json::to_string(&rc).unwrap()).unwrap();
}

// ------------------------------------------------------------------ options

#[derive(Clone, Debug, PartialEq)]
struct Opts {
    format: &'static str,       // json | text | sarif
    filter: Option<&'static str>, // error | warn | info | hint
    wae: bool,
    to_file: bool,
    slow_ms: u64, // stdout is a pipe that is only read after this delay
}

fn filter_level(f: Option<&str>) -> Option<u32> {
    f.map(|s| match s {
        "error" => 1,
        "warn" => 2,
        "info" => 3,
        _ => 4,
    })
}

fn all_opts() -> Vec<Opts> {
    let mut v = Vec::new();
    for format in ["json", "text", "sarif"] {
        for filter in [None, Some("error"), Some("warn"), Some("info"), Some("hint")] {
            for wae in [false, true] {
                for to_file in [false, true] {
                    if format == "text" && to_file {
                        continue;
                    }
                    v.push(Opts { format, filter, wae, to_file, slow_ms: 0 });
                }
            }
        }
    }
    v
}

/// option sets of the large-workspace scenario: stdout into a late reader, and a report file
fn slow_opts(k: usize, delay: u64) -> Vec<Opts> {
    let mut v = vec![
        Opts { format: "json", filter: None, wae: false, to_file: false, slow_ms: delay },
        Opts { format: "json", filter: None, wae: false, to_file: true, slow_ms: 0 },
    ];
    if k >= 8 {
        v.push(Opts { format: "text", filter: Some("error"), wae: false, to_file: false, slow_ms: delay });
        v.push(Opts { format: "sarif", filter: None, wae: true, to_file: true, slow_ms: 0 });
        v.push(Opts { format: "sarif", filter: Some("warn"), wae: false, to_file: false, slow_ms: delay });
    }
    v
}

fn pick_opts(rng: &mut Rng, k: usize) -> Vec<Opts> {
    let all = all_opts();
    let mut v: Vec<Opts> = Vec::new();
    // one of each format first
    for f in ["json", "text", "sarif"] {
        let cands: Vec<&Opts> = all.iter().filter(|o| o.format == f).collect();
        v.push((*rng.pick(&cands)).clone());
    }
    while v.len() < k {
        let o = rng.pick(&all).clone();
        if !v.contains(&o) {
            v.push(o);
        }
    }
    v.truncate(k.max(1));
    v
}

// ------------------------------------------------------------------ in-process ground truth

struct FileDiags {
    rel: String,                    // relative to the case dir ("main/a.lua")
    diags: Option<Vec<Diagnostic>>, // diagnose_file
    lines_by_str_lines: usize,      // text.lines().count()
}

fn ground_truth(dir: &Path) -> Vec<FileDiags> {
    let main = dir.join("main").canonicalize().unwrap();
    let analysis = load_workspace_like_cli(&main);
    let db = analysis.compilation.get_db();
    let mut out = Vec::new();
    let mut ids = db.get_module_index().get_main_workspace_file_ids();
    ids.sort();
    for id in ids {
        let p = db.get_vfs().get_file_path(&id).cloned().unwrap_or_default();
        let rel = p.strip_prefix(dir).map(|r| r.to_string_lossy().to_string()).unwrap_or_else(|_| p.to_string_lossy().to_string());
        let diags = analysis.diagnose_file(id, CancellationToken::new());
        let n = db.get_vfs().get_document(&id).map(|d| d.get_text().lines().count()).unwrap_or(0);
        out.push(FileDiags { rel, diags, lines_by_str_lines: n });
    }
    out
}

fn sev_num(s: Option<DiagnosticSeverity>) -> Option<u32> {
    match s {
        Some(DiagnosticSeverity::ERROR) => Some(1),
        Some(DiagnosticSeverity::WARNING) => Some(2),
        Some(DiagnosticSeverity::INFORMATION) => Some(3),
        Some(DiagnosticSeverity::HINT) => Some(4),
        Some(_) => Some(9),
        None => None,
    }
}

fn code_str(d: &Diagnostic) -> Option<String> {
    d.code.as_ref().map(|c| match c {
        NumberOrString::Number(n) => n.to_string(),
        NumberOrString::String(s) => s.clone(),
    })
}

/// how a diagnostic must look in a report of the given format (the oracle's own rendering rules)
fn expected_rendering(format: &str, rel: &str, d: &Diagnostic) -> String {
    match format {
        "json" => serde_json::to_value(d).unwrap().to_string(),
        "sarif" => {
            let level = match sev_num(d.severity) {
                Some(1) => "error",
                Some(2) => "warning",
                _ => "note",
            };
            json!([code_str(d).unwrap_or_else(|| "unknown".into()), level, d.message,
                   d.range.start.line + 1, d.range.start.character + 1, d.range.end.line + 1, d.range.end.character + 1]).to_string()
        }
        _ => {
            let level = match sev_num(d.severity) {
                Some(1) => "error",
                Some(2) => "warning",
                Some(3) => "info",
                Some(4) => "hint",
                _ => "error",
            };
            let code = code_str(d).map(|c| format!(" [{}]", c)).unwrap_or_default();
            let file = rel.strip_prefix("main/").unwrap_or(rel);
            json!([format!("{}: {}{}", level, d.message, code), format!("{}:{}:{}", file, d.range.start.line + 1, d.range.start.character + 1)]).to_string()
        }
    }
}

// ------------------------------------------------------------------ running and parsing

struct Observed {
    status: Option<i32>,
    blocks: Vec<(String, Vec<String>)>, // file (rel to case dir), renderings, in report order
    counts: Option<[u64; 4]>,
    parse_error: Option<String>,
    stderr_tail: String,
}

fn rel_to(dir: &Path, abs: &str) -> String {
    Path::new(abs).strip_prefix(dir).map(|r| r.to_string_lossy().to_string()).unwrap_or_else(|_| abs.to_string())
}

fn percent_decode(s: &str) -> String {
    let b = s.as_bytes();
    let mut out = Vec::new();
    let mut i = 0;
    while i < b.len() {
        if b[i] == b'%' && i + 2 < b.len() && s.is_char_boundary(i + 1) && s.is_char_boundary(i + 3) {
            if let Ok(v) = u8::from_str_radix(&s[i + 1..i + 3], 16) {
                out.push(v);
                i += 3;
                continue;
            }
        }
        out.push(b[i]);
        i += 1;
    }
    String::from_utf8_lossy(&out).to_string()
}

fn parse_text(dir: &Path, stdout: &str) -> Result<(Vec<(String, Vec<String>)>, Option<[u64; 4]>), String> {
    let mut blocks: Vec<(String, Vec<String>)> = Vec::new();
    let mut counts: Option<[u64; 4]> = None;
    let lines: Vec<&str> = stdout.split('\n').collect();
    let levels = ["error: ", "warning: ", "info: ", "hint: "];
    let mut i = 0;
    let mut in_summary = false;
    while i < lines.len() {
        let l = lines[i];
        if in_summary {
            let t = l.trim();
            let mut it = t.split(' ');
            if let (Some(n), Some(w)) = (it.next(), it.next()) {
                if let Ok(n) = n.parse::<u64>() {
                    let c = counts.get_or_insert([0; 4]);
                    if w.starts_with("error") { c[0] = n } else if w.starts_with("warning") { c[1] = n } else if w.starts_with("info") { c[2] = n } else if w.starts_with("hint") { c[3] = n }
                }
            }
            i += 1;
            continue;
        }
        if l == "No issues found" {
            counts = Some([0; 4]);
        } else if l == "Summary" {
            in_summary = true;
            counts.get_or_insert([0; 4]);
        } else if let Some(rest) = l.strip_prefix("--- ") {
            let path = match rest.rfind(" [") {
                Some(k) => &rest[..k],
                None => rest.trim_end(),
            };
            blocks.push((format!("main/{}", path), Vec::new()));
        } else if levels.iter().any(|p| l.starts_with(p)) {
            // header (possibly several lines) up to the location line
            let mut header = l.to_string();
            let mut j = i + 1;
            let mut loc = None;
            while j < lines.len() {
                if let Some(x) = lines[j].strip_prefix("  --> ") {
                    loc = Some(x.to_string());
                    break;
                }
                header.push('\n');
                header.push_str(lines[j]);
                j += 1;
            }
            let Some(loc) = loc else { return Err(format!("diagnostic header without location near line {}", i + 1)) };
            match blocks.last_mut() {
                Some(b) => b.1.push(json!([header, loc]).to_string()),
                None => return Err("diagnostic before any file header".into()),
            }
            i = j;
        }
        i += 1;
    }
    let _ = dir;
    Ok((blocks, counts))
}

fn run_check(bin: &str, dir: &Path, o: &Opts, tag: usize) -> Observed {
    let mut cmd = Command::new(bin);
    cmd.current_dir(dir);
    cmd.args(["-f", o.format]);
    if let Some(f) = o.filter {
        cmd.args(["--severity", f]);
    }
    if o.wae {
        cmd.arg("--warnings-as-errors");
    }
    let outfile = dir.join(format!("report{}.{}", tag, o.format));
    let _ = std::fs::remove_file(&outfile);
    if o.to_file {
        cmd.arg("--output").arg(&outfile);
    }
    cmd.arg(dir.join("main"));
    let res = if o.slow_ms > 0 {
        // the reader of the pipe starts late: the report loop blocks in println! while the workers finish
        cmd.stdout(std::process::Stdio::piped()).stderr(std::process::Stdio::piped()).stdin(std::process::Stdio::null());
        cmd.spawn().and_then(|child| {
            std::thread::sleep(std::time::Duration::from_millis(o.slow_ms));
            child.wait_with_output()
        })
    } else {
        cmd.output()
    };
    let r = match res {
        Ok(r) => r,
        Err(e) => return Observed { status: None, blocks: vec![], counts: None, parse_error: Some(format!("spawn: {e}")), stderr_tail: String::new() },
    };
    let stdout = String::from_utf8_lossy(&r.stdout).to_string();
    let stderr = String::from_utf8_lossy(&r.stderr).to_string();
    let report = if o.to_file { std::fs::read_to_string(&outfile).unwrap_or_default() } else { stdout.clone() };
    let mut obs = Observed { status: r.status.code(), blocks: vec![], counts: None, parse_error: None,
        stderr_tail: stderr.chars().rev().take(400).collect::<String>().chars().rev().collect() };
    match o.format {
        "json" => {
            if report.trim().is_empty() {
                return obs; // nothing written: no file had diagnostics enabled
            }
            match serde_json::from_str::<Value>(&report) {
                Ok(Value::Array(a)) => {
                    for b in a {
                        let f = rel_to(dir, b["file"].as_str().unwrap_or("?"));
                        let ds = b["diagnostics"].as_array().cloned().unwrap_or_default().iter().map(|d| d.to_string()).collect();
                        obs.blocks.push((f, ds));
                    }
                }
                Ok(_) => obs.parse_error = Some("JSON report is not an array".into()),
                Err(e) => obs.parse_error = Some(format!("JSON report does not parse: {e}")),
            }
        }
        "sarif" => match serde_json::from_str::<Value>(&report) {
            Ok(v) => {
                for res in v["runs"][0]["results"].as_array().cloned().unwrap_or_default() {
                    let loc = &res["locations"][0]["physicalLocation"];
                    let uri = loc["artifactLocation"]["uri"].as_str().unwrap_or("?");
                    let path = percent_decode(uri.strip_prefix("file://").unwrap_or(uri));
                    let f = rel_to(dir, &path);
                    let rg = &loc["region"];
                    let s = json!([res["ruleId"], res["level"], res["message"]["text"], rg["startLine"], rg["startColumn"], rg["endLine"], rg["endColumn"]]).to_string();
                    match obs.blocks.last_mut() {
                        Some(b) if b.0 == f => b.1.push(s),
                        _ => obs.blocks.push((f, vec![s])),
                    }
                }
            }
            Err(e) => obs.parse_error = Some(format!("SARIF report does not parse: {e}")),
        },
        _ => match parse_text(dir, &report) {
            Ok((b, c)) => {
                obs.blocks = b;
                obs.counts = c;
            }
            Err(e) => obs.parse_error = Some(e),
        },
    }
    obs
}

// ------------------------------------------------------------------ oracle (independent of the Coq model)

struct Viol {
    sig: String,
    what: String,
}

fn passes(filter: Option<u32>, sev: Option<u32>) -> bool {
    match (filter, sev) {
        (None, _) => true,
        (Some(f), Some(s)) => s <= f,
        (Some(_), None) => false,
    }
}

fn oracle(truth: &[FileDiags], o: &Opts, obs: &Observed) -> Vec<Viol> {
    let mut out = Vec::new();
    let fl = filter_level(o.filter);
    let desc = format!("-f {}{}{}{}{}", o.format, o.filter.map(|f| format!(" --severity {}", f)).unwrap_or_default(),
        if o.wae { " --warnings-as-errors" } else { "" }, if o.to_file { " --output <file>" } else { "" },
        if o.slow_ms > 0 { format!(" | (sleep {}ms; cat)", o.slow_ms) } else { String::new() });
    if let Some(e) = &obs.parse_error {
        out.push(Viol { sig: format!("report-unparsable-{}", o.format), what: format!("{}: {}", desc, e) });
        return out;
    }
    // expected
    let mut want_error = false;
    let mut exp: BTreeMap<String, Vec<(String, Option<u32>, u32)>> = BTreeMap::new(); // file -> renderings with severity and start line
    let mut counts = [0u64; 4];
    for f in truth {
        if let Some(ds) = &f.diags {
            let e = exp.entry(f.rel.clone()).or_default();
            for d in ds {
                let s = sev_num(d.severity);
                if !passes(fl, s) {
                    continue;
                }
                if s == Some(1) || (s == Some(2) && o.wae) {
                    want_error = true;
                }
                if let Some(k @ 1..=4) = s {
                    counts[(k - 1) as usize] += 1;
                }
                e.push((expected_rendering(o.format, &f.rel, d), s, d.range.start.line));
            }
        }
    }
    // ---- exit status
    match obs.status {
        Some(0) => {
            if want_error {
                out.push(Viol { sig: "exit-zero-with-error".into(), what: format!("{}: exit status 0 although a filtered diagnostic counts as an error", desc) });
            }
        }
        Some(1) => {
            if !want_error {
                out.push(Viol { sig: "exit-nonzero-without-error".into(), what: format!("{}: exit status 1 although no filtered diagnostic counts as an error; stderr: {}", desc, obs.stderr_tail) });
            }
        }
        other => out.push(Viol { sig: "checker-crashed".into(), what: format!("{}: exit status {:?}; stderr: {}", desc, other, obs.stderr_tail) }),
    }
    // ---- report content: per file, multiset of renderings
    let mut seen_files: BTreeMap<&String, usize> = BTreeMap::new();
    let mut got: BTreeMap<String, Vec<String>> = BTreeMap::new();
    for (f, ds) in &obs.blocks {
        *seen_files.entry(f).or_default() += 1;
        got.entry(f.clone()).or_default().extend(ds.iter().cloned());
    }
    if o.format != "sarif" {
        for (f, n) in &seen_files {
            if *n > 1 {
                out.push(Viol { sig: format!("report-file-twice-{}", o.format), what: format!("{}: file {} has {} blocks in the report", desc, f, n) });
            }
        }
    }
    for f in got.keys() {
        if !exp.contains_key(f) {
            let foreign = !truth.iter().any(|t| &t.rel == f);
            out.push(Viol { sig: if foreign { format!("report-foreign-file-{}", o.format) } else { format!("report-disabled-file-{}", o.format) },
                what: format!("{}: the report has an entry for {} which {}", desc, f, if foreign { "is not a main-workspace file" } else { "has diagnostics disabled" }) });
        }
    }
    for (f, want) in &exp {
        let have = got.get(f).cloned().unwrap_or_default();
        if o.format == "json" && !got.contains_key(f) {
            let missing = exp.keys().filter(|k| !got.contains_key(*k)).count();
            out.push(Viol { sig: "report-missing-file-json".into(), what: format!("{}: main-workspace file {} has no block in the JSON report ({} of {} files missing)", desc, f, missing, exp.len()) });
        }
        let mut hm: HashMap<&String, i64> = HashMap::new();
        for h in &have {
            *hm.entry(h).or_default() += 1;
        }
        for (w, _, line) in want {
            let e = hm.entry(w).or_default();
            *e -= 1;
            if *e < 0 {
                let lines = truth.iter().find(|t| &t.rel == f).map(|t| t.lines_by_str_lines).unwrap_or(0);
                let sig = if o.format == "text" && (*line as usize) >= lines {
                    "text-report-drops-diagnostic-past-last-str-line".to_string()
                } else {
                    format!("report-missing-diagnostic-{}", o.format)
                };
                out.push(Viol { sig, what: format!("{}: diagnostic {} of {} is not in the report (or fewer times than diagnosed)", desc, w, f) });
                *e = 0;
            }
        }
        for (h, n) in hm {
            if n > 0 {
                out.push(Viol { sig: format!("report-extra-diagnostic-{}", o.format), what: format!("{}: the report lists {} under {} {} time(s) more than diagnosed after the filter", desc, h, f, n) });
            }
        }
        // order inside a file follows diagnose_file
        let want_seq: Vec<&String> = want.iter().map(|w| &w.0).collect();
        let have_seq: Vec<&String> = have.iter().collect();
        if want_seq.len() == have_seq.len() && want_seq != have_seq {
            let mut a = want_seq.clone();
            let mut b = have_seq.clone();
            a.sort();
            b.sort();
            if a == b {
                // same multiset, different order: not demanded by the property; counted, not reported
            }
        }
    }
    if o.format == "text" {
        match obs.counts {
            Some(c) if c != counts => out.push(Viol { sig: "summary-count-mismatch".into(), what: format!("{}: summary says {:?}, the filtered diagnostics are {:?} (errors, warnings, info, hints)", desc, c, counts) }),
            None => out.push(Viol { sig: "summary-missing".into(), what: format!("{}: the text report has no summary", desc) }),
            _ => {}
        }
    }
    out
}

// ------------------------------------------------------------------ model case (for Coq)

fn model_case(truth: &[FileDiags], o: &Opts, obs: &Observed) -> Value {
    // number the files: index in `truth`; unknown files of the report get 1000+
    let mut fidx: HashMap<String, u64> = HashMap::new();
    for (i, f) in truth.iter().enumerate() {
        fidx.insert(f.rel.clone(), i as u64);
    }
    let mut unknown = 1000u64;
    let mut ids: HashMap<(u64, String), u64> = HashMap::new(); // (file, rendering) -> id
    let mut next = 0u64;
    let mut id_of = |file: u64, r: &str, ids: &mut HashMap<(u64, String), u64>| -> u64 {
        *ids.entry((file, r.to_string())).or_insert_with(|| {
            next += 1;
            next
        })
    };
    let mut msgs_by_file: BTreeMap<u64, Value> = BTreeMap::new();
    for (i, f) in truth.iter().enumerate() {
        let v = match &f.diags {
            None => Value::Null,
            Some(ds) => Value::Array(ds.iter().map(|d| json!([sev_num(d.severity), id_of(i as u64, &expected_rendering(o.format, &f.rel, d), &mut ids)])).collect()),
        };
        msgs_by_file.insert(i as u64, v);
    }
    let mut blocks = Vec::new();
    let mut order: Vec<u64> = Vec::new();
    for (f, ds) in &obs.blocks {
        let fi = *fidx.entry(f.clone()).or_insert_with(|| {
            unknown += 1;
            unknown
        });
        if !order.contains(&fi) {
            order.push(fi);
        }
        let dids: Vec<u64> = ds.iter().map(|r| id_of(fi, r, &mut ids)).collect();
        blocks.push(json!([fi, dids]));
    }
    // arrival order: files in the order of the report, the others after
    let mut msgs = Vec::new();
    for fi in order.iter().chain(msgs_by_file.keys().filter(|k| !order.contains(k)).collect::<Vec<_>>().into_iter()) {
        if let Some(v) = msgs_by_file.get(fi) {
            msgs.push(json!([fi, v]));
        }
    }
    // sarif: the report is flat, blocks of consecutive results of the same file were grouped by the parser: flatten again
    let flat: Vec<Value> = blocks.iter().flat_map(|b| b[1].as_array().unwrap().iter().map(|d| json!([b[0], d])).collect::<Vec<_>>()).collect();
    json!({
        "format": o.format, "filter": filter_level(o.filter), "wae": o.wae, "to_file": o.to_file,
        "total": truth.len(), "msgs": msgs, "exit": match obs.status { Some(0) => 0, _ => 1 }, "status": obs.status,
        "blocks": blocks, "flat": flat, "counts": obs.counts, "parse_error": obs.parse_error,
    })
}

// ------------------------------------------------------------------ driver

fn spec_from_json(c: &Value) -> Spec {
    let mut sp = Spec::default();
    sp.files = serde_json::from_value(c["files"].clone()).unwrap();
    sp.rc = c["rc"].clone();
    sp.planted = serde_json::from_value(c["planted"].clone()).unwrap_or_default();
    sp.features = serde_json::from_value(c["features"].clone()).unwrap_or_default();
    sp.slow = c["scenario"] == json!("slow-reader");
    sp
}

/// hand-written witnesses and past failures: corpus/C36/*.json (sorted by name), else the built-in copies
fn corpus_specs(corpus: &str) -> Vec<Spec> {
    let mut names: Vec<PathBuf> = std::fs::read_dir(corpus).map(|rd| rd.flatten().map(|e| e.path()).filter(|p| p.extension().map(|e| e == "json").unwrap_or(false)).collect()).unwrap_or_default();
    names.sort();
    let v: Vec<Spec> = names.iter().filter_map(|p| std::fs::read_to_string(p).ok()).filter_map(|t| serde_json::from_str::<Value>(&t).ok()).map(|c| spec_from_json(&c)).collect();
    if v.is_empty() { fixed_specs() } else { v }
}

fn specs(seed: u64, n: usize, salt: u64, corpus: &str) -> Vec<Spec> {
    let mut rng = Rng::new(seed ^ 0xC36 ^ salt);
    let mut v = corpus_specs(corpus);
    for i in 0..n {
        v.push(gen_spec(&mut rng, i % 5));
    }
    v
}

fn fnv(bytes: &[u8]) -> u64 {
    let mut h: u64 = 0xcbf29ce484222325;
    for b in bytes {
        h ^= *b as u64;
        h = h.wrapping_mul(0x100000001b3);
    }
    h
}

fn main() {
    let args = Args::parse();
    let seed = args.u64("seed", 1);
    let n = args.usize("n", 4);
    let combos = args.usize("combos", 5);
    let par = args.usize("par", 8);
    let bin = args.str("bin", "emmylua_check");
    let base = PathBuf::from(args.str("dir", "c36_work"));
    std::fs::create_dir_all(&base).unwrap();
    let base = base.canonicalize().unwrap();
    let mode = args.cmd.clone();
    let corpus = args.str("corpus", "/verif/corpus/C36");
    let large = args.usize("large", 0);
    let delay = args.u64("delay", 5000);
    let all: Vec<Spec> = match mode.as_str() {
        // the large-workspace scenario belongs to the search (the model's case would only be bigger, not different)
        "corr" => specs(seed, n, 0x1000, &corpus).into_iter().filter(|s| !s.slow).collect(),
        "search" => {
            let mut v = specs(seed, n, 0x2000, &corpus);
            let mut rng = Rng::new(seed ^ 0x1A26E);
            for k in 0..large {
                let nfiles = 150 + rng.below(260);
                v.push(gen_large(&mut rng, nfiles, k % 2 == 1));
            }
            v
        }
        "one" => {
            let v: Value = serde_json::from_str(&std::fs::read_to_string(args.str("case", "")).expect("case file")).expect("case json");
            let c = if v.get("spec").is_some() { v["spec"].clone() } else { v.clone() };
            vec![spec_from_json(&c)]
        }
        "dump-large" => {
            let mut rng = Rng::new(0x1A26E);
            let sp = gen_large(&mut rng, args.usize("files", 320), false);
            std::fs::create_dir_all(&corpus).unwrap();
            std::fs::write(Path::new(&corpus).join("witness04_large.json"), serde_json::to_string(&sp.to_json()).unwrap()).unwrap();
            return;
        }
        "dump-fixed" => {
            for (i, sp) in fixed_specs().iter().enumerate() {
                std::fs::create_dir_all(&corpus).unwrap();
                std::fs::write(Path::new(&corpus).join(format!("witness{:02}.json", i)), serde_json::to_string_pretty(&sp.to_json()).unwrap()).unwrap();
            }
            return;
        }
        _ => {
            eprintln!("usage: c36 corr|search|one --dir D --bin B [--seed S --n N --combos K]");
            std::process::exit(2);
        }
    };
    // stage 1: materialise + ground truth (in-process, sequential: the analysis is not cheap but small)
    let mut rng = Rng::new(seed ^ 0x36C0 ^ if mode == "corr" { 1 } else { 2 });
    struct Prepared {
        idx: usize,
        sp: Spec,
        dir: PathBuf,
        truth: Vec<FileDiags>,
        opts: Vec<Opts>,
    }
    let mut prepared = Vec::new();
    for (idx, sp) in all.into_iter().enumerate() {
        let dir = base.join(format!("{}{}", mode, idx));
        materialise(&dir, &sp);
        let truth = ground_truth(&dir);
        let opts = if sp.slow { slow_opts(if mode == "one" { 8 } else { combos }, delay) } else if mode == "one" { all_opts() } else { pick_opts(&mut rng, combos) };
        prepared.push(Prepared { idx, sp, dir, truth, opts });
    }
    // stage 2: the real binary, in parallel
    let mut jobs = Vec::new();
    for (pi, p) in prepared.iter().enumerate() {
        for (oi, o) in p.opts.iter().enumerate() {
            jobs.push((pi, oi, o.clone()));
        }
    }
    let results = par_map(jobs, par, |(pi, oi, o)| {
        let p = &prepared[pi];
        let obs = run_check(&bin, &p.dir, &o, oi);
        (pi, oi, o, obs)
    });
    let mut nviol = 0usize;
    let mut distinct = BTreeSet::new();
    let mut feats: BTreeMap<String, usize> = BTreeMap::new();
    let (mut ndiag, mut nfiles, mut nplanted, mut nplanted_found, mut nnone) = (0usize, 0usize, 0usize, 0usize, 0usize);
    let mut sevs = [0usize; 5];
    for p in &prepared {
        for f in &p.sp.features {
            *feats.entry(f.clone()).or_default() += 1;
        }
        let mut has = false;
        for f in &p.truth {
            nfiles += 1;
            match &f.diags {
                None => nnone += 1,
                Some(ds) => {
                    ndiag += ds.len();
                    has |= !ds.is_empty();
                    for d in ds {
                        sevs[sev_num(d.severity).filter(|s| *s <= 4).unwrap_or(0) as usize] += 1;
                    }
                }
            }
        }
        for (rel, code, line) in &p.sp.planted {
            nplanted += 1;
            if p.truth.iter().any(|f| &f.rel == rel && f.diags.as_ref().map(|ds| ds.iter().any(|d| code_str(d).as_deref() == Some(code.as_str()) && d.range.start.line as usize == *line)).unwrap_or(false)) {
                nplanted_found += 1;
            }
        }
        if has {
            distinct.insert(fnv(serde_json::to_string(&p.sp.files).unwrap().as_bytes()));
        }
    }
    let mut by_format: BTreeMap<String, usize> = BTreeMap::new();
    let mut distinct_runs = BTreeSet::new();
    for (pi, oi, o, obs) in &results {
        let p = &prepared[*pi];
        *by_format.entry(o.format.to_string()).or_default() += 1;
        if p.truth.iter().any(|f| f.diags.as_ref().map(|d| !d.is_empty()).unwrap_or(false)) {
            distinct_runs.insert(fnv(format!("{}{:?}", serde_json::to_string(&p.sp.files).unwrap(), o).as_bytes()));
        }
        if mode == "corr" {
            let mut c = model_case(&p.truth, o, obs);
            c["case"] = json!(p.idx);
            c["combo"] = json!(oi);
            c["nontrivial"] = json!(p.truth.iter().any(|f| f.diags.as_ref().map(|d| !d.is_empty()).unwrap_or(false)));
            c["spec"] = p.sp.to_json();
            println!("{}", c);
        } else {
            let mut seen = BTreeSet::new();
            for v in oracle(&p.truth, o, obs) {
                if seen.insert(v.sig.clone()) {
                    nviol += 1;
                    println!("{}", json!({"signature": v.sig, "what": v.what, "case": p.idx, "spec": p.sp.to_json(),
                        "opts": {"format": o.format, "filter": o.filter, "wae": o.wae, "to_file": o.to_file, "slow_reader_ms": o.slow_ms}}));
                }
            }
        }
    }
    if mode != "corr" {
        println!("{}", json!({"summary": {"cases": results.len(), "workspaces": prepared.len(), "distinct_nontrivial": distinct_runs.len(), "distinct_nontrivial_workspaces": distinct.len(),
            "processes": results.len(), "by_format": by_format, "files": nfiles, "files_with_diagnostics_disabled": nnone,
            "diagnostics": ndiag, "by_severity_none_e_w_i_h": sevs, "planted": nplanted, "planted_found": nplanted_found,
            "features": feats, "violations": nviol}}));
    }
}
