//! C35 harness: the documentation export of `emmylua_doc_cli` (real binary, fresh processes).
//!   c35 corr   --seed S --n N --dir D --bin B --runs R   -> one JSON line per generated workspace: the index content
//!                                                           (dumped in-process) + what the real binary exported
//!   c35 search --seed S --n N --dir D --bin B --runs R   -> violations of the property oracle (generator's own
//!                                                           knowledge of what is declared; byte equality across runs)
//!   c35 one    --case FILE --dir D --bin B --runs R      -> replay one workspace ({"files":[[rel,text],..]})
use emmylua_code_analysis::{LuaTypeOwner};
use serde_json::{Value, json};
use std::collections::{BTreeMap, BTreeSet};
use std::path::{Path, PathBuf};
use std::process::Command;
use vh_cli::{load_workspace_like_cli, par_map};
use vh_common::{Args, Rng};

// ------------------------------------------------------------------ generator

#[derive(Clone, Debug, Default)]
struct Spec {
    files: Vec<(String, String)>,              // rel path ("main/..", "lib/..") -> text
    types: BTreeMap<String, (String, Vec<String>)>, // full name -> (kind, main files declaring it)
    globals: BTreeMap<String, Vec<String>>,    // name -> main files assigning it
    modules: Vec<(String, bool)>,              // main rel file, returns something
    lib_types: BTreeSet<String>,
    lib_globals: BTreeSet<String>,
    features: BTreeSet<String>,
}

impl Spec {
    fn to_json(&self) -> Value {
        json!({
            "files": self.files, "types": self.types, "globals": self.globals, "modules": self.modules,
            "lib_types": self.lib_types, "lib_globals": self.lib_globals, "features": self.features,
        })
    }
    fn nontrivial(&self) -> bool {
        !self.types.is_empty() && !self.globals.is_empty() && self.modules.len() >= 2
    }
}

const MAIN_PATHS: &[&str] = &[
    "m0.lua", "m1.lua", "foo.lua", "sub/bar/init.lua", "sub/m2.lua", "sub/init.lua", "pkg/deep/m3.lua", "init.lua", "m4.lua", "x-y.lua", "sub/m0.lua", "zz.lua",
];
const DESCS: &[&str] = &["first text", "second text", "Third.", "zeta", "alpha"];

fn gen_spec(rng: &mut Rng, mode: usize) -> Spec {
    let mut sp = Spec::default();
    let mut nfiles = rng.range(2, 6);
    let mut paths: Vec<&str> = MAIN_PATHS.to_vec();
    let mut chosen = Vec::new();
    for _ in 0..nfiles {
        let i = rng.below(paths.len());
        chosen.push(paths.remove(i).to_string());
    }
    // modules with EQUAL names: `x.lua` and `x/init.lua` are both module `x` (ties of a name-only sort key)
    for (a, b) in [("foo.lua", "foo/init.lua"), ("sub/bar.lua", "sub/bar/init.lua"), ("m1.lua", "m1/init.lua"), ("foo.lua", "Foo.lua")] {
        if rng.chance(2, 5) {
            for f in [a, b] {
                if !chosen.iter().any(|c| c == f) {
                    chosen.push(f.to_string());
                }
            }
            sp.features.insert("modules-with-equal-names".into());
        }
    }
    nfiles = chosen.len();
    let mut texts: Vec<String> = vec![String::new(); nfiles];
    let mut ns: Vec<Option<String>> = vec![None; nfiles];
    for i in 0..nfiles {
        if mode != 0 && rng.chance(1, 5) {
            let n = format!("NS{}", rng.below(2));
            texts[i].push_str(&format!("---@namespace {}\n\n", n));
            ns[i] = Some(n);
            sp.features.insert("namespace".into());
        }
    }
    let full = |ns: &Option<String>, name: &str| match ns {
        Some(n) => format!("{}.{}", n, name),
        None => name.to_string(),
    };
    let mut tcount = 0usize;
    let mut gcount = 0usize;
    let mut class_names: Vec<String> = Vec::new();
    let add_type = |sp: &mut Spec, fullname: String, kind: &str, file: &str| {
        let e = sp.types.entry(fullname).or_insert((kind.to_string(), Vec::new()));
        e.1.push(format!("main/{}", file));
    };
    for i in 0..nfiles {
        let nitems = rng.range(1, 6);
        let mut ret: Option<String> = None;
        for _ in 0..nitems {
            let k = rng.below(10);
            match k {
                0..=2 => {
                    // class
                    let name = format!("C{}", tcount);
                    tcount += 1;
                    if rng.chance(1, 2) {
                        texts[i].push_str(&format!("---{} {}\n", rng.pick(DESCS), name));
                    }
                    let parent = if !class_names.is_empty() && rng.chance(1, 3) {
                        format!(": {}", rng.pick(&class_names))
                    } else {
                        String::new()
                    };
                    texts[i].push_str(&format!("---@class {}{}\n", name, parent));
                    for f in 0..rng.below(3) {
                        texts[i].push_str(&format!("---@field f{} {}\n", f, rng.pick(&["integer", "string", "boolean"])));
                    }
                    texts[i].push_str(&format!("local {} = {{}}\nfunction {}.m{}() end\n\n", name, name, i));
                    add_type(&mut sp, full(&ns[i], &name), "class", &chosen[i]);
                    if ns[i].is_none() {
                        class_names.push(name.clone());
                    }
                    if rng.chance(1, 4) {
                        ret = Some(name.clone());
                    }
                    if mode >= 1 && rng.chance(1, 5) {
                        // a class whose name differs only by case, with members differing only by case
                        let lower = name.to_lowercase();
                        texts[i].push_str(&format!("---@class {}\n---@field val integer\n---@field Val string\n\n", lower));
                        add_type(&mut sp, full(&ns[i], &lower), "class", &chosen[i]);
                        sp.features.insert("names-differing-by-case".into());
                    }
                    // split: declare the same class again in another file (partial class)
                    if mode >= 2 && nfiles > 1 && rng.chance(1, 3) {
                        let j = (i + 1 + rng.below(nfiles - 1)) % nfiles;
                        if ns[j] == ns[i] {
                            let d = rng.pick(DESCS);
                            let parent2 = if mode >= 3 && !class_names.is_empty() && rng.chance(1, 2) {
                                format!(": {}", rng.pick(&class_names))
                            } else {
                                String::new()
                            };
                            let desc_line = if mode >= 3 { format!("---{} (other part of {})\n", d, name) } else { String::new() };
                            // both parts declare a member of the same name
                            texts[i].push_str(&format!("---@class {}\n---@field dup integer\n\n", name));
                            let extra = format!("{}---@class {}{}\n---@field g{} string\n---@field dup string\n\n", desc_line, name, parent2, j);
                            texts[j].push_str(&extra);
                            add_type(&mut sp, full(&ns[j], &name), "class", &chosen[j]);
                            sp.features.insert(if mode >= 3 { "split-class-desc".into() } else { "split-class".into() });
                        }
                    }
                }
                3 => {
                    let name = format!("E{}", tcount);
                    tcount += 1;
                    let n = rng.range(2, 5);
                    let strs = rng.chance(1, 2);
                    let members: Vec<String> = (0..n)
                        .map(|m| if strs { format!("K{} = \"v{}\"", m, m) } else { format!("K{} = {}", m, m + 1) })
                        .collect();
                    texts[i].push_str(&format!("---@enum {}\nlocal {} = {{ {} }}\n\n", name, name, members.join(", ")));
                    add_type(&mut sp, full(&ns[i], &name), "enum", &chosen[i]);
                    sp.features.insert("enum".into());
                }
                4 => {
                    let name = format!("A{}", tcount);
                    tcount += 1;
                    texts[i].push_str(&format!("---@alias {} {}\n\n", name, rng.pick(&["string|integer", "integer", "fun(x: integer): string", "'a'|'b'"])));
                    add_type(&mut sp, full(&ns[i], &name), "alias", &chosen[i]);
                    // the same alias name declared again in another file
                    if mode >= 3 && nfiles > 1 && rng.chance(1, 3) {
                        let j = (i + 1 + rng.below(nfiles - 1)) % nfiles;
                        if ns[j] == ns[i] {
                            texts[j].push_str(&format!("---@alias {} boolean\n\n", name));
                            add_type(&mut sp, full(&ns[j], &name), "alias", &chosen[j]);
                            sp.features.insert("alias-in-two-files".into());
                        }
                    }
                }
                _ => {
                    // global
                    let name = format!("G{}", gcount);
                    gcount += 1;
                    if rng.chance(1, 3) {
                        texts[i].push_str(&format!("---{} {}\n", rng.pick(DESCS), name));
                    }
                    let form = rng.below(5);
                    let stmt = match form {
                        0 => format!("{} = {}\n", name, rng.below(100)),
                        1 => format!("{} = \"s{}\"\n", name, rng.below(9)),
                        2 => format!("{} = {{}}\nfunction {}.f() end\n", name, name),
                        3 => format!("function {}(a) return a end\n", name),
                        _ => format!("{} = true\n", name),
                    };
                    texts[i].push_str(&stmt);
                    texts[i].push('\n');
                    sp.globals.entry(name.clone()).or_default().push(format!("main/{}", chosen[i]));
                    if rng.chance(1, 5) {
                        // re-assignment in the same file
                        texts[i].push_str(&format!("{} = {}\n\n", name, rng.below(100)));
                        sp.features.insert("global-reassigned-same-file".into());
                    }
                    if mode >= 1 && nfiles > 1 && rng.chance(1, 4) {
                        let j = (i + 1 + rng.below(nfiles - 1)) % nfiles;
                        texts[j].push_str(&format!("{} = {}\n\n", name, 1000 + rng.below(100)));
                        sp.globals.get_mut(&name).unwrap().push(format!("main/{}", chosen[j]));
                        sp.features.insert("global-in-two-files".into());
                        // a second global whose name differs only by case, next to one of the two assignments
                        if rng.chance(1, 2) {
                            let lower = name.to_lowercase();
                            let k = if rng.chance(1, 2) { i } else { j };
                            texts[k].push_str(&format!("{} = true\n\n", lower));
                            sp.globals.entry(lower).or_default().push(format!("main/{}", chosen[k]));
                            sp.features.insert("names-differing-by-case".into());
                        }
                    }
                }
            }
        }
        // what the file returns
        let r = rng.below(6);
        let returns = match (r, &ret) {
            (0, _) | (1, _) => {
                sp.features.insert("module-without-return".into());
                false
            }
            (2, Some(c)) => {
                texts[i].push_str(&format!("return {}\n", c));
                true
            }
            (3, _) => {
                texts[i].push_str("return 42\n");
                true
            }
            (4, _) => {
                texts[i].push_str("return {}\n");
                true
            }
            _ => {
                texts[i].push_str(&format!("local M{} = {{}}\nfunction M{}.hello() end\nreturn M{}\n", i, i, i));
                true
            }
        };
        sp.modules.push((format!("main/{}", chosen[i]), returns));
    }
    for i in 0..nfiles {
        sp.files.push((format!("main/{}", chosen[i]), texts[i].clone()));
    }
    // library
    let nlib = rng.below(3);
    for l in 0..nlib {
        let mut t = String::new();
        let cn = format!("LC{}", l);
        t.push_str(&format!("---lib class\n---@class {}\n---@field z integer\nlocal {} = {{}}\n\n", cn, cn));
        sp.lib_types.insert(cn);
        let gn = format!("LG{}", l);
        t.push_str(&format!("{} = {}\n\n---@alias LA{} integer\n\n", gn, l, l));
        sp.lib_globals.insert(gn);
        sp.lib_types.insert(format!("LA{}", l));
        if mode >= 1 && rng.chance(1, 3) {
            // the library also assigns a global of the main workspace / declares part of a main class
            if let Some(g) = sp.globals.keys().next().cloned() {
                t.push_str(&format!("{} = -1\n\n", g));
                sp.features.insert("global-also-in-library".into());
            }
        }
        t.push_str("return {}\n");
        sp.files.push((format!("lib/l{}.lua", l), t));
        sp.features.insert("library".into());
    }
    sp
}

fn fixed_specs() -> Vec<Spec> {
    // hand-written witnesses (past failures): order, duplicate global, module without return, enum, split class
    let mut v = Vec::new();
    let mut a = Spec::default();
    a.files = vec![
        ("main/a.lua".into(), "---@class Foo\n---@field x integer\nlocal Foo = {}\n\n---@enum Color\nlocal Color = { Red = 1, Green = 2, Blue = 3 }\n\n---@alias Id string|integer\n\nG1 = 1\nG2 = \"s\"\nG3 = {}\nfunction G3.f() end\nreturn Foo\n".into()),
        ("main/b.lua".into(), "G1 = 2\n---@class Bar: Foo\nlocal Bar = {}\nGB = true\n".into()),
        ("main/c.lua".into(), "local M = {}\nfunction M.hello() end\nGC = 3\nreturn M\n".into()),
        ("main/d.lua".into(), "---@class Baz\n\n---@class Qux\n\n---@alias Z1 integer\n\n---@alias Z2 integer\n\nGD1 = 1\nGD2 = 1\nGD3 = 1\nGD1 = 2\n".into()),
        ("lib/l.lua".into(), "---@class LibC\nLG = 1\nreturn {}\n".into()),
    ];
    for (n, k, f) in [("Foo", "class", "a"), ("Color", "enum", "a"), ("Id", "alias", "a"), ("Bar", "class", "b"), ("Baz", "class", "d"), ("Qux", "class", "d"), ("Z1", "alias", "d"), ("Z2", "alias", "d")] {
        a.types.insert(n.into(), (k.into(), vec![format!("main/{}.lua", f)]));
    }
    for (n, fs) in [("G1", vec!["a", "b"]), ("G2", vec!["a"]), ("G3", vec!["a"]), ("GB", vec!["b"]), ("GC", vec!["c"]), ("GD1", vec!["d"]), ("GD2", vec!["d"]), ("GD3", vec!["d"])] {
        a.globals.insert(n.into(), fs.into_iter().map(|f| format!("main/{}.lua", f)).collect());
    }
    a.modules = vec![("main/a.lua".into(), true), ("main/b.lua".into(), false), ("main/c.lua".into(), true), ("main/d.lua".into(), false)];
    a.lib_types.insert("LibC".into());
    a.lib_globals.insert("LG".into());
    for f in ["global-in-two-files", "module-without-return", "enum", "library", "global-reassigned-same-file"] {
        a.features.insert(f.into());
    }
    v.push(a);
    let mut b = Spec::default();
    b.files = vec![
        ("main/s1.lua".into(), "---Split one\n---@class Split: P1\n---@field p integer\nlocal S = {}\nfunction S.m1() end\n\n---@class P1\n\n---@class P2\nreturn S\n".into()),
        ("main/s2.lua".into(), "---Split two\n---@class Split: P2\n---@field q string\nlocal S = {}\nfunction S.m2() end\nreturn S\n".into()),
    ];
    b.types.insert("Split".into(), ("class".into(), vec!["main/s1.lua".into(), "main/s2.lua".into()]));
    b.types.insert("P1".into(), ("class".into(), vec!["main/s1.lua".into()]));
    b.types.insert("P2".into(), ("class".into(), vec!["main/s1.lua".into()]));
    b.modules = vec![("main/s1.lua".into(), true), ("main/s2.lua".into(), true)];
    b.features.insert("split-class-desc".into());
    v.push(b);
    v
}

// ------------------------------------------------------------------ running the real binary

fn materialise(dir: &Path, files: &[(String, String)]) {
    let _ = std::fs::remove_dir_all(dir);
    std::fs::create_dir_all(dir.join("main")).unwrap();
    std::fs::create_dir_all(dir.join("lib")).unwrap();
    for (rel, text) in files {
        let p = dir.join(rel);
        std::fs::create_dir_all(p.parent().unwrap()).unwrap();
        std::fs::write(p, text).unwrap();
    }
    let lib = dir.join("lib");
    let rc = json!({"workspace": {"library": [lib.to_string_lossy()]}});
    std::fs::write(dir.join("main/.emmyrc.json"), serde_json::to_string(&rc).unwrap()).unwrap();
}

fn fnv(bytes: &[u8]) -> u64 {
    let mut h: u64 = 0xcbf29ce484222325;
    for b in bytes {
        h ^= *b as u64;
        h = h.wrapping_mul(0x100000001b3);
    }
    h
}

fn run_json(bin: &str, dir: &Path, k: usize) -> Result<Vec<u8>, String> {
    let out = dir.join(format!("out{}.json", k));
    let _ = std::fs::remove_file(&out);
    let r = Command::new(bin)
        .args(["-f", "json", "-o"])
        .arg(&out)
        .arg(dir.join("main"))
        .current_dir(dir)
        .output()
        .map_err(|e| format!("spawn: {e}"))?;
    if !r.status.success() {
        return Err(format!("exit {:?}: {}", r.status.code(), String::from_utf8_lossy(&r.stderr)));
    }
    std::fs::read(&out).map_err(|e| format!("no output file: {e}"))
}

/// (relative file -> content) of a markdown export
fn run_markdown(bin: &str, dir: &Path, k: usize) -> Result<BTreeMap<String, Vec<u8>>, String> {
    let out = dir.join(format!("md{}", k));
    let _ = std::fs::remove_dir_all(&out);
    let r = Command::new(bin)
        .args(["-f", "markdown", "-o"])
        .arg(&out)
        .arg(dir.join("main"))
        .current_dir(dir)
        .output()
        .map_err(|e| format!("spawn: {e}"))?;
    if !r.status.success() {
        return Err(format!("exit {:?}: {}", r.status.code(), String::from_utf8_lossy(&r.stderr)));
    }
    let mut m = BTreeMap::new();
    fn walk(base: &Path, d: &Path, m: &mut BTreeMap<String, Vec<u8>>) {
        if let Ok(rd) = std::fs::read_dir(d) {
            for e in rd.flatten() {
                let p = e.path();
                if p.is_dir() {
                    walk(base, &p, m);
                } else {
                    let rel = p.strip_prefix(base).unwrap().to_string_lossy().to_string();
                    m.insert(rel, std::fs::read(&p).unwrap_or_default());
                }
            }
        }
    }
    walk(&out, &out, &mut m);
    Ok(m)
}

fn rel_of(dir: &Path, p: &str) -> String {
    Path::new(p).strip_prefix(dir).map(|r| r.to_string_lossy().to_string()).unwrap_or_else(|_| p.to_string())
}

/// the keys of an export: what is listed, in the order it is listed
fn keys_of(dir: &Path, doc: &Value) -> Value {
    let modules: Vec<Value> = doc["modules"].as_array().cloned().unwrap_or_default().iter()
        .map(|m| json!([m["name"], rel_of(dir, m["file"].as_str().unwrap_or(""))])).collect();
    let types: Vec<Value> = doc["types"].as_array().cloned().unwrap_or_default().iter()
        .map(|t| {
            let locs: Vec<Value> = t["loc"].as_array().cloned().unwrap_or_default().iter()
                .map(|l| json!([rel_of(dir, l["file"].as_str().unwrap_or("")), l["line"]])).collect();
            json!([t["type"], t["name"], locs])
        }).collect();
    let globals: Vec<Value> = doc["globals"].as_array().cloned().unwrap_or_default().iter()
        .map(|g| json!([g["name"], rel_of(dir, g["loc"]["file"].as_str().unwrap_or("")), g["loc"]["line"]])).collect();
    json!({"modules": modules, "types": types, "globals": globals})
}

// ------------------------------------------------------------------ the index, in-process

fn dump_index(dir: &Path) -> Value {
    let analysis = load_workspace_like_cli(&dir.join("main"));
    let db = analysis.compilation.get_db();
    let vfs = db.get_vfs();
    let mi = db.get_module_index();
    let path_of = |fid: emmylua_code_analysis::FileId| -> Option<String> {
        vfs.get_file_path(&fid).map(|p| p.to_string_lossy().to_string())
    };
    let in_case = |p: &Option<String>| p.as_ref().map(|s| Path::new(s).starts_with(dir)).unwrap_or(false);
    let mut modules = Vec::new();
    for m in mi.get_module_infos() {
        let p = path_of(m.file_id);
        // std-library modules never pass the main filter and have no path under the case: keep the dump small
        if !in_case(&p) {
            continue;
        }
        modules.push(json!({"file": m.file_id.id, "path": rel_of(dir, p.as_deref().unwrap_or("")), "name": m.full_module_name,
            "ws": format!("{}", m.workspace_id), "main": mi.is_main(&m.file_id), "export": m.export_type.is_some()}));
    }
    let mut types = Vec::new();
    for t in db.get_type_index().get_all_types() {
        let locs: Vec<Value> = t.get_locations().iter().map(|l| {
            let p = path_of(l.file_id);
            let line = vfs.get_document(&l.file_id).map(|d| d.get_line(l.range.start()).unwrap_or_default() + 1);
            json!({"file": l.file_id.id, "path": p.as_deref().map(|p| rel_of(dir, p)), "start": u32::from(l.range.start()),
                   "line": line, "main": mi.is_main(&l.file_id), "in_case": in_case(&p)})
        }).collect();
        if !locs.iter().any(|l| l["in_case"] == json!(true)) {
            continue;
        }
        let kind = if t.is_class() { "class" } else if t.is_enum() { "enum" } else if t.is_alias() { "alias" } else { "other" };
        types.push(json!({"name": t.get_full_name(), "kind": kind, "locs": locs}));
    }
    let mut globals = Vec::new();
    for g in db.get_global_index().get_all_global_decl_ids() {
        let p = path_of(g.file_id);
        if !in_case(&p) {
            continue;
        }
        let decl = db.get_decl_index().get_decl(&g);
        let typed = db.get_type_index().get_type_cache(&LuaTypeOwner::from(g)).is_some();
        let line = decl.and_then(|d| vfs.get_document(&d.get_file_id()).map(|doc| doc.get_line(d.get_range().start()).unwrap_or_default() + 1));
        globals.push(json!({"name": decl.map(|d| d.get_name().to_string()), "file": g.file_id.id, "path": rel_of(dir, p.as_deref().unwrap_or("")),
            "pos": u32::from(g.position), "line": line, "main": mi.is_main(&g.file_id), "typed": typed}));
    }
    json!({"modules": modules, "types": types, "globals": globals})
}

// ------------------------------------------------------------------ the property oracle

struct Viol {
    sig: String,
    what: String,
}

fn multiset(doc: &Value, sect: &str) -> Vec<String> {
    let mut v: Vec<String> = doc[sect].as_array().cloned().unwrap_or_default().iter().map(|x| x.to_string()).collect();
    v.sort();
    v
}

fn oracle(dir: &Path, sp: &Spec, jsons: &[Result<Vec<u8>, String>], mds: &[Result<BTreeMap<String, Vec<u8>>, String>]) -> Vec<Viol> {
    let mut out = Vec::new();
    let mut docs: Vec<Value> = Vec::new();
    for r in jsons {
        match r {
            Err(e) => out.push(Viol { sig: "export-failed".into(), what: format!("emmylua_doc_cli --output-format json failed: {}", e) }),
            Ok(b) => match serde_json::from_slice::<Value>(b) {
                Ok(v) => docs.push(v),
                Err(e) => out.push(Viol { sig: "export-not-json".into(), what: format!("output is not JSON: {e}") }),
            },
        }
    }
    if docs.is_empty() {
        return out;
    }
    let split_types: BTreeSet<&String> = sp.types.iter().filter(|(_, v)| v.1.len() > 1).map(|(k, _)| k).collect();
    // ---- reproducibility
    let bytes: Vec<&Vec<u8>> = jsons.iter().filter_map(|r| r.as_ref().ok()).collect();
    if let Some(k) = (1..bytes.len()).find(|&k| bytes[k] != bytes[0]) {
        let (a, b) = (&docs[0], &docs[k]);
        let mut explained = false;
        for sect in ["modules", "types", "globals"] {
            let (ma, mb) = (multiset(a, sect), multiset(b, sect));
            if ma == mb {
                if a[sect] != b[sect] {
                    explained = true;
                    out.push(Viol { sig: "order-varies".into(), what: format!("two exports of the same workspace list the same {} in a different order (run 0 vs run {})", sect, k) });
                }
                continue;
            }
            explained = true;
            // which items differ?
            let sa: BTreeSet<&String> = ma.iter().collect();
            let sb: BTreeSet<&String> = mb.iter().collect();
            for x in sa.symmetric_difference(&sb).take(4) {
                let item: Value = serde_json::from_str(x).unwrap();
                let name = item["name"].as_str().unwrap_or("").to_string();
                if sect == "types" && item["type"] == json!("enum") {
                    out.push(Viol { sig: "enum-typ-order".into(), what: format!("the member type of enum {} is rendered in a different order in two exports ({})", name, item["typ"]) });
                } else if sect == "globals" && sp.globals.get(&name).map(|f| f.len() > 1).unwrap_or(false) {
                    out.push(Viol { sig: "multi-file-global-analysis-order".into(), what: format!("global {} is assigned in several files; its exported entry (type / members) differs between two exports of the same workspace", name) });
                } else if sect == "types" && split_types.contains(&name) {
                    out.push(Viol { sig: "split-type-analysis-order".into(), what: format!("class {} is declared in several files; its exported entry differs between two exports of the same workspace", name) });
                } else {
                    out.push(Viol { sig: format!("content-varies-{}", sect), what: format!("entry {} of {} differs between two exports of the same workspace", name, sect) });
                }
            }
        }
        if !explained {
            out.push(Viol { sig: "bytes-vary".into(), what: format!("two exports differ outside modules/types/globals (run 0 vs run {})", k) });
        }
    }
    // ---- completeness / exactly once / nothing foreign, on every run's document
    let d = &docs[0];
    let k = keys_of(dir, d);
    // modules: by file
    let mut mcount: BTreeMap<String, usize> = BTreeMap::new();
    for m in k["modules"].as_array().unwrap() {
        *mcount.entry(m[1].as_str().unwrap().to_string()).or_default() += 1;
    }
    for (f, returns) in &sp.modules {
        match mcount.get(f).copied().unwrap_or(0) {
            1 => {}
            0 => out.push(Viol {
                sig: if *returns { "module-missing".into() } else { "module-without-return-missing".into() },
                what: format!("main-workspace module {} ({}) is not in the export", f, if *returns { "returns a value" } else { "its file returns nothing" }),
            }),
            n => out.push(Viol { sig: "module-listed-twice".into(), what: format!("module {} is listed {} times", f, n) }),
        }
    }
    let main_files: BTreeSet<&String> = sp.modules.iter().map(|m| &m.0).collect();
    for f in mcount.keys() {
        if !main_files.contains(f) {
            out.push(Viol { sig: "foreign-module".into(), what: format!("module {} is exported but is not a file of the main workspace", f) });
        }
    }
    // types: by full name
    let mut tcount: BTreeMap<String, Vec<String>> = BTreeMap::new();
    for t in k["types"].as_array().unwrap() {
        tcount.entry(t[1].as_str().unwrap().to_string()).or_default().push(t[0].as_str().unwrap_or("").to_string());
    }
    for (n, (kind, _)) in &sp.types {
        match tcount.get(n) {
            None => out.push(Viol { sig: format!("{}-missing", kind), what: format!("{} {} declared in the main workspace is not in the export", kind, n) }),
            Some(ks) if ks.len() > 1 => out.push(Viol { sig: format!("{}-listed-twice", kind), what: format!("{} {} is listed {} times", kind, n, ks.len()) }),
            Some(ks) => {
                if &ks[0] != kind {
                    out.push(Viol { sig: "type-kind-wrong".into(), what: format!("{} {} is exported as {}", kind, n, ks[0]) });
                }
            }
        }
    }
    for n in tcount.keys() {
        if !sp.types.contains_key(n) {
            let lib = sp.lib_types.contains(n);
            out.push(Viol { sig: if lib { "foreign-type-library".into() } else { "foreign-type".into() },
                what: format!("type {} is exported but is not declared in the main workspace{}", n, if lib { " (it is declared in a library)" } else { "" }) });
        }
    }
    // globals: by name
    let mut gcount: BTreeMap<String, usize> = BTreeMap::new();
    for g in k["globals"].as_array().unwrap() {
        *gcount.entry(g[0].as_str().unwrap_or("").to_string()).or_default() += 1;
        let f = g[1].as_str().unwrap_or("");
        if !main_files.iter().any(|m| m.as_str() == f) {
            out.push(Viol { sig: "global-foreign-location".into(), what: format!("global {} is exported with a location outside the main workspace ({})", g[0], f) });
        }
    }
    for (n, files) in &sp.globals {
        match gcount.get(n).copied().unwrap_or(0) {
            1 => {}
            0 => out.push(Viol { sig: "global-missing".into(), what: format!("global {} declared in the main workspace is not in the export", n) }),
            c => out.push(Viol {
                sig: if files.len() > 1 { "global-listed-twice".into() } else { "global-listed-twice-one-file".into() },
                what: format!("global {} (assigned in {}) is listed {} times", n, files.join(", "), c),
            }),
        }
    }
    for n in gcount.keys() {
        if !sp.globals.contains_key(n) {
            let lib = sp.lib_globals.contains(n);
            out.push(Viol { sig: if lib { "foreign-global-library".into() } else { "foreign-global".into() },
                what: format!("global {} is exported but is not declared in the main workspace", n) });
        }
    }
    // ---- markdown: byte equality across runs
    let oks: Vec<&BTreeMap<String, Vec<u8>>> = mds.iter().filter_map(|r| r.as_ref().ok()).collect();
    for r in mds {
        if let Err(e) = r {
            out.push(Viol { sig: "markdown-export-failed".into(), what: format!("markdown export failed: {}", e) });
        }
    }
    for kx in 1..oks.len() {
        if oks[kx] != oks[0] {
            let mut names: BTreeSet<&String> = oks[0].keys().collect();
            names.extend(oks[kx].keys());
            let differing: Vec<&String> = names.into_iter().filter(|n| oks[0].get(*n) != oks[kx].get(*n)).collect();
            let all_split = differing.iter().all(|n| {
                n.strip_prefix("docs/types/").and_then(|x| x.strip_suffix(".md")).map(|x| split_types.iter().any(|s| s.as_str() == x)).unwrap_or(false)
            });
            let all_multi_global = differing.iter().all(|n| {
                n.strip_prefix("docs/globals/").and_then(|x| x.strip_suffix(".md")).map(|x| sp.globals.get(x).map(|f| f.len() > 1).unwrap_or(false)).unwrap_or(false)
            });
            if all_multi_global {
                out.push(Viol { sig: "multi-file-global-analysis-order".into(), what: format!("markdown pages of globals assigned in several files differ between two exports: {:?}", differing) });
            } else if all_split {
                out.push(Viol { sig: "split-type-analysis-order".into(), what: format!("markdown pages of classes declared in several files differ between two exports: {:?}", differing) });
            } else {
                out.push(Viol { sig: "markdown-varies".into(), what: format!("two markdown exports of the same workspace differ in {:?}", differing) });
            }
            break;
        }
    }
    out
}

// ------------------------------------------------------------------ driver

struct Job {
    idx: usize,
    sp: Spec,
}

fn spec_from_json(c: &Value) -> Spec {
    let mut sp = Spec::default();
    sp.files = serde_json::from_value(c["files"].clone()).unwrap();
    sp.types = serde_json::from_value(c["types"].clone()).unwrap_or_default();
    sp.globals = serde_json::from_value(c["globals"].clone()).unwrap_or_default();
    sp.modules = serde_json::from_value(c["modules"].clone()).unwrap_or_default();
    sp.lib_types = serde_json::from_value(c["lib_types"].clone()).unwrap_or_default();
    sp.lib_globals = serde_json::from_value(c["lib_globals"].clone()).unwrap_or_default();
    sp.features = serde_json::from_value(c["features"].clone()).unwrap_or_default();
    sp
}

/// hand-written witnesses and past failures: corpus/C35/*.json (sorted by name), else the built-in copies
fn corpus_specs(corpus: &str) -> Vec<Spec> {
    let mut names: Vec<PathBuf> = std::fs::read_dir(corpus).map(|rd| rd.flatten().map(|e| e.path()).filter(|p| p.extension().map(|e| e == "json").unwrap_or(false)).collect()).unwrap_or_default();
    names.sort();
    let v: Vec<Spec> = names.iter().filter_map(|p| std::fs::read_to_string(p).ok()).filter_map(|t| serde_json::from_str::<Value>(&t).ok()).map(|c| spec_from_json(&c)).collect();
    if v.is_empty() { fixed_specs() } else { v }
}

fn specs(seed: u64, n: usize, salt: u64, corpus: &str) -> Vec<Spec> {
    let mut rng = Rng::new(seed ^ 0xC35 ^ salt);
    let mut v = corpus_specs(corpus);
    for i in 0..n {
        let mode = i % 4; // 0: plain, 1: + duplicate globals, 2: + split classes (same text), 3: + split classes with different descriptions/bases
        v.push(gen_spec(&mut rng, mode));
    }
    v
}

fn main() {
    let args = Args::parse();
    let seed = args.u64("seed", 1);
    let n = args.usize("n", 4);
    let runs = args.usize("runs", 3);
    let mdruns = args.usize("mdruns", 2);
    let par = args.usize("par", 8);
    let bin = args.str("bin", "emmylua_doc_cli");
    let base = PathBuf::from(args.str("dir", "c35_work"));
    std::fs::create_dir_all(&base).unwrap();
    let base = base.canonicalize().unwrap();
    let corpus = args.str("corpus", "/verif/corpus/C35");
    match args.cmd.as_str() {
        "dump-fixed" => {
            for (i, sp) in fixed_specs().iter().enumerate() {
                std::fs::create_dir_all(&corpus).unwrap();
                std::fs::write(Path::new(&corpus).join(format!("witness{:02}.json", i)), serde_json::to_string_pretty(&sp.to_json()).unwrap()).unwrap();
            }
        }
        "corr" => {
            let jobs: Vec<Job> = specs(seed, n, 0x1000, &corpus).into_iter().enumerate().map(|(idx, sp)| Job { idx, sp }).collect();
            let lines = par_map(jobs, par, |j| {
                let dir = base.join(format!("corr{}", j.idx));
                materialise(&dir, &j.sp.files);
                let index = dump_index(&dir);
                let mut observed = Vec::new();
                let mut hashes = Vec::new();
                let mut errors = Vec::new();
                for k in 0..runs {
                    match run_json(&bin, &dir, k) {
                        Ok(b) => {
                            hashes.push(format!("{:016x}", fnv(&b)));
                            match serde_json::from_slice::<Value>(&b) {
                                Ok(v) => observed.push(keys_of(&dir, &v)),
                                Err(e) => errors.push(format!("not json: {e}")),
                            }
                        }
                        Err(e) => errors.push(e),
                    }
                }
                json!({"case": j.idx, "spec": j.sp.to_json(), "index": index, "observed": observed, "hashes": hashes, "errors": errors,
                       "nontrivial": j.sp.nontrivial()})
            });
            for l in lines {
                println!("{}", l);
            }
        }
        "search" | "one" => {
            let all: Vec<Spec> = if args.cmd == "one" {
                let v: Value = serde_json::from_str(&std::fs::read_to_string(args.str("case", "")).expect("case file")).expect("case json");
                let c = if v.get("spec").is_some() { v["spec"].clone() } else { v.clone() };
                vec![spec_from_json(&c)]
            } else {
                specs(seed, n, 0x2000, &corpus)
            };
            let jobs: Vec<Job> = all.into_iter().enumerate().map(|(idx, sp)| Job { idx, sp }).collect();
            let results = par_map(jobs, par, |j| {
                let dir = base.join(format!("search{}", j.idx));
                materialise(&dir, &j.sp.files);
                let jsons: Vec<_> = (0..runs).map(|k| run_json(&bin, &dir, k)).collect();
                let mds: Vec<_> = (0..mdruns).map(|k| run_markdown(&bin, &dir, k)).collect();
                let v = oracle(&dir, &j.sp, &jsons, &mds);
                (j, v)
            });
            let mut distinct = BTreeSet::new();
            let mut feats: BTreeMap<String, usize> = BTreeMap::new();
            let (mut nt, mut ng, mut nm, mut procs) = (0usize, 0usize, 0usize, 0usize);
            for (j, viols) in &results {
                let mut seen = BTreeSet::new();
                for v in viols {
                    if seen.insert(v.sig.clone()) {
                        println!("{}", json!({"signature": v.sig, "what": v.what, "case": j.idx, "spec": j.sp.to_json()}));
                    }
                }
                if j.sp.nontrivial() {
                    distinct.insert(fnv(serde_json::to_string(&j.sp.files).unwrap().as_bytes()));
                }
                for f in &j.sp.features {
                    *feats.entry(f.clone()).or_default() += 1;
                }
                nt += j.sp.types.len();
                ng += j.sp.globals.len();
                nm += j.sp.modules.len();
                procs += runs + mdruns;
            }
            println!("{}", json!({"summary": {"cases": results.len(), "distinct_nontrivial": distinct.len(), "processes": procs,
                "json_runs_per_case": runs, "markdown_runs_per_case": mdruns, "types": nt, "globals": ng, "modules": nm, "features": feats}}));
        }
        _ => {
            eprintln!("usage: c35 corr|search|one --dir D --bin B [--seed S --n N --runs R]");
            std::process::exit(2);
        }
    }
}
