// shared helpers for vh_parser bins
