//! C02 harness: parsing never crashes or hangs.
//!   c02 gen    --kind K --n N                      -> prints the ladder text (debug aid)
//!   c02 run    --kind K --n N [--level L] [--stack BYTES] [--nodoc]
//!                                                   -> parses ONE ladder on a thread with the given stack; JSON line
//!   c02 corr   --seed S --n N                      -> JSON lines: nesting recipes + measured recursion depth (hook counter)
//!   c02 batch  --seed S --n N --mode M [--stack B] -> child process of `search`: prints "CASE <json>" before and
//!                                                   "DONE <json>" after every parse (a crash leaves a dangling CASE)
//!   c02 search --seed S --n N [--budget-ms T]      -> spawns `batch`/`run` children, JSON lines of violations + summary
//!   c02 one    --case-json '{...}'                 -> replay one case in a child process
use emmylua_parser::{LuaFeaturesSet, LuaLanguageLevel, LuaLexer, LuaParseErrorKind, LuaParser, LuaTokenKind, ParserConfig, Reader};
use serde_json::{Value, json};
use std::collections::{HashMap, HashSet};
use std::io::Write;
use std::process::{Command, Stdio};
use std::time::{Duration, Instant};
use vh_common::{Args, Rng};

pub const STACK_2MIB: usize = 2 * 1024 * 1024;

// ------------------------------------------------------------------------------------------------
// ladders: one nesting construct repeated n times around a base
// ------------------------------------------------------------------------------------------------

/// every kind of nesting ladder; `rec` = the descent recurses once (or more) per level,
/// otherwise the parser loops and only the TREE gets one level deeper per repetition.
pub const KINDS: &[(&str, bool)] = &[
    ("paren", true),
    ("table", true),
    ("table_field", true),
    ("table_index", true),
    ("func", true),
    ("unary_minus", true),
    ("unary_not", true),
    ("concat", true),
    ("pow", true),
    ("index_nest", true),
    ("call_nest", true),
    ("call_table", true),
    ("do", true),
    ("if", true),
    ("while", true),
    ("for", true),
    ("repeat", true),
    ("elseif", false),
    ("plus", false),
    ("and_or", false),
    ("suffix_dot", false),
    ("suffix_call", false),
    ("suffix_index", false),
    ("method_chain", false),
    ("doc_generic", true),
    ("doc_paren", true),
    ("doc_tuple", true),
    ("doc_object", true),
    ("doc_fun_ret", true),
    ("doc_fun_param", true),
    ("doc_keyof", true),
    ("doc_neg", true),
    ("doc_cond", true),
    ("doc_union", false),
    ("doc_array", false),
    ("doc_nullable", false),
    ("ternary", true),
];

pub fn ladder(kind: &str, n: usize) -> String {
    let rep = |s: &str| s.repeat(n);
    match kind {
        "paren" => format!("local x = {}1{}\n", rep("("), rep(")")),
        "table" => format!("local x = {}{}\n", rep("{"), rep("}")),
        "table_field" => format!("local x = {}1{}\n", rep("{a="), rep("}")),
        "table_index" => format!("local x = {}1{}\n", rep("{[1]="), rep("}")),
        "func" => format!("local x = {}1{}\n", rep("function() return "), rep(" end")),
        "unary_minus" => format!("local x = {}1\n", rep("- ")),
        "unary_not" => format!("local x = {}1\n", rep("not ")),
        "concat" => format!("local x = {}1\n", rep("1 .. ")),
        "pow" => format!("local x = {}2\n", rep("2^")),
        "index_nest" => format!("local x = {}1{}\n", rep("a["), rep("]")),
        "call_nest" => format!("local x = {}1{}\n", rep("f("), rep(")")),
        "call_table" => format!("local x = {}1{}\n", rep("f{"), rep("}")),
        "do" => format!("{}{}\n", rep("do "), rep("end ")),
        "if" => format!("{}{}\n", rep("if x then "), rep("end ")),
        "while" => format!("{}{}\n", rep("while x do "), rep("end ")),
        "for" => format!("{}{}\n", rep("for i = 1, 2 do "), rep("end ")),
        "repeat" => format!("{}{}\n", rep("repeat "), rep("until x ")),
        "elseif" => format!("if x then {}end\n", rep("elseif x then ")),
        "plus" => format!("local x = 1{}\n", rep(" + 1")),
        "and_or" => format!("local x = a{}\n", rep(" and b or c")),
        "suffix_dot" => format!("local x = a{}\n", rep(".b")),
        "suffix_call" => format!("local x = f{}\n", rep("()")),
        "suffix_index" => format!("local x = a{}\n", rep("[1]")),
        "method_chain" => format!("local x = a{}\n", rep(":m()")),
        "doc_generic" => format!("---@type {}a{}\nlocal x\n", rep("A<"), rep(">")),
        "doc_paren" => format!("---@type {}a{}\nlocal x\n", rep("("), rep(")")),
        "doc_tuple" => format!("---@type {}a{}\nlocal x\n", rep("["), rep("]")),
        "doc_object" => format!("---@type {}a{}\nlocal x\n", rep("{a:"), rep("}")),
        "doc_fun_ret" => format!("---@type {}a\nlocal x\n", rep("fun():")),
        "doc_fun_param" => format!("---@type {}a{}\nlocal x\n", rep("fun(p:"), rep(")")),
        "doc_keyof" => format!("---@type {}a\nlocal x\n", rep("keyof ")),
        "doc_neg" => format!("---@type {}1\nlocal x\n", rep("- ")),
        "doc_cond" => format!("---@type {}a{}\nlocal x\n", rep("a extends b and "), rep(" or c")),
        "doc_union" => format!("---@type a{}\nlocal x\n", rep("|a")),
        "doc_array" => format!("---@type a{}\nlocal x\n", rep("[]")),
        "doc_nullable" => format!("---@type a{}\nlocal x\n", rep("?")),
        "ternary" => format!("local x = {}c\n", rep("a ? b : ")),
        _ => String::new(),
    }
}

pub fn level_of(s: &str) -> LuaLanguageLevel {
    match s {
        "5.1" => LuaLanguageLevel::Lua51,
        "5.2" => LuaLanguageLevel::Lua52,
        "5.3" => LuaLanguageLevel::Lua53,
        "5.4" => LuaLanguageLevel::Lua54,
        "jit" => LuaLanguageLevel::LuaJIT,
        "jit2" => LuaLanguageLevel::LuaJIT2,
        "jit3" => LuaLanguageLevel::LuaJIT3,
        _ => LuaLanguageLevel::Lua55,
    }
}
pub const LEVELS: &[&str] = &["5.1", "5.2", "5.3", "5.4", "5.5", "jit", "jit2", "jit3"];

pub fn config(level: &str, doc: bool) -> ParserConfig<'static> {
    ParserConfig::new(level_of(level), None, HashMap::new(), LuaFeaturesSet::default(), doc)
}

/// CPU time consumed by the calling thread so far, in microseconds (Linux: /proc/thread-self/schedstat,
/// first field = nanoseconds on a CPU); None when unavailable.  Wall-clock is useless on a loaded machine.
pub fn thread_cpu_micros() -> Option<u128> {
    let s = std::fs::read_to_string("/proc/thread-self/schedstat").ok()?;
    let ns: u128 = s.split_whitespace().next()?.parse().ok()?;
    Some(ns / 1000)
}

#[derive(Debug, Clone)]
pub struct Outcome {
    pub errors: usize,
    pub micros: u128,
    pub depth: u64,
    pub tdepth: u64,
    pub steps: u64,
    pub ntok: u64,
    pub text_ok: bool,
    pub panicked: Option<String>,
}

fn depth_reset() {
    emmylua_parser::verif_depth::reset();
}
/// (nesting level high-water, doc type level high-water, token pump steps) of the calling thread since reset
fn depth_counters() -> (u64, u64, u64) {
    (
        emmylua_parser::verif_depth::high_water() as u64,
        emmylua_parser::verif_depth::type_high_water() as u64,
        emmylua_parser::verif_depth::pump_steps(),
    )
}

/// parse on a fresh thread with `stack` bytes of stack (tree built, inspected and dropped on that thread)
pub fn parse_on_thread(text: String, level: String, doc: bool, stack: usize) -> Outcome {
    let h = std::thread::Builder::new()
        .stack_size(stack)
        .spawn(move || {
            depth_reset();
            let t0 = Instant::now();
            let c0 = thread_cpu_micros();
            let r = vh_common::guarded(|| {
                let tree = LuaParser::parse(&text, config(&level, doc));
                let n = tree.get_errors().len();
                let micros = match (c0, thread_cpu_micros()) {
                    (Some(a), Some(b)) => b.saturating_sub(a),
                    _ => t0.elapsed().as_micros(),
                };
                // the tree must be usable: total text length of the root (iterative in rowan)
                let root = tree.get_red_root();
                let len: u32 = root.text_range().len().into();
                let ok = len as usize <= text.len();
                drop(root);
                if std::env::var("C02_FORGET").is_ok() { std::mem::forget(tree); } else { drop(tree); }
                (n, micros, ok)
            });
            let (depth, tdepth, steps) = depth_counters();
            // number of tokens of the main lexer (the token pump works on these)
            let ntok = vh_common::guarded(|| LuaLexer::new(Reader::new(&text), config(&level, doc).lexer_config(), None).tokenize().len() as u64).unwrap_or(0);
            match r {
                Ok((n, micros, ok)) => Outcome { errors: n, micros, depth, tdepth, steps, ntok, text_ok: ok, panicked: None },
                Err(m) => Outcome { errors: 0, micros: t0.elapsed().as_micros(), depth, tdepth, steps, ntok, text_ok: false, panicked: Some(m) },
            }
        })
        .expect("spawn");
    h.join().unwrap_or(Outcome { errors: 0, micros: 0, depth: 0, tdepth: 0, steps: 0, ntok: 0, text_ok: false, panicked: Some("thread died".into()) })
}

fn outcome_json(o: &Outcome) -> Value {
    json!({"errors": o.errors, "us": o.micros as u64, "depth": o.depth, "tdepth": o.tdepth, "steps": o.steps, "ntok": o.ntok,
           "text_ok": o.text_ok, "panic": o.panicked, "limit": emmylua_parser::verif_depth::max_nesting_level()})
}

pub fn tok_name(k: LuaTokenKind) -> &'static str {
    use LuaTokenKind::*;
    match k {
        TkName => "TName", TkInt => "TInt", TkFloat => "TFloat", TkString => "TString", TkLongString => "TLongString",
        TkNil => "TNil", TkTrue => "TTrue", TkFalse => "TFalse", TkDots => "TDots", TkAnd => "TAnd", TkOr => "TOr",
        TkNot => "TNot", TkBreak => "TBreak", TkDo => "TDo", TkElse => "TElse", TkElseIf => "TElseIf", TkEnd => "TEnd",
        TkFor => "TFor", TkFunction => "TFunction", TkGoto => "TGoto", TkIf => "TIf", TkIn => "TIn", TkLocal => "TLocal",
        TkRepeat => "TRepeat", TkReturn => "TReturn", TkThen => "TThen", TkUntil => "TUntil", TkWhile => "TWhile",
        TkPlus => "TPlus", TkMinus => "TMinus", TkMul => "TMul", TkDiv => "TDiv", TkIDiv => "TIDiv", TkMod => "TMod",
        TkPow => "TPow", TkLen => "TLen", TkBitAnd => "TBitAnd", TkBitOr => "TBitOr", TkBitXor => "TBitXor",
        TkShl => "TShl", TkShr => "TShr", TkConcat => "TConcat", TkLt => "TLt", TkLe => "TLe", TkGt => "TGt",
        TkGe => "TGe", TkEq => "TEq", TkNe => "TNe", TkAssign => "TAssign", TkLeftParen => "TLParen",
        TkRightParen => "TRParen", TkLeftBrace => "TLBrace", TkRightBrace => "TRBrace", TkLeftBracket => "TLBracket",
        TkRightBracket => "TRBracket", TkSemicolon => "TSemi", TkComma => "TComma", TkDot => "TDot", TkColon => "TColon",
        TkDbColon => "TDbColon",
        _ => "TOther",
    }
}
fn is_trivia(k: LuaTokenKind) -> bool {
    matches!(k, LuaTokenKind::TkWhitespace | LuaTokenKind::TkEndOfLine | LuaTokenKind::TkShortComment | LuaTokenKind::TkLongComment | LuaTokenKind::TkShebang)
}

// ------------------------------------------------------------------------------------------------
// nesting recipes for the correspondence with the Coq depth model
// ------------------------------------------------------------------------------------------------

/// expression-level wrappers used by the recipes (index = the Coq constructor order in C02/Model.v `wrap`)
pub const WRAPS: &[&str] = &["paren", "table", "table_field", "table_index", "func", "unary", "binop_right", "binop_left",
    "index_nest", "call_nest", "call_table", "suffix_dot", "do_local", "if_local", "while_cond"];

/// apply wrapper `w` to expression text `e`, returning an expression text again
/// (statement wrappers embed the statement into a closure so that the result is an expression)
pub fn wrap(w: &str, e: &str) -> String {
    match w {
        "paren" => format!("({})", e),
        "table" => format!("{{{}}}", e),
        "table_field" => format!("{{a={}}}", e),
        "table_index" => format!("{{[1]={}}}", e),
        "func" => format!("function() return {} end", e),
        "unary" => format!("- {}", e),
        "binop_right" => format!("1 .. {}", e),
        "binop_left" => format!("{} + 1", e),
        "index_nest" => format!("a[{}]", e),
        "call_nest" => format!("f({})", e),
        "call_table" => format!("f{{{}}}", e),
        "suffix_dot" => format!("({}).b", e),
        "do_local" => format!("function() do local y = {} end end", e),
        "if_local" => format!("function() if c then local y = {} end end", e),
        "while_cond" => format!("function() while {} do end end", e),
        _ => e.to_string(),
    }
}

// ------------------------------------------------------------------------------------------------
// generators for the search
// ------------------------------------------------------------------------------------------------

const SOUP: &[&str] = &[
    "(", ")", "{", "}", "[", "]", "[[", "]]", "[=[", "]=]", "--", "--[[", "---@type ", "---@param ", "---@class ", "---@field ",
    "---@generic ", "---@alias ", "---|", "---@return ", "---@overload fun(", "---@cast ", "---@as ", "--[[@as ", "<", ">", "|", "&", "?",
    "fun(", "):", "keyof ", "extends ", "and ", "or ", "not ", "local ", "function ", "end ", "if ", "then ", "else ", "elseif ",
    "while ", "do ", "for ", "in ", "repeat ", "until ", "return ", "break ", "goto ", "::", ":", ";", ",", ".", "..", "...",
    "=", "==", "~=", "<=", ">=", "<<", ">>", "//", "/", "*", "+", "-", "^", "%", "#", "~", "a", "b", "x1", "_", "1", "0x1p4", "1e5", "3.",
    "\"s\"", "'t'", "\"\\", "\n", "\n", " ", "\t", "\r\n", "\0", "é", "😀", "`", "@", "$", "!", "?.", "??", "->", "|", "||", "&&", "global ", "const ",
    "<const>", "<close>", "0b1", "1LL", "1i", "continue ", "+=", "..=", "\\z", "\\u{", "\\x", "]]--", "--]]",
];

fn gen_soup(rng: &mut Rng, maxtok: usize) -> String {
    let n = rng.below(maxtok + 1);
    let mut s = String::new();
    let nl_heavy = rng.chance(1, 3);
    for _ in 0..n {
        s.push_str(*rng.pick(SOUP));
        if nl_heavy && rng.chance(1, 6) {
            s.push('\n');
        } else if rng.chance(1, 2) {
            s.push(' ');
        }
    }
    s
}

fn std_files() -> Vec<(String, String)> {
    let dir = "/repo/crates/emmylua_code_analysis/resources/std";
    let dir = std::env::var("VERIF_REPO").map(|r| format!("{}/crates/emmylua_code_analysis/resources/std", r)).unwrap_or(dir.to_string());
    let mut v = Vec::new();
    if let Ok(rd) = std::fs::read_dir(&dir) {
        let mut names: Vec<_> = rd.filter_map(|e| e.ok()).map(|e| e.path()).filter(|p| p.extension().map(|x| x == "lua").unwrap_or(false)).collect();
        names.sort();
        for p in names {
            if let Ok(t) = std::fs::read_to_string(&p) {
                v.push((p.file_name().unwrap().to_string_lossy().to_string(), t));
            }
        }
    }
    v
}

fn mutate(rng: &mut Rng, src: &str) -> String {
    let mut chars: Vec<char> = src.chars().collect();
    let k = 1 + rng.below(8);
    for _ in 0..k {
        if chars.is_empty() {
            break;
        }
        let i = rng.below(chars.len());
        match rng.below(6) {
            0 => {
                let j = (i + 1 + rng.below(40)).min(chars.len());
                chars.drain(i..j);
            }
            1 => {
                let ins: Vec<char> = (*rng.pick(SOUP)).chars().collect();
                for (o, c) in ins.into_iter().enumerate() {
                    chars.insert(i + o, c);
                }
            }
            2 => {
                let j = (i + 1 + rng.below(200)).min(chars.len());
                let seg: Vec<char> = chars[i..j].to_vec();
                for (o, c) in seg.into_iter().enumerate() {
                    chars.insert(i + o, c);
                }
            }
            3 => chars.truncate(i),
            4 => chars[i] = *rng.pick(&['(', '{', '[', '<', '"', '\'', '\\', '\n', '-', '|', '\0']),
            _ => {
                let j = rng.below(chars.len());
                chars.swap(i, j);
            }
        }
    }
    chars.into_iter().collect()
}

fn gen_bytes(rng: &mut Rng, maxlen: usize) -> String {
    let n = rng.below(maxlen + 1);
    let mode = rng.below(3);
    let bytes: Vec<u8> = (0..n)
        .map(|_| match mode {
            0 => rng.below(256) as u8,
            1 => *rng.pick(b"(){}[]<>|-=\"'\\\n \t.,:;#~^%*/+abz019_@?!`&$"),
            _ => {
                if rng.chance(1, 8) { rng.below(256) as u8 } else { 32 + rng.below(95) as u8 }
            }
        })
        .collect();
    String::from_utf8_lossy(&bytes).to_string()
}

/// huge flat inputs: `stmts` statements, no nesting; several shapes
fn gen_flat(shape: usize, stmts: usize) -> String {
    let mut s = String::with_capacity(stmts * 24);
    for i in 0..stmts {
        match shape {
            0 => s.push_str(&format!("local v{} = {} + f(a, b) .. \"s\"\n", i % 100, i)),
            1 => s.push_str(&format!("t[{}] = {{ a = 1, [2] = x.y.z, 'q' }}\n", i)),
            2 => s.push_str("---@param a string desc\n---@return number?\nfunction f(a) return 1 end\n"),
            3 => s.push_str(") } ] end until then\n"),
            4 => s.push_str("x = = = 1 local local function ( ( {\n"),
            5 => s.push_str("---@type table<string, fun(a: number): string[]> | nil\nlocal x\n"),
            6 => s.push_str("f() f{} f'' ;;; ::l:: goto l\n"),
            _ => s.push_str("-- plain comment line\n"),
        }
    }
    s
}

/// (mode name, case descriptor, text)
fn gen_case(rng: &mut Rng, mode: &str, stds: &[(String, String)]) -> (Value, String) {
    match mode {
        "soup" => {
            let t = gen_soup(rng, 60);
            (json!({"mode": "soup", "text": t}), t)
        }
        "bytes" => {
            let t = gen_bytes(rng, 300);
            (json!({"mode": "bytes", "text": t}), t)
        }
        "mutant" => {
            if stds.is_empty() {
                let t = gen_soup(rng, 60);
                return (json!({"mode": "soup", "text": t}), t);
            }
            let (name, src) = rng.pick(stds);
            let seed = rng.next();
            let mut r2 = Rng::new(seed);
            let t = mutate(&mut r2, src);
            (json!({"mode": "mutant", "file": name, "mseed": seed}), t)
        }
        "ladder" => {
            let (k, _) = rng.pick(KINDS);
            let n = match rng.below(4) {
                0 => rng.range(1, 64),
                1 => rng.range(64, 400),
                2 => rng.range(400, 3000),
                _ => rng.range(3000, 12000),
            };
            (json!({"mode": "ladder", "kind": k, "n": n}), ladder(k, n))
        }
        "mixed" => {
            // random composition of wrappers, moderately deep
            let depth = rng.range(1, 300);
            let mut e = "1".to_string();
            let mut ws = Vec::new();
            for _ in 0..depth {
                let w = *rng.pick(WRAPS);
                e = wrap(w, &e);
                ws.push(w);
            }
            let t = format!("local x = {}\n", e);
            (json!({"mode": "mixed", "wraps": ws}), t)
        }
        _ => {
            let t = gen_soup(rng, 20);
            (json!({"mode": "soup", "text": t}), t)
        }
    }
}

pub fn case_text(case: &Value) -> Option<String> {
    match case["mode"].as_str()? {
        "soup" | "bytes" | "text" => Some(case["text"].as_str()?.to_string()),
        "mutant" => {
            let stds = std_files();
            let name = case["file"].as_str()?;
            let src = &stds.iter().find(|(n, _)| n == name)?.1;
            let mut r2 = Rng::new(case["mseed"].as_u64()?);
            Some(mutate(&mut r2, src))
        }
        "ladder" => Some(ladder(case["kind"].as_str()?, case["n"].as_u64()? as usize)),
        "mixed" => {
            let mut e = "1".to_string();
            for w in case["wraps"].as_array()? {
                e = wrap(w.as_str()?, &e);
            }
            Some(format!("local x = {}\n", e))
        }
        "flat" => Some(gen_flat(case["shape"].as_u64()? as usize, case["stmts"].as_u64()? as usize)),
        _ => None,
    }
}

// ------------------------------------------------------------------------------------------------
// child-process execution
// ------------------------------------------------------------------------------------------------

pub enum ChildEnd {
    Ok(Value),
    Crash(String),
    Timeout,
    Panic(String),
}

/// run `c02 run-case` in a child process with a wall-clock budget
pub fn run_case_in_child(case: &Value, level: &str, doc: bool, stack: usize, budget: Duration) -> ChildEnd {
    let exe = std::env::current_exe().unwrap();
    let mut cmd = Command::new(exe);
    cmd.arg("run-case").arg("--case-json").arg(case.to_string()).arg("--level").arg(level).arg("--stack").arg(stack.to_string());
    if !doc {
        cmd.arg("--nodoc");
    }
    cmd.stdout(Stdio::piped()).stderr(Stdio::null()).stdin(Stdio::null());
    let mut child = match cmd.spawn() {
        Ok(c) => c,
        Err(e) => return ChildEnd::Crash(format!("spawn failed: {}", e)),
    };
    let t0 = Instant::now();
    loop {
        match child.try_wait() {
            Ok(Some(st)) => {
                let mut out = String::new();
                if let Some(mut so) = child.stdout.take() {
                    use std::io::Read;
                    let _ = so.read_to_string(&mut out);
                }
                if st.success() {
                    let v: Value = out.lines().last().and_then(|l| serde_json::from_str(l).ok()).unwrap_or(json!({}));
                    if let Some(p) = v["panic"].as_str() {
                        return ChildEnd::Panic(p.to_string());
                    }
                    return ChildEnd::Ok(v);
                }
                return ChildEnd::Crash(describe_status(&st));
            }
            Ok(None) => {
                if t0.elapsed() > budget {
                    let _ = child.kill();
                    let _ = child.wait();
                    return ChildEnd::Timeout;
                }
                std::thread::sleep(Duration::from_millis(2));
            }
            Err(e) => return ChildEnd::Crash(format!("wait failed: {}", e)),
        }
    }
}

fn describe_status(st: &std::process::ExitStatus) -> String {
    use std::os::unix::process::ExitStatusExt;
    if let Some(sig) = st.signal() {
        let name = match sig {
            6 => "SIGABRT",
            11 => "SIGSEGV",
            7 => "SIGBUS",
            9 => "SIGKILL",
            _ => "signal",
        };
        format!("{}({})", name, sig)
    } else {
        format!("exit({})", st.code().unwrap_or(-1))
    }
}

/// smallest n in [1, max] at which the ladder of `kind` crashes the child (None when it never does)
fn crash_threshold(kind: &str, level: &str, stack: usize, max: usize, budget: Duration) -> (Option<usize>, usize) {
    let crashes = |n: usize| -> bool {
        let case = json!({"mode": "ladder", "kind": kind, "n": n});
        !matches!(run_case_in_child(&case, level, true, stack, budget), ChildEnd::Ok(_))
    };
    let mut probes = 0;
    if !{ probes += 1; crashes(max) } {
        return (None, probes);
    }
    let (mut lo, mut hi) = (0usize, max); // lo ok (0 trivially), hi crashes
    while hi - lo > 1 && (hi - lo) * 50 > hi {
        let mid = (lo + hi) / 2;
        probes += 1;
        if crashes(mid) { hi = mid } else { lo = mid }
    }
    (Some(hi), probes)
}

fn bucket(n: usize) -> &'static str {
    match n {
        0..=255 => "<=255",
        256..=999 => "256..999",
        1000..=9999 => "1e3..1e4",
        10000..=99999 => "1e4..1e5",
        _ => ">=1e5",
    }
}

fn main() {
    let a = Args::parse();
    match a.cmd.as_str() {
        "gen" => {
            print!("{}", ladder(&a.str("kind", "paren"), a.usize("n", 3)));
        }
        "run" => {
            let text = ladder(&a.str("kind", "paren"), a.usize("n", 3));
            let o = parse_on_thread(text, a.str("level", "5.5"), !a.flag("nodoc"), a.usize("stack", STACK_2MIB));
            println!("{}", outcome_json(&o));
        }
        "run-case" => {
            let case: Value = serde_json::from_str(&a.str("case-json", "{}")).unwrap_or(json!({}));
            let text = case_text(&case).unwrap_or_default();
            let len = text.len();
            let o = parse_on_thread(text, a.str("level", "5.5"), !a.flag("nodoc"), a.usize("stack", STACK_2MIB));
            let mut v = outcome_json(&o);
            v["len"] = json!(len);
            println!("{}", v);
        }
        "corr" => corr(&a),
        "batch" => batch(&a),
        "search" => search(&a),
        "threshold" => {
            let kind = a.str("kind", "paren");
            let (t, probes) = crash_threshold(&kind, &a.str("level", "5.5"), a.usize("stack", STACK_2MIB), a.usize("max", 100000), Duration::from_millis(a.u64("budget-ms", 20000)));
            println!("{}", json!({"kind": kind, "threshold": t, "probes": probes}));
        }
        "one" => {
            let case: Value = serde_json::from_str(&a.str("case-json", "{}")).unwrap_or(json!({}));
            let level = case["level"].as_str().unwrap_or("5.5").to_string();
            let doc = case["doc"].as_bool().unwrap_or(true);
            let end = run_case_in_child(&case, &level, doc, STACK_2MIB, Duration::from_millis(a.u64("budget-ms", 30000)));
            let v = match end {
                ChildEnd::Ok(v) => json!({"end": "ok", "obs": v}),
                ChildEnd::Crash(s) => json!({"end": "crash", "how": s}),
                ChildEnd::Timeout => json!({"end": "timeout"}),
                ChildEnd::Panic(p) => json!({"end": "panic", "how": p}),
            };
            println!("{}", v);
        }
        _ => {
            eprintln!("usage: c02 gen|run|run-case|corr|batch|search|threshold|one ...");
            std::process::exit(2);
        }
    }
}

// ------------------------------------------------------------------------------------------------
// corr: recipes -> measured recursion depth (needs the hook counter)
// ------------------------------------------------------------------------------------------------
fn corr(a: &Args) {
    let mut rng = Rng::new(a.u64("seed", 1));
    let n = a.usize("n", 200);
    let maxdepth = a.usize("maxdepth", 40);
    let mut out = std::io::stdout().lock();
    let mut emit = |ws: Vec<usize>, level: &str| {
        let mut e = "1".to_string();
        for &w in &ws {
            e = wrap(WRAPS[w], &e);
        }
        let text = format!("local x = {}\n", e);
        // token kinds (trivia removed) and lexer errors of the main lexer
        let mut lex_errs = Vec::new();
        let toks: Vec<&'static str> = LuaLexer::new(Reader::new(&text), config(level, true).lexer_config(), Some(&mut lex_errs))
            .tokenize().iter().filter(|t| !is_trivia(t.kind)).map(|t| tok_name(t.kind)).collect();
        emmylua_parser::verif_depth::reset();
        let tree = LuaParser::parse(&text, config(level, true));
        let depth = emmylua_parser::verif_depth::high_water();
        let errs = tree.get_errors().iter().filter(|e| e.kind == LuaParseErrorKind::SyntaxError).count();
        let _ = writeln!(out, "{}", json!({"wraps": ws, "level": level, "toks": toks, "errs": errs > 0, "depth": depth,
            "limit": emmylua_parser::verif_depth::max_nesting_level()}));
    };
    // corpus first: the empty recipe, pure ladders of every wrapper at several heights (below and above the limit)
    emit(vec![], "5.4");
    for w in 0..WRAPS.len() {
        for k in [1usize, 2, 3, 7, 20, 99, 120, 197, 198, 199, 230] {
            emit(vec![w; k], "5.4");
        }
    }
    for i in 0..n {
        let d = rng.range(1, maxdepth);
        let ws: Vec<usize> = (0..d).map(|_| rng.below(WRAPS.len())).collect();
        emit(ws, ["5.1", "5.2", "5.3", "5.4"][i % 4]);
    }
}

// ------------------------------------------------------------------------------------------------
// batch (child of search): many cases in one process, each parsed on its own 2 MiB thread
// ------------------------------------------------------------------------------------------------
fn batch(a: &Args) {
    let mut rng = Rng::new(a.u64("seed", 1));
    let n = a.usize("n", 100);
    let mode = a.str("mode", "soup");
    let stack = a.usize("stack", STACK_2MIB);
    let stds = std_files();
    let so = std::io::stdout();
    for i in 0..n {
        let (mut case, text) = gen_case(&mut rng, &mode, &stds);
        let level = LEVELS[rng.below(LEVELS.len())];
        let doc = !rng.chance(1, 5);
        case["level"] = json!(level);
        case["doc"] = json!(doc);
        {
            let mut o = so.lock();
            let _ = writeln!(o, "CASE {} {}", i, case);
            let _ = o.flush();
        }
        let len = text.len();
        let oc = parse_on_thread(text, level.to_string(), doc, stack);
        let mut o = so.lock();
        let _ = writeln!(o, "DONE {} {}", i, json!({"len": len, "errors": oc.errors, "us": oc.micros as u64, "text_ok": oc.text_ok, "panic": oc.panicked, "depth": oc.depth,
            "tdepth": oc.tdepth, "steps": oc.steps, "ntok": oc.ntok, "limit": emmylua_parser::verif_depth::max_nesting_level()}));
        let _ = o.flush();
    }
}

struct BatchResult {
    done: Vec<(Value, Value)>,
    dangling: Option<Value>,
    end: String, // "ok" | "crash:<how>" | "timeout"
}

fn run_batch(mode: &str, seed: u64, n: usize, budget: Duration) -> BatchResult {
    let exe = std::env::current_exe().unwrap();
    let mut child = Command::new(exe)
        .args(["batch", "--seed", &seed.to_string(), "--n", &n.to_string(), "--mode", mode])
        .stdout(Stdio::piped()).stderr(Stdio::null()).stdin(Stdio::null())
        .spawn().expect("spawn batch");
    let stdout = child.stdout.take().unwrap();
    // reader thread so that the parent can enforce the budget
    let (tx, rx) = std::sync::mpsc::channel::<String>();
    let rd = std::thread::spawn(move || {
        use std::io::BufRead;
        for l in std::io::BufReader::new(stdout).lines().map_while(Result::ok) {
            if tx.send(l).is_err() {
                break;
            }
        }
    });
    let t0 = Instant::now();
    let end: String;
    loop {
        match child.try_wait() {
            Ok(Some(st)) => {
                end = if st.success() { "ok".into() } else { format!("crash:{}", describe_status(&st)) };
                break;
            }
            Ok(None) => {
                if t0.elapsed() > budget {
                    let _ = child.kill();
                    let _ = child.wait();
                    end = "timeout".into();
                    break;
                }
                std::thread::sleep(Duration::from_millis(5));
            }
            Err(_) => {
                end = "crash:wait".into();
                break;
            }
        }
    }
    let _ = rd.join();
    let mut done = Vec::new();
    let mut pending: Option<Value> = None;
    for l in rx.try_iter() {
        if let Some(r) = l.strip_prefix("CASE ") {
            let js = r.splitn(2, ' ').nth(1).unwrap_or("{}");
            pending = serde_json::from_str(js).ok();
        } else if let Some(r) = l.strip_prefix("DONE ") {
            let js = r.splitn(2, ' ').nth(1).unwrap_or("{}");
            if let (Some(c), Ok(o)) = (pending.take(), serde_json::from_str::<Value>(js)) {
                done.push((c, o));
            }
        }
    }
    BatchResult { done, dangling: pending, end }
}

/// A crashing ladder.  Ladders whose descent does not recurse (left-associative chains, suffix chains, doc unions ...)
/// only make the TREE deep; when such a ladder parses fine on a 512 MiB stack with a small nesting level, the crash
/// is rowan's recursive drop / node_hash of the green tree (the known finding), otherwise it is a new finding.
fn report_crash(case: &Value, how: &str, out: &mut Vec<Value>) {
    let level = case["level"].as_str().unwrap_or("5.5").to_string();
    let doc = case["doc"].as_bool().unwrap_or(true);
    if case["mode"] == "ladder" {
        let kind = case["kind"].as_str().unwrap_or("paren").to_string();
        let n = case["n"].as_u64().unwrap_or(0) as usize;
        let rec = KINDS.iter().find(|k| k.0 == kind).map(|k| k.1).unwrap_or(true);
        if !rec {
            let big = run_case_in_child(case, &level, doc, 512 * 1024 * 1024, Duration::from_secs(600));
            if let ChildEnd::Ok(v) = big {
                let d = v["depth"].as_u64().unwrap_or(u64::MAX);
                let td = v["tdepth"].as_u64().unwrap_or(u64::MAX);
                if d <= 8 && td <= 8 {
                    out.push(json!({
                        "signature": "deep-tree:rowan-recursion",
                        "what": format!("flat chain ladder of kind {} with {} links parses at nesting level {} but ends the process ({}) on a 2 MiB stack: \
                                        the green tree is {} levels deep and rowan drops / hashes it recursively", kind, n, d.max(td), how, n),
                        "case": {"mode": "ladder", "kind": kind, "n": n, "level": level, "doc": doc},
                    }));
                    return;
                }
            }
        }
        out.push(json!({
            "signature": format!("stack-overflow:ladder:{}", kind),
            "what": format!("nesting ladder of kind {} with {} levels ends the process ({}) on a 2 MiB stack", kind, n, how),
            "case": {"mode": "ladder", "kind": kind, "n": n, "level": level, "doc": doc},
        }));
    } else {
        out.push(json!({
            "signature": format!("crash:{}", case["mode"].as_str().unwrap_or("?")),
            "what": format!("parsing ends the process ({}) on a 2 MiB stack", how),
            "case": case,
        }));
    }
}

/// checks on one finished parse (deterministic counters of the hook)
fn check_obs(case: &Value, v: &Value, out: &mut Vec<Value>) {
    let limit = v["limit"].as_u64().unwrap_or(200);
    let (d, td) = (v["depth"].as_u64().unwrap_or(0), v["tdepth"].as_u64().unwrap_or(0));
    if d > limit || td > limit {
        out.push(json!({"signature": "nesting-level-above-limit", "what": format!("nesting level {} / type level {} above the limit {}", d, td, limit), "case": case}));
    }
    let (steps, ntok) = (v["steps"].as_u64().unwrap_or(0), v["ntok"].as_u64().unwrap_or(0));
    // bump costs 2 per token advanced, every peek at most one more trivia run: <= 4 reads per token (+ slack for the end)
    if steps > 4 * ntok + 64 {
        out.push(json!({"signature": "token-pump-superlinear", "what": format!("{} token-array reads for {} tokens", steps, ntok), "case": case}));
    }
    if v["text_ok"] == json!(false) && v["panic"].is_null() {
        out.push(json!({"signature": "tree-text-longer-than-input", "what": "tree text range exceeds the input", "case": case}));
    }
}

fn search(a: &Args) {
    let seed = a.u64("seed", 1);
    let n = a.usize("n", 2000); // random cases (soup/bytes/mutant/ladder/mixed)
    let deep = a.flag("deep");
    let mut rng = Rng::new(seed ^ 0xC02);
    let mut viol: Vec<Value> = Vec::new();
    let mut dist: HashMap<String, u64> = HashMap::new();
    let mut distinct: HashSet<u64> = HashSet::new();
    let mut cases = 0u64;
    let mut max_us_per_kb = 0f64;
    let mut max_steps_per_tok = 0f64;
    let hash = |v: &Value| -> u64 {
        use std::hash::{Hash, Hasher};
        let mut h = std::collections::hash_map::DefaultHasher::new();
        v.to_string().hash(&mut h);
        h.finish()
    };
    // wall-clock budgets are generous (the machine may be heavily loaded): a hang, not slowness, is what they catch
    let budget_for = |len: usize| Duration::from_millis(90_000 + (len as u64) / 5);

    // 1. ladders of every kind at fixed rungs, each in its own child (2 MiB stack, wall-clock budget)
    // every recursive ladder overflowed 2 MiB between 1200 and 5100 levels before the guard: 10000 levels decide
    let rec_rungs: &[usize] = if deep { &[150, 1000, 10000, 100000] } else { &[150, 10000] };
    let chain_rungs_all: &[usize] = if deep { &[2000, 10000, 30000, 100000] } else { &[2000] };
    let chain_rungs_probe: &[usize] = if deep { &[2000, 10000, 30000, 100000] } else { &[2000, 30000] };
    for (kind, rec) in KINDS {
        let mut stop = false;
        let probe = matches!(*kind, "plus" | "suffix_dot" | "doc_union");
        for &n in if *rec { rec_rungs } else if probe { chain_rungs_probe } else { chain_rungs_all } {
            if stop {
                continue;
            }
            let level = if *kind == "ternary" { "jit" } else { "5.5" };
            let case = json!({"mode": "ladder", "kind": kind, "n": n, "level": level, "doc": true});
            cases += 1;
            *dist.entry(format!("ladder:{}:{}", if *rec { "recursive" } else { "chain" }, bucket(n))).or_insert(0) += 1;
            distinct.insert(hash(&case));
            let len = ladder(kind, n).len();
            let budget = budget_for(len);
            match run_case_in_child(&case, level, true, STACK_2MIB, budget) {
                ChildEnd::Ok(v) => {
                    check_obs(&case, &v, &mut viol);
                    let us = v["us"].as_u64().unwrap_or(0) as f64;
                    if len > 20000 {
                        max_us_per_kb = max_us_per_kb.max(us / (len as f64 / 1024.0));
                    }
                    let nt = v["ntok"].as_u64().unwrap_or(0) as f64;
                    if nt > 100.0 {
                        max_steps_per_tok = max_steps_per_tok.max(v["steps"].as_u64().unwrap_or(0) as f64 / nt);
                    }
                }
                ChildEnd::Crash(how) => {
                    stop = true;
                    report_crash(&case, &how, &mut viol);
                }
                ChildEnd::Timeout => {
                    stop = true;
                    viol.push(json!({"signature": format!("timeout:ladder:{}", kind),
                        "what": format!("ladder of kind {} with {} levels ({} bytes) did not parse within {} ms", kind, n, len, budget.as_millis()), "case": case}));
                }
                ChildEnd::Panic(p) => {
                    stop = true;
                    viol.push(json!({"signature": format!("panic:ladder:{}", kind), "what": format!("panic: {}", p), "case": case}));
                }
            }
        }
    }

    // 2. huge flat inputs: must parse within a budget proportional to their size; the token pump must stay linear
    let flat_sizes: &[usize] = if deep { &[20000, 100000, 300000] } else { &[20000] };
    for shape in 0..8usize {
        for &stmts in flat_sizes {
            let case = json!({"mode": "flat", "shape": shape, "stmts": stmts, "level": "5.5", "doc": true});
            let len = gen_flat(shape, stmts).len();
            cases += 1;
            *dist.entry("flat".into()).or_insert(0) += 1;
            distinct.insert(hash(&case));
            let budget = budget_for(len);
            match run_case_in_child(&case, "5.5", true, STACK_2MIB, budget) {
                ChildEnd::Ok(v) => {
                    check_obs(&case, &v, &mut viol);
                    let us = v["us"].as_u64().unwrap_or(0) as f64;
                    max_us_per_kb = max_us_per_kb.max(us / (len as f64 / 1024.0));
                    let nt = v["ntok"].as_u64().unwrap_or(0) as f64;
                    if nt > 100.0 {
                        max_steps_per_tok = max_steps_per_tok.max(v["steps"].as_u64().unwrap_or(0) as f64 / nt);
                    }
                }
                ChildEnd::Crash(how) => report_crash(&case, &how, &mut viol),
                ChildEnd::Timeout => viol.push(json!({"signature": format!("timeout:flat:{}", shape),
                    "what": format!("flat input shape {} with {} statements ({} bytes) did not parse within {} ms", shape, stmts, len, budget.as_millis()), "case": case})),
                ChildEnd::Panic(p) => viol.push(json!({"signature": format!("panic:flat:{}", shape), "what": format!("panic: {}", p), "case": case})),
            }
        }
    }

    // 3. random batches in child processes
    let modes = ["soup", "bytes", "mutant", "ladder", "mixed"];
    let per_batch = 100usize;
    let nb = (n + per_batch - 1) / per_batch;
    for b in 0..nb {
        let mode = modes[b % modes.len()];
        let bseed = rng.next();
        let budget = Duration::from_secs(600);
        let r = run_batch(mode, bseed, per_batch, budget);
        for (c, o) in &r.done {
            cases += 1;
            *dist.entry(mode.to_string()).or_insert(0) += 1;
            let len = o["len"].as_u64().unwrap_or(0);
            if len > 0 {
                distinct.insert(hash(c));
            }
            if let Some(p) = o["panic"].as_str() {
                viol.push(json!({"signature": format!("panic:{}", mode), "what": format!("panic: {}", p), "case": c}));
            }
            check_obs(c, o, &mut viol);
            let us = o["us"].as_u64().unwrap_or(0);
            if len > 20000 {
                max_us_per_kb = max_us_per_kb.max(us as f64 / (len as f64 / 1024.0));
            }
        }
        if r.end != "ok" {
            if let Some(c) = &r.dangling {
                cases += 1;
                if r.end == "timeout" {
                    viol.push(json!({"signature": format!("timeout:{}", mode), "what": format!("batch exceeded {} s while parsing this case", budget.as_secs()), "case": c}));
                } else {
                    report_crash(c, r.end.trim_start_matches("crash:"), &mut viol);
                }
            } else {
                viol.push(json!({"signature": format!("batch-died:{}", mode), "what": format!("batch child ended with {} between cases", r.end), "case": {"mode": mode, "bseed": bseed}}));
            }
        }
    }

    let mut seen = HashSet::new();
    for v in &viol {
        let key = format!("{}|{}", v["signature"], v["case"]);
        if seen.insert(key) {
            println!("{}", v);
        }
    }
    println!("{}", json!({"summary": {"cases": cases, "distinct_nontrivial": distinct.len(), "distribution": dist,
        "max_cpu_us_per_KiB_on_inputs_over_20KB": (max_us_per_kb * 100.0).round() / 100.0,
        "max_token_reads_per_token": (max_steps_per_tok * 100.0).round() / 100.0, "violations": viol.len()}}));
}
