//! C37 harness: doc-comment markup highlighting (emmylua_parser_desc) and its emission kernel.
//!   c37 corr   --seed S --n N            -> JSON lines of implementation observations for the Coq model:
//!                                           "m" cases: op sequences on the real `Reader` + `ResultContainer::emit/emit_range`
//!                                                      + `BacktrackPoint` + `sort_result`;
//!                                           "d" cases: `desc_to_lines` on the token list of real description nodes;
//!                                           "s" cases: `sort_result` on generated items (many equal keys: stability)
//!   c37 search --seed S --n N [--timeout-ms T]
//!                                        -> JSON lines {"signature","what",...case} for violations of the property oracle
//!                                           on `emmylua_parser_desc::parse` (Md / MyST / RST x cursor), final {"summary":..}
//!   c37 one    --text-json '"..."' [--flavour md|myst|rst|all] [--cursor N]
use emmylua_parser::{
    LuaAstNode, LuaDocDescription, LuaKind, LuaParser, LuaSyntaxElement, LuaTokenKind, ParserConfig, Reader,
    SourceRange,
};
use emmylua_parser_desc::verif::{BacktrackPoint, desc_to_lines, is_blank, is_ws, sort_result};
use emmylua_parser_desc::{CodeBlockHighlightKind, DescItem, DescItemKind, DescParserType, ResultContainer, parse};
use rowan::{Direction, TextRange, TextSize};
use serde_json::{Value, json};
use std::collections::HashSet;
use std::sync::{Arc, Mutex, mpsc};
use std::time::Duration;
use vh_common::{Args, Rng, guarded};

// ------------------------------------------------------------------------------------------ kinds

fn hl_code(k: CodeBlockHighlightKind) -> u64 {
    match k {
        CodeBlockHighlightKind::None => 0,
        CodeBlockHighlightKind::String => 1,
        CodeBlockHighlightKind::Number => 2,
        CodeBlockHighlightKind::Keyword => 3,
        CodeBlockHighlightKind::Operators => 4,
        CodeBlockHighlightKind::Comment => 5,
        CodeBlockHighlightKind::Function => 6,
        CodeBlockHighlightKind::Class => 7,
        CodeBlockHighlightKind::Enum => 8,
        CodeBlockHighlightKind::Variable => 9,
        CodeBlockHighlightKind::Property => 10,
        CodeBlockHighlightKind::Decorator => 11,
    }
}

fn kind_code(k: &DescItemKind) -> u64 {
    match k {
        DescItemKind::Scope => 0,
        DescItemKind::Ref => 1,
        DescItemKind::Em => 2,
        DescItemKind::Strong => 3,
        DescItemKind::Code => 4,
        DescItemKind::Link => 5,
        DescItemKind::JavadocLink => 6,
        DescItemKind::Markup => 7,
        DescItemKind::Arg => 8,
        DescItemKind::CodeBlock => 9,
        DescItemKind::CodeBlockHl(h) => 100 + hl_code(*h),
    }
}

fn kind_of_code(c: u64) -> DescItemKind {
    match c {
        0 => DescItemKind::Scope,
        1 => DescItemKind::Ref,
        2 => DescItemKind::Em,
        3 => DescItemKind::Strong,
        4 => DescItemKind::Code,
        5 => DescItemKind::Link,
        6 => DescItemKind::JavadocLink,
        7 => DescItemKind::Markup,
        8 => DescItemKind::Arg,
        9 => DescItemKind::CodeBlock,
        101 => DescItemKind::CodeBlockHl(CodeBlockHighlightKind::String),
        103 => DescItemKind::CodeBlockHl(CodeBlockHighlightKind::Keyword),
        _ => DescItemKind::CodeBlockHl(CodeBlockHighlightKind::Decorator),
    }
}
const KIND_CODES: &[u64] = &[0, 1, 2, 3, 4, 5, 6, 7, 8, 9, 101, 103, 111];

fn item_json(it: &DescItem) -> Value {
    json!([u32::from(it.range.start()), u32::from(it.range.end()), kind_code(&it.kind)])
}

// ------------------------------------------------------------------------------- machine ("m" cases)

struct Cont {
    results: Vec<DescItem>,
    cursor: Option<usize>,
}
impl ResultContainer for Cont {
    fn results(&self) -> &Vec<DescItem> {
        &self.results
    }
    fn results_mut(&mut self) -> &mut Vec<DescItem> {
        &mut self.results
    }
    fn cursor_position(&self) -> Option<usize> {
        self.cursor
    }
}

fn pred(code: u64, arg: char) -> impl Fn(char) -> bool {
    move |c: char| match code {
        0 => is_ws(c), // the real predicate the parsers pass to eat_while / consume_n_times
        1 => c.is_ascii_digit(),
        2 => true,
        3 => c == arg,
        4 => c != arg,
        5 => c.is_ascii_alphanumeric() || matches!(c, '.' | ':' | '+' | '_' | '-'),
        6 => !is_ws(c),
        _ => c.is_whitespace(),
    }
}

const M_ALPHABET: &[char] = &[
    'a', 'b', 'Z', '0', '7', ' ', ' ', '\t', '`', '*', '_', ':', '-', '.', '[', ']', '\\', 'é', 'ß', '中', '😀', '𝒳',
    '\u{a0}', '\u{2028}', '\0', '\r', '\n', '•', '<', '>', '\u{3000}', '\u{2003}', '\u{feff}', '\u{202f}',
];

fn gen_m_text(rng: &mut Rng, maxlen: usize) -> String {
    let len = rng.below(maxlen + 1);
    let mode = rng.below(6);
    let mut s = String::new();
    for _ in 0..len {
        let c = match mode {
            0 => *rng.pick(&['a', ' ', '`', '1']),
            1 => *rng.pick(&['😀', 'é', ' ', 'a', '中']),
            2 => *rng.pick(&['a', '\0', 'b', ' ']),
            _ => *rng.pick(M_ALPHABET),
        };
        s.push(c);
    }
    s
}

fn boundaries(s: &str) -> Vec<usize> {
    (0..=s.len()).filter(|o| s.is_char_boundary(*o)).collect()
}

/// observation of reader i and of the result list, as a flat list of numbers
fn observe_reader(r: &mut Reader, i: usize, last_count: usize, c: &Cont) -> Value {
    let cr = r.current_range();
    let tr = r.tail_range();
    let (ls, le, lk) = match c.results.last() {
        Some(it) => (u32::from(it.range.start()) as u64, u32::from(it.range.end()) as u64, kind_code(&it.kind)),
        None => (0, 0, 0),
    };
    json!([
        i,
        r.current_char() as u32,
        r.next_char() as u32,
        r.prev_char() as u32,
        r.is_eof() as u32,
        cr.start_offset,
        cr.length,
        tr.start_offset,
        tr.length,
        r.get_current_end_pos(),
        r.is_start_of_line() as u32,
        last_count,
        c.results.len(),
        ls,
        le,
        lk
    ])
}

fn new_reader<'a>(rng: &mut Rng, text: &'a str, bs: &[usize], readers: &mut Vec<Reader<'a>>, steps: &mut Vec<Value>, cont: &Cont, whole: bool) {
    let (a, b) = if whole {
        (0, text.len())
    } else {
        let x = *rng.pick(bs);
        let y = *rng.pick(bs);
        (x.min(y), x.max(y))
    };
    let mut r = Reader::new_with_range(&text[a..b], SourceRange::new(a, b - a));
    let i = readers.len();
    let obs = observe_reader(&mut r, i, 0, cont);
    readers.push(r);
    steps.push(json!({"ops": [["new", a, b]], "obs": obs}));
}

fn machine_case<'a>(rng: &mut Rng, text: &'a str, nops: usize) -> Value {
    let bs = boundaries(text);
    let cursor = if rng.chance(1, 4) { Some(rng.below(text.len() + 2)) } else { None };
    let mut cont = Cont { results: Vec::new(), cursor };
    let mut readers: Vec<Reader<'a>> = Vec::new();
    // outstanding backtrack points: (bt, reader index it was taken from, index of the clone in `readers`, results len)
    let mut bts: Vec<(BacktrackPoint<'a>, usize, usize, usize)> = Vec::new();
    let mut steps: Vec<Value> = Vec::new();
    let whole = rng.chance(2, 3);
    new_reader(rng, text, &bs, &mut readers, &mut steps, &cont, whole);
    for _ in 0..nops {
        let n = readers.len();
        // the clones kept by outstanding backtrack points are frozen (the real BacktrackPoint owns a private copy)
        let frozen: HashSet<usize> = bts.iter().map(|b| b.2).collect();
        let free: Vec<usize> = (0..n).filter(|x| !frozen.contains(x)).collect();
        let i = *rng.pick(&free);
        let choice = rng.below(100);
        if choice < 28 {
            readers[i].bump();
            let obs = observe_reader(&mut readers[i], i, 0, &cont);
            steps.push(json!({"ops": [["r", i, "bump"]], "obs": obs}));
        } else if choice < 36 {
            readers[i].reset_buff();
            let obs = observe_reader(&mut readers[i], i, 0, &cont);
            steps.push(json!({"ops": [["r", i, "reset"]], "obs": obs}));
        } else if choice < 48 {
            let code = rng.below(8) as u64;
            let arg = *rng.pick(M_ALPHABET);
            // eat_when / eat_till_end are the special cases 3 / 2 of eat_while; exercise the real entry points
            let cnt = match code {
                3 => readers[i].eat_when(arg),
                2 => readers[i].eat_till_end(),
                _ => readers[i].eat_while(pred(code, arg)),
            };
            let obs = observe_reader(&mut readers[i], i, cnt, &cont);
            steps.push(json!({"ops": [["r", i, "eatw", code, arg as u32]], "obs": obs}));
        } else if choice < 56 {
            let code = rng.below(8) as u64;
            let arg = *rng.pick(M_ALPHABET);
            let k = rng.below(5);
            let cnt = if code == 3 {
                readers[i].consume_char_n_times(arg, k)
            } else {
                readers[i].consume_n_times(pred(code, arg), k)
            };
            let obs = observe_reader(&mut readers[i], i, cnt, &cont);
            steps.push(json!({"ops": [["r", i, "consn", code, arg as u32, k]], "obs": obs}));
        } else if choice < 62 && n < 12 {
            // BacktrackPoint::new: keeps a clone of the reader and the length of the results
            let bt = BacktrackPoint::new(&mut cont, &mut readers[i]);
            let cl = readers[i].clone();
            readers.push(cl);
            let m = readers.len() - 1;
            bts.push((bt, i, m, cont.results.len()));
            let obs = observe_reader(&mut readers[m], m, 0, &cont);
            steps.push(json!({"ops": [["clone", i]], "obs": obs}));
        } else if choice < 68 && !bts.is_empty() {
            // rollback (or commit) of a random outstanding point
            let k = rng.below(bts.len());
            let (bt, ri, m, len) = bts.remove(k);
            if rng.chance(3, 4) {
                bt.rollback(&mut cont, &mut readers[ri]);
                let obs = observe_reader(&mut readers[ri], ri, 0, &cont);
                steps.push(json!({"ops": [["restore", ri, m], ["trunc", len]], "obs": obs}));
            } else {
                bt.commit(&mut cont, &mut readers[ri]);
            }
        } else if choice < 74 && n < 12 {
            let sub = readers[i].reset_buff_into_sub_reader();
            readers.push(sub);
            let m = readers.len() - 1;
            let obs = observe_reader(&mut readers[m], m, 0, &cont);
            steps.push(json!({"ops": [["sub", i]], "obs": obs}));
            let obs2 = observe_reader(&mut readers[i], i, 0, &cont);
            steps.push(json!({"ops": [], "obs": obs2}));
        } else if choice < 86 {
            let k = *rng.pick(KIND_CODES);
            cont.emit(&mut readers[i], kind_of_code(k));
            let obs = observe_reader(&mut readers[i], i, 0, &cont);
            steps.push(json!({"ops": [["emit", i, k]], "obs": obs}));
        } else if choice < 92 {
            let j = rng.below(n);
            let k = *rng.pick(KIND_CODES);
            let s = readers[i].current_range().start_offset;
            let e = readers[j].current_range().end_offset();
            if s <= e {
                cont.emit_range(SourceRange::from_start_end(s, e), kind_of_code(k));
                let obs = observe_reader(&mut readers[i], i, 0, &cont);
                steps.push(json!({"ops": [["span", i, j, k]], "obs": obs}));
            }
        } else if choice < 96 {
            let k = *rng.pick(KIND_CODES);
            let tr = readers[i].tail_range();
            cont.emit_range(tr, kind_of_code(k));
            let obs = observe_reader(&mut readers[i], i, 0, &cont);
            steps.push(json!({"ops": [["tail", i, k]], "obs": obs}));
        } else if n < 12 {
            new_reader(rng, text, &bs, &mut readers, &mut steps, &cont, false);
        }
    }
    for (bt, ri, _, _) in bts.drain(..) {
        bt.commit(&mut cont, &mut readers[ri]);
    }
    let results: Vec<Value> = cont.results.iter().map(item_json).collect();
    let mut sorted = cont.results.clone();
    sort_result(&mut sorted);
    let sorted: Vec<Value> = sorted.iter().map(item_json).collect();
    let cps: Vec<u32> = text.chars().map(|c| c as u32).collect();
    json!({"k": "m", "t": cps, "cursor": cursor, "steps": steps, "results": results, "sorted": sorted})
}

fn sort_case(rng: &mut Rng) -> Value {
    let n = rng.below(14);
    let mut items = Vec::new();
    for _ in 0..n {
        let s = rng.below(6) as u32;
        let l = rng.below(4) as u32;
        let k = *rng.pick(&[0u64, 0, 7, 9, 4, 103]);
        items.push(DescItem { range: TextRange::new(TextSize::from(s), TextSize::from(s + l)), kind: kind_of_code(k) });
    }
    let input: Vec<Value> = items.iter().map(item_json).collect();
    sort_result(&mut items);
    let sorted: Vec<Value> = items.iter().map(item_json).collect();
    json!({"k": "s", "items": input, "sorted": sorted})
}

// -------------------------------------------------------------------------- desc_to_lines ("d" cases)

fn tok_kind_code(k: LuaKind) -> u64 {
    match k {
        LuaKind::Token(LuaTokenKind::TkDocDetail) => 0,
        LuaKind::Token(LuaTokenKind::TkEndOfLine) => 1,
        LuaKind::Token(LuaTokenKind::TkNormalStart) => 2,
        LuaKind::Token(LuaTokenKind::TkDocContinue) => 3,
        _ => 4,
    }
}

struct DescInfo {
    desc: LuaDocDescription,
    toks: Vec<(u64, usize, usize)>,
    prev: Option<(u64, usize, usize)>,
    lo: usize,      // desc range
    hi: usize,
    hull_lo: usize, // desc range extended to the left over the non-dash tail of a preceding TkNormalStart
}

fn desc_info(text: &str, desc: &LuaDocDescription) -> DescInfo {
    let mut toks = Vec::new();
    for el in desc.syntax().children_with_tokens() {
        if let LuaSyntaxElement::Token(t) = &el {
            let r = t.text_range();
            toks.push((tok_kind_code(t.kind()), usize::from(r.start()), usize::from(r.len())));
        }
    }
    let prev_el = desc
        .syntax()
        .siblings_with_tokens(Direction::Prev)
        .skip(1)
        .find(|tk| tk.kind() != LuaTokenKind::TkWhitespace.into());
    let mut prev = None;
    let r = desc.get_range();
    let (lo, hi) = (usize::from(r.start()), usize::from(r.end()));
    let mut hull_lo = lo;
    if let Some(LuaSyntaxElement::Token(t)) = &prev_el {
        let tr = t.text_range();
        prev = Some((tok_kind_code(t.kind()), usize::from(tr.start()), usize::from(tr.len())));
        if t.kind() == LuaTokenKind::TkNormalStart.into() {
            let s = usize::from(tr.start());
            let dashes = text[s..usize::from(tr.end())].chars().take_while(|c| *c == '-').count();
            hull_lo = hull_lo.min(s + dashes);
        }
    } else if let Some(LuaSyntaxElement::Node(n)) = &prev_el {
        // a node before the description: desc_to_lines ignores it (not a token)
        let tr = n.text_range();
        prev = Some((4, usize::from(tr.start()), usize::from(tr.len())));
    }
    DescInfo { desc: desc.clone(), toks, prev, lo, hi, hull_lo }
}

fn all_descs(text: &str) -> Vec<DescInfo> {
    let tree = LuaParser::parse(text, ParserConfig::default());
    tree.get_chunk_node().descendants::<LuaDocDescription>().map(|d| desc_info(text, &d)).collect()
}

fn tok3(t: &(u64, usize, usize)) -> Value {
    json!([t.0, t.1, t.2])
}

fn desc_case(text: &str, d: &DescInfo, cursor: Option<usize>) -> Value {
    let desc = d.desc.clone();
    let lines = guarded(|| desc_to_lines(text, desc, cursor));
    let lines_v = match &lines {
        Ok(ls) => Value::Array(ls.iter().map(|l| json!([l.start_offset, l.length])).collect()),
        Err(_) => json!("P"),
    };
    let cps: Vec<u32> = text.chars().map(|c| c as u32).collect();
    json!({"k": "d", "t": cps, "prev": d.prev.as_ref().map(tok3), "toks": d.toks.iter().map(tok3).collect::<Vec<_>>(),
           "cursor": cursor, "lines": lines_v, "desc": [d.lo, d.hi], "hull_lo": d.hull_lo})
}

// ---------------------------------------------------------------------------------- comment generator

const MD_FRAGS: &[&str] = &[
    "text", "word ", "*em*", "**strong**", "***both***", "_em_", "__strong__", "`code`", "``co`de``", "`unterminated",
    "[link](http://x.y)", "[link](<a b>)", "[ref]: http://x", "[nested [x]](u)", "[open", "![img](p.png)", "\\*", "\\",
    "{@link Foo#bar}", "{@link a.b", "{lua:func}`a.b`", "{lua:obj}`~a.b`", "{lua:class}`Title <a.B>`", "{role}`x", "{}",
    "$x^2$", "$$", "$$ (eq1)", "# Heading", "## H2 *em*", "> quote", "> > nested", "- item", "* item", "+ item", "1. one",
    "2) two", "10: ten", "-     code after marker", "    indented code", "\tcode", "```", "```lua", "```json", "``` sql",
    "~~~", "~~~vim", "````", ":::", ":::{note}", "```{code-block} lua", "```{figure} x.png", ":name: value", ":flag:",
    "---", "- - -", "***", "___", "| a | b |", "|---|---|", "local x = 1 -- c", "{\"a\": [1, true]}", "SELECT * FROM t;",
    "echo $HOME | grep x", "syntax = \"proto3\";", "let g:x = 1", "é", "中文", "😀", "a\u{301}", "\u{a0}", "•", "‣ item",
    "\u{2028}", "<", ">", "(", ")", "'", "\"", "::", "end]]", "[[", "]]",
];

const RST_FRAGS: &[&str] = &[
    "text", "word ", "*em*", "**strong**", "``code``", "`interpreted`", ":lua:obj:`a.b`", ":func:`~a.b`",
    ":lua:class:`Title <a.B>`", ":role:`x", ":r", "`link`_", "`anon`__", "name_", "name__", "_`target`", "|subst|",
    "|subst|_", "[1]_", "[#note]_", "[*]_", "\\*", "\\", ".. note::", ".. code-block:: lua", ".. code-block:: json",
    ".. sourcecode:: sql", ".. code:: vim", ".. math::", ".. _target: http://x", ".. __: http://anon", ".. [1] foot",
    ".. [#n] auto", ".. comment", "..", ".. |s| replace:: x", "   :linenos:", "   :name: v", "   indented", "  two",
    " one", "\tt", "::", "para::", ":field: value", ":field:", ":param x: d", "- bullet", "* bullet", "+ bullet",
    "• bullet", "‣ b", "⁃ b", "-", "1. one", "2) two", "(3) three", "#. auto", "a. alpha", "A) Alpha", "(a) x", "i. x",
    "| line block", "|", ">>> print(1)", "... cont", "1", "=====", "-----", "~~~~~", "===", "== ==", "+---+---+",
    "| a | b |", "__ http://anon", "__", "> quoted", "local x = 1", "{\"a\": 1}", "é", "中文", "😀", "a\u{301}", "\u{a0}",
    "\u{2028}", "«x»", "<", ">", "(", ")", "'", "\"", "`", "``", "```", "*", "**", "_", "|",
];

const SOUP: &[char] = &[
    '`', '`', '*', '*', '_', ':', ':', '[', ']', '(', ')', '<', '>', '{', '}', '|', '\\', '-', '-', '#', '~', '$', '.', '.',
    ' ', ' ', ' ', '\t', 'a', 'b', '1', '@', '!', '+', '=', '"', '\'', 'é', '中', '😀', '\u{a0}', '\u{2028}', '•', '\0', '\r',
    '\u{3000}', '\u{2003}', '\u{feff}', '\u{202f}', '\u{205f}', '\u{2029}',
];

/// every kind of blank: ASCII, Latin-1, the U+2000 block, line/paragraph separators, narrow / math / ideographic
/// spaces, the BOM — plus a multi-byte letter so that "indentation" made of multi-byte characters is routine
const BLANKS: &[char] = &[
    ' ', '\t', '\u{a0}', '\u{2000}', '\u{2001}', '\u{2002}', '\u{2003}', '\u{2004}', '\u{2005}', '\u{2006}', '\u{2007}',
    '\u{2008}', '\u{2009}', '\u{200a}', '\u{2028}', '\u{2029}', '\u{202f}', '\u{205f}', '\u{3000}', '\u{feff}', '\u{1680}',
    '\u{85}', '\u{b}', '\u{c}', '中', 'é',
];
const CJK_BLANKS: &[char] = &[' ', ' ', '\t', '\u{3000}', '\u{3000}'];

/// leading indentation of one comment line; `style` is fixed per comment block so that whole blocks share a kind
fn gen_indent(rng: &mut Rng, style: usize, block_blank: char) -> String {
    let mut s = String::new();
    match style {
        0 => {
            // the classic ASCII shapes
            s.push_str(match rng.below(8) {
                0 => "",
                1 => "  ",
                2 => "\t",
                3 => "     ",
                _ => " ",
            });
        }
        1 => {
            // space / tab / ideographic space: 1-3 of them on EVERY line (common indent > 0)
            for _ in 0..(1 + rng.below(3)) {
                s.push(*rng.pick(CJK_BLANKS));
            }
        }
        2 => {
            // one fixed blank character repeated (a block indented consistently with an exotic blank)
            let c = block_blank;
            for _ in 0..(1 + rng.below(3)) {
                s.push(c);
            }
        }
        _ => {
            // any mixture of blanks, 0-4 characters
            for _ in 0..rng.below(5) {
                s.push(*rng.pick(BLANKS));
            }
        }
    }
    s
}

fn gen_joiner(rng: &mut Rng, style: usize) -> String {
    if style == 0 || rng.chance(2, 3) {
        " ".to_string()
    } else {
        rng.pick(BLANKS).to_string()
    }
}

struct GenStats {
    modes: [usize; 6],
    indent_styles: [usize; 4],
}

fn gen_comment(rng: &mut Rng, stats: &mut GenStats) -> String {
    let mode = rng.below(6);
    stats.modes[mode] += 1;
    let nlines = 1 + rng.below(10);
    let eol = if rng.chance(1, 6) { "\r\n" } else { "\n" };
    let base_indent = if rng.chance(1, 4) { "    " } else { "" };
    let mut s = String::new();
    if rng.chance(1, 5) {
        s.push_str("local before = 1");
        s.push_str(eol);
    }
    let long_comment = rng.chance(1, 12);
    if long_comment {
        s.push_str(base_indent);
        s.push_str(if rng.chance(1, 2) { "--[[" } else { "--[==[" });
        if rng.chance(1, 2) {
            s.push_str(eol);
        }
    }
    let tag_first = rng.chance(1, 5);
    let indent_style = rng.below(4);
    let block_blank = *rng.pick(BLANKS);
    stats.indent_styles[indent_style] += 1;
    for li in 0..nlines {
        let mut line = String::new();
        if !long_comment {
            line.push_str(base_indent);
            let p = rng.below(20);
            line.push_str(match p {
                0 => "--",
                1 => "----",
                2 => "-----------",
                _ => "---",
            });
            if li == 0 && tag_first {
                line.push_str(*rng.pick(&["@param x integer ", "@return string # ", "@class Foo ", "@field a number ", "@type T ", "@see Foo ", "@deprecated ", "|"]));
            } else if rng.chance(1, 25) {
                line.push_str(*rng.pick(&["@param y string ", "@return boolean ", "@field b string "]));
            }
            if rng.chance(1, 30) {
                // `--- #region x`: the TkNormalStart stays OUTSIDE the description node (prev-token path of desc_to_lines)
                line.push_str(*rng.pick(&[" #region ", "#region", " region ", "#endregion ", " endregion"]));
            }
            line.push_str(&gen_indent(rng, indent_style, block_blank));
        }
        match mode {
            0 | 1 => {
                // markdown / myst flavoured
                let nf = rng.below(5);
                for _ in 0..nf {
                    line.push_str(*rng.pick(MD_FRAGS));
                    if rng.chance(1, 2) {
                        line.push_str(&gen_joiner(rng, indent_style));
                    }
                }
            }
            2 | 3 => {
                let nf = rng.below(5);
                for _ in 0..nf {
                    line.push_str(*rng.pick(RST_FRAGS));
                    if rng.chance(1, 2) {
                        line.push_str(&gen_joiner(rng, indent_style));
                    }
                }
            }
            4 => {
                // both vocabularies
                let nf = rng.below(6);
                for _ in 0..nf {
                    line.push_str(if rng.chance(1, 2) { *rng.pick(MD_FRAGS) } else { *rng.pick(RST_FRAGS) });
                    if rng.chance(1, 3) {
                        line.push_str(&gen_joiner(rng, indent_style));
                    }
                }
            }
            _ => {
                // soup
                let n = rng.below(24);
                for _ in 0..n {
                    line.push(*rng.pick(SOUP));
                }
            }
        }
        // a lone CR / LF inside a line would end the comment line: keep the generator honest by replacing them
        let line: String = line.chars().map(|c| if c == '\n' { ' ' } else { c }).collect();
        s.push_str(&line);
        if li + 1 < nlines || rng.chance(2, 3) {
            s.push_str(eol);
        }
    }
    if long_comment {
        s.push_str(if s.contains("--[==[") { "]==]" } else { "]]" });
        s.push_str(eol);
    }
    if rng.chance(1, 2) {
        s.push_str(base_indent);
        s.push_str("local x = 1");
        s.push_str(eol);
    }
    s
}

const CORPUS: &[&str] = &[
    "--- Desc\n",
    "---Desc *em* **strong** `code`\n",
    "--- ```lua\n--- local x = 1\n--- ```\n",
    "--- ```json\n--- {\"a\": [1, true]}\n--- ```\n",
    "--------\n--- Desc\n--------\n--- Desc\n--------\n",
    "---@param x int Desc `a` :lua:obj:`b`\n",
    "---     code\n--- b\n",
    "--- é😀 *中* `ß`\n---\n--- - item\n---   cont\n",
    "--- .. code-block:: lua\n---\n---    local x = \"😀\"\n",
    "--- Title\n--- =====\n--- text_ `x`_ |s| [1]_\n",
    "--- {@link Foo#bar} {lua:func}`a.b`\n",
    "--- a\r\n--- b\r\n",
    "--- `a\0b`\n",
    "--[[\nlong *desc*\n]]\n",
    "--- $$\n--- x\n--- $$ (eq)\n",
    "--- - a\n---   - b\n---     - c\n---\n---         code\n",
    "--- | a | b |\n--- |---|---|\n",
    "--- >>> x\n--- ... y\n--- out\n",
    "-- two dashes\n--- three\n",
    "---\n---\n",
    "--- #region *x* `y`\n--- more\n",
    "---#region\n---     code\n--- x\n",
    "---   region    a\n---  b\n",
    // seeded/C37 demo inputs: full-width (ideographic) space U+3000 in and around the indentation
    "--- See *this* and `that`\n--- - 测试 list\n---   continued\nlocal x = 1\n",
    "---   indented 中文\n---   more **text**\n---\n---   end\nlocal x = 1\n",
    "--- a\u{3000}b *c*\n--- d\nlocal x = 1\n",
    "---no indent\n---\u{3000}full-width indent\nlocal x = 1\n",
    "--- first line\n---\u{3000}second line\nlocal x = 1\n",
    "---\u{3000}说明 *text*\nlocal x = 1\n",
    "---  - item\n--- \u{3000}- 项目\nlocal x = 1\n",
    "---\u{a0}nbsp indent\n---\u{2003}em space\n---\u{feff}bom\n",
];

// ------------------------------------------------------------------------------------------- search

fn flavours(rng: &mut Rng) -> Vec<(String, DescParserType)> {
    let dom = if rng.chance(1, 2) { Some("lua".to_string()) } else { None };
    let role = match rng.below(3) {
        0 => None,
        1 => Some("lua:obj".to_string()),
        _ => Some("any".to_string()),
    };
    vec![
        ("md".to_string(), DescParserType::Md),
        (format!("myst[{:?}]", dom), DescParserType::MySt { primary_domain: dom.clone() }),
        (format!("rst[{:?},{:?}]", dom, role), DescParserType::Rst { primary_domain: dom, default_role: role }),
    ]
}

fn flavour_class(name: &str) -> &str {
    if name.starts_with("myst") {
        "myst"
    } else if name.starts_with("rst") {
        "rst"
    } else {
        "md"
    }
}

fn normalise_panic(msg: &str) -> String {
    let mut out = String::new();
    let mut last_digit = false;
    for c in msg.chars().take(90) {
        if c.is_ascii_digit() {
            if !last_digit {
                out.push('N');
            }
            last_digit = true;
        } else {
            last_digit = false;
            out.push(if c == '\n' { ' ' } else { c });
        }
    }
    out
}

struct Outcome {
    violations: Vec<Value>,
    items: usize,
    before_desc_start: usize,
    descs: usize,
    calls: usize,
    nontrivial: bool,
}

/// the property oracle on one source text: every description x every flavour x the given cursors
fn check_text(text: &str, flv: &[(String, DescParserType)], cursors: &[Option<usize>], current: &Arc<Mutex<String>>) -> Outcome {
    let mut out = Outcome { violations: Vec::new(), items: 0, before_desc_start: 0, descs: 0, calls: 0, nontrivial: false };
    let descs = all_descs(text);
    out.descs = descs.len();
    for d in &descs {
        for (fname, kind) in flv {
            for &cursor in cursors {
                *current.lock().unwrap() = format!("{} cursor={:?} desc={}..{}", fname, cursor, d.lo, d.hi);
                out.calls += 1;
                let desc = d.desc.clone();
                let kind2 = kind.clone();
                let r = guarded(|| parse(kind2, text, desc, cursor));
                let fc = flavour_class(fname);
                let mk = |sig: String, what: String| {
                    json!({"signature": sig, "what": what, "text": text, "flavour": fname, "cursor": cursor, "desc": [d.lo, d.hi]})
                };
                match r {
                    Err(msg) => {
                        out.violations.push(mk(format!("panic:{}:{}", fc, normalise_panic(&msg)), format!("parse panicked: {}", msg)));
                    }
                    Ok(items) => {
                        out.items += items.len();
                        if !items.is_empty() {
                            out.nontrivial = true;
                        }
                        let mut prev_start = 0usize;
                        for (ix, it) in items.iter().enumerate() {
                            let (s, e) = (usize::from(it.range.start()), usize::from(it.range.end()));
                            if s < d.hull_lo || e > d.hi {
                                out.violations.push(mk(
                                    format!("out-of-desc:{}", fc),
                                    format!("item #{} {:?} {}..{} outside the description {}..{} (description text starts at {})", ix, it.kind, s, e, d.lo, d.hi, d.hull_lo),
                                ));
                                break;
                            }
                            if s < d.lo {
                                out.before_desc_start += 1;
                            }
                            if e <= text.len() && (!text.is_char_boundary(s) || !text.is_char_boundary(e)) {
                                out.violations.push(mk(
                                    format!("not-char-boundary:{}", fc),
                                    format!("item #{} {:?} {}..{} is not on character boundaries", ix, it.kind, s, e),
                                ));
                                break;
                            }
                            if ix > 0 && s < prev_start {
                                out.violations.push(mk(
                                    format!("unsorted:{}", fc),
                                    format!("item #{} starts at {} after an item starting at {}", ix, s, prev_start),
                                ));
                                break;
                            }
                            prev_start = s;
                        }
                    }
                }
            }
        }
    }
    out
}

fn cursors_for(rng: &mut Rng, text: &str) -> Vec<Option<usize>> {
    let mut v = vec![None];
    if rng.chance(1, 2) {
        v.push(Some(rng.below(text.len() + 2)));
    }
    if rng.chance(1, 4) {
        // just after a backtick / colon / brace if there is one: where completion is requested
        let cands: Vec<usize> = text.char_indices().filter(|(_, c)| matches!(c, '`' | ':' | '{' | '#' | '.')).map(|(i, _)| i + 1).collect();
        if !cands.is_empty() {
            v.push(Some(*rng.pick(&cands)));
        }
    }
    v
}

fn load_corpus_dir() -> Vec<String> {
    // corpus/C37/*.json: {"text": "..."} — hand-written witnesses and past failures, run first
    let mut v = Vec::new();
    let dir = std::env::var("VERIF_CORPUS").unwrap_or_else(|_| "/verif/corpus/C37".to_string());
    if let Ok(rd) = std::fs::read_dir(&dir) {
        let mut paths: Vec<_> = rd.filter_map(|e| e.ok()).map(|e| e.path()).filter(|p| p.extension().map(|x| x == "json").unwrap_or(false)).collect();
        paths.sort();
        for p in paths {
            if let Ok(s) = std::fs::read_to_string(&p) {
                if let Ok(val) = serde_json::from_str::<Value>(&s) {
                    if let Some(t) = val.get("text").and_then(|t| t.as_str()) {
                        v.push(t.to_string());
                    }
                }
            }
        }
    }
    v
}

fn main() {
    let args = Args::parse();
    let seed = args.u64("seed", 1);
    let n = args.usize("n", 100);
    match args.cmd.as_str() {
        "corr" => {
            let mut rng = Rng::new(seed ^ 0xC37);
            // machine cases
            let fixed = ["", "a", "`a`", "ab cd", "é😀x", "a\0b", "  - x", "``", "a😀", "\0"];
            for t in fixed {
                println!("{}", machine_case(&mut rng, t, 30));
            }
            for _ in 0..n {
                let t = gen_m_text(&mut rng, 18);
                let nops = 10 + rng.below(40);
                println!("{}", machine_case(&mut rng, &t, nops));
            }
            for _ in 0..(n / 2 + 4) {
                println!("{}", sort_case(&mut rng));
            }
            // desc_to_lines cases
            let mut stats = GenStats { modes: [0; 6], indent_styles: [0; 4] };
            let mut texts: Vec<String> = CORPUS.iter().map(|s| s.to_string()).collect();
            texts.extend(load_corpus_dir());
            for _ in 0..(n / 2) {
                texts.push(gen_comment(&mut rng, &mut stats));
            }
            for t in &texts {
                if t.len() > 400 {
                    continue;
                }
                for d in all_descs(t) {
                    let cursor = if rng.chance(1, 3) { Some(rng.below(t.len() + 2)) } else { None };
                    println!("{}", desc_case(t, &d, cursor));
                }
            }
        }
        "classes" => {
            // the EXTENSION of the character-class predicates the model depends on, over all Unicode scalar values
            let (mut ws, mut blank, mut trim) = (Vec::new(), Vec::new(), Vec::new());
            let mut buf = String::new();
            for u in 0..=0x10FFFFu32 {
                if let Some(c) = char::from_u32(u) {
                    if is_ws(c) {
                        ws.push(u);
                    }
                    buf.clear();
                    buf.push(c);
                    if is_blank(&buf) {
                        blank.push(u);
                    }
                    buf.insert(0, 'a');
                    if buf.trim_end().len() == 1 {
                        trim.push(u);
                    }
                }
            }
            println!("{}", json!({"is_ws": ws, "is_blank": blank, "trim_end": trim, "is_blank_empty": is_blank("")}));
        }
        "search" => {
            let timeout = Duration::from_millis(args.u64("timeout-ms", 10000));
            let mut rng = Rng::new(seed ^ 0x37C);
            let mut stats = GenStats { modes: [0; 6], indent_styles: [0; 4] };
            let mut texts: Vec<String> = CORPUS.iter().map(|s| s.to_string()).collect();
            texts.extend(load_corpus_dir());
            let ncorpus = texts.len();
            for _ in 0..n {
                texts.push(gen_comment(&mut rng, &mut stats));
            }
            let current = Arc::new(Mutex::new(String::new()));
            let (tx, rx) = mpsc::channel::<(usize, Outcome)>();
            let (jtx, jrx) = mpsc::channel::<(usize, String, Vec<(String, DescParserType)>, Vec<Option<usize>>)>();
            let cur2 = current.clone();
            // the worker owns the syntax trees (rowan nodes are not Send); the main thread is the watchdog
            std::thread::Builder::new()
                .stack_size(256 << 20)
                .spawn(move || {
                    while let Ok((ix, text, flv, cursors)) = jrx.recv() {
                        let r = guarded(|| check_text(&text, &flv, &cursors, &cur2));
                        let o = match r {
                            Ok(o) => o,
                            Err(msg) => Outcome {
                                violations: vec![json!({"signature": format!("panic:harness:{}", normalise_panic(&msg)), "what": format!("panic outside parse (parser / desc walk): {}", msg), "text": text})],
                                items: 0,
                                before_desc_start: 0,
                                descs: 0,
                                calls: 0,
                                nontrivial: false,
                            },
                        };
                        if tx.send((ix, o)).is_err() {
                            break;
                        }
                    }
                })
                .unwrap();
            let mut seen_sigs: HashSet<String> = HashSet::new();
            let mut distinct: HashSet<String> = HashSet::new();
            let (mut cases, mut descs, mut calls, mut items, mut before, mut nviol) = (0usize, 0usize, 0usize, 0usize, 0usize, 0usize);
            let (mut with_cursor, mut multibyte, mut crlf, mut with_nul) = (0usize, 0usize, 0usize, 0usize);
            let mut hang = false;
            for (ix, t) in texts.iter().enumerate() {
                let flv = flavours(&mut rng);
                let cursors = cursors_for(&mut rng, t);
                if cursors.len() > 1 {
                    with_cursor += 1;
                }
                if !t.is_ascii() {
                    multibyte += 1;
                }
                if t.contains("\r\n") {
                    crlf += 1;
                }
                if t.contains('\0') {
                    with_nul += 1;
                }
                jtx.send((ix, t.clone(), flv, cursors)).unwrap();
                match rx.recv_timeout(timeout) {
                    Ok((_, o)) => {
                        cases += 1;
                        descs += o.descs;
                        calls += o.calls;
                        items += o.items;
                        before += o.before_desc_start;
                        if o.nontrivial {
                            distinct.insert(t.clone());
                        }
                        for v in o.violations {
                            nviol += 1;
                            let sig = v["signature"].as_str().unwrap_or("").to_string();
                            // print the first (smallest-so-far) case of each signature only
                            if seen_sigs.insert(sig) {
                                println!("{}", v);
                            }
                        }
                    }
                    Err(_) => {
                        let cur = current.lock().map(|s| s.clone()).unwrap_or_default();
                        let fc = flavour_class(&cur).to_string();
                        println!("{}", json!({"signature": format!("hang:{}", fc), "what": format!("parse did not return within {} ms ({})", timeout.as_millis(), cur), "text": t, "flavour": cur}));
                        nviol += 1;
                        hang = true;
                        break;
                    }
                }
            }
            println!(
                "{}",
                json!({"summary": {"cases": cases, "corpus": ncorpus, "descriptions": descs, "parse_calls": calls, "items": items,
                    "distinct_nontrivial": distinct.len(), "violations": nviol, "stopped_on_hang": hang,
                    "items_starting_in_marker_whitespace_before_desc_node": before,
                    "texts_with_cursor": with_cursor, "texts_multibyte": multibyte, "texts_crlf": crlf, "texts_with_nul": with_nul,
                    "gen_modes": {"md": stats.modes[0] + stats.modes[1], "rst": stats.modes[2] + stats.modes[3], "mixed": stats.modes[4], "soup": stats.modes[5]},
                    "indent_styles": {"ascii": stats.indent_styles[0], "space_tab_ideographic": stats.indent_styles[1], "one_exotic_blank": stats.indent_styles[2], "any_blanks": stats.indent_styles[3]}}})
            );
            // the worker may be stuck in a non-terminating call: never join
            std::process::exit(0);
        }
        "one" => {
            let t: String = serde_json::from_str(&args.str("text-json", "\"\"")).unwrap();
            let fl = args.str("flavour", "all");
            let cursor = args.kv.get("cursor").and_then(|s| s.parse::<usize>().ok());
            let mut rng = Rng::new(seed);
            let all: Vec<(String, DescParserType)> = vec![
                ("md".to_string(), DescParserType::Md),
                ("myst[None]".to_string(), DescParserType::MySt { primary_domain: None }),
                ("myst[Some(\"lua\")]".to_string(), DescParserType::MySt { primary_domain: Some("lua".into()) }),
                ("rst[None,None]".to_string(), DescParserType::Rst { primary_domain: None, default_role: None }),
                ("rst[Some(\"lua\"),Some(\"lua:obj\")]".to_string(), DescParserType::Rst { primary_domain: Some("lua".into()), default_role: Some("lua:obj".into()) }),
            ];
            let _ = &mut rng;
            let flv: Vec<_> = all.into_iter().filter(|(nm, _)| fl == "all" || flavour_class(nm) == fl).collect();
            let current = Arc::new(Mutex::new(String::new()));
            let t2 = t.clone();
            let cur2 = current.clone();
            let (tx, rx) = mpsc::channel();
            std::thread::Builder::new()
                .stack_size(256 << 20)
                .spawn(move || {
                    for d in all_descs(&t2) {
                        println!("{}", json!({"desc": [d.lo, d.hi], "hull_lo": d.hull_lo, "toks": d.toks.iter().map(tok3).collect::<Vec<_>>(), "prev": d.prev.as_ref().map(tok3)}));
                        for (nm, k) in &flv {
                            let r = guarded(|| parse(k.clone(), &t2, d.desc.clone(), cursor));
                            match r {
                                Ok(items) => println!("{}", json!({"flavour": nm, "items": items.iter().map(item_json).collect::<Vec<_>>()})),
                                Err(m) => println!("{}", json!({"flavour": nm, "panic": m})),
                            }
                        }
                    }
                    let o = check_text(&t2, &flv, &[cursor], &cur2);
                    let _ = tx.send(o.violations);
                })
                .unwrap();
            match rx.recv_timeout(Duration::from_millis(args.u64("timeout-ms", 10000))) {
                Ok(vs) => {
                    for v in vs {
                        println!("{}", v);
                    }
                }
                Err(_) => {
                    let cur = current.lock().map(|s| s.clone()).unwrap_or_default();
                    println!("{}", json!({"signature": format!("hang:{}", flavour_class(&cur)), "what": format!("parse did not return ({})", cur), "text": t}));
                }
            }
            std::process::exit(0);
        }
        _ => {
            eprintln!("usage: c37 corr|search|one");
            std::process::exit(2);
        }
    }
}
