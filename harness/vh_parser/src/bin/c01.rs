//! C01 harness: syntax trees are lossless.
//!   c01 search --seed S --n N [--maxlen L]   -> JSON lines: violations of the property oracle (tree text == input,
//!                                               leaf tokens tile the input) on the implementation alone + summary
//!   c01 corr   --seed S --n N                -> JSON lines: observations for the Coq model (needs hook H1)
//!   c01 one    --text-json '"..."' [--level i --doc 0|1]
use emmylua_parser::verif::{MarkEvent, VerifOp, build_from_events, parse_trace};
use emmylua_parser::{LuaFeaturesSet, LuaLanguageLevel, LuaParser, LuaSyntaxKind, LuaSyntaxNode, LuaTokenKind, ParserConfig, SourceRange};
use serde_json::{Value, json};
use std::collections::{HashMap, HashSet};
use vh_common::{Args, Rng, guarded};

pub const LEVELS: [LuaLanguageLevel; 8] = [
    LuaLanguageLevel::Lua51,
    LuaLanguageLevel::LuaJIT2,
    LuaLanguageLevel::LuaJIT,
    LuaLanguageLevel::LuaJIT3,
    LuaLanguageLevel::Lua52,
    LuaLanguageLevel::Lua53,
    LuaLanguageLevel::Lua54,
    LuaLanguageLevel::Lua55,
];

fn config(level: usize, doc: bool) -> ParserConfig<'static> {
    ParserConfig::new(LEVELS[level % 8], None, HashMap::new(), LuaFeaturesSet::default(), doc)
}

// ------------------------------------------------------------------------------------------ generators

const KEYWORDS: &[&str] = &[
    "and", "break", "do", "else", "elseif", "end", "false", "for", "function", "goto", "if", "in", "local", "nil", "not",
    "or", "repeat", "return", "then", "true", "until", "while", "global", "continue", "const",
];
const OPS: &[&str] = &[
    "+", "-", "*", "/", "%", "^", "#", "&", "~", "|", "<<", ">>", "//", "==", "~=", "<=", ">=", "<", ">", "=", "(", ")",
    "{", "}", "[", "]", "::", ";", ":", ",", ".", "..", "...", "+=", "-=", "*=", "/=", "!=", "!", "&&", "||", "?", "?.",
    "??", "->", "@", "`", "$", "\\", "~>>", "..=", "<const>", "<close>",
];
const NAMES: &[&str] = &["a", "b", "x", "foo", "_G", "self", "t1", "é", "名", "print", "require", "string"];
const NUMBERS: &[&str] = &[
    "0", "1", "42", "3.14", ".5", "1e10", "1e+5", "0x1F", "0xA.8p3", "0b101", "1_000", "12LL", "3i", "0x", "1e", "1..2",
    "1.", "0xep", "9a",
];
const STRINGS: &[&str] = &[
    "\"s\"", "'s'", "\"a\\\"b\"", "'\\z  x'", "\"unterminated", "'x\\\ny'", "[[long]]", "[==[l\n]]o]==]", "[=[unterminated",
    "[=", "\"\\u{48}\"", "`tpl`", "\"a\\\r\nb\"",
];
const COMMENTS: &[&str] = &[
    "-- c", "--", "---", "--- text", "--[[ long ]]", "--[==[ l\n ]==]", "--[[ unterminated", "---@type string",
    "---@class A: B", "---@field x number", "---@param a string desc", "---@return number, string", "--region r",
    "--endregion", "---@diagnostic disable-next-line: x", "---|'a'", "---| \"b\" # d", "--[[@as string]]", "--[=[@type T]=]",
    "// c", "/* c */", "/* unterminated", "---@generic T: A", "---@alias X 'a'|'b'", "---@overload fun(a: number): string",
    "---@cast x +string, -nil", "---@see a#b", "---@version >5.1, JIT", "---@source file.lua:1", "---@enum E",
    "---@operator add(A): A", "---@module 'm'", "---@async", "---@meta", "---@field [string] number",
    "---@type {a: number, [1]: string}", "---@type fun(a, ...: any): (x: number, ...)", "---@type A<B, C>[]?",
    "---@type `T`", "---@type table<string, (number|nil)>", "---@as string", "---@[attr(1)]", "---@attribute a(x: number)",
    "---@type [number, string]", "---@type A & B | C", "---@type keyof T", "---@type T extends U and X or Y",
    "---@type { [K in keyof T]: T[K] }", "---@namespace N", "---@using N.M", "---@export", "---@language lua",
    "---@return_cast x string", "---@readonly", "---@deprecated msg", "---@nodiscard", "---@private", "---@type 1 | 'x' | true",
    "---@class (exact) A<T>", "---@field private x? number @comment", "---@param ... any", "---@param x? number # c",
];
const WS: &[&str] = &[" ", "  ", "\t", "\n", "\n", "\r\n", "\r", "\n\n", "\n\r"];
const ODD: &[&str] = &["\0", "\u{feff}", "\u{0}\u{0}", "\u{7f}", "\u{a0}", "\u{2028}", "😀", "\u{1}", "\u{fffd}", "#!shebang"];

/// interesting beginnings of a file (the lexer's prologue, BOM handling, first-line rules)
const PREFIXES: &[&str] = &[
    "\u{feff}", "\u{feff}#", "\u{feff}#!sh\n", "\u{feff}#!sh\r\n", "#", "#!shebang\n", "#!\r", "\u{feff}\u{feff}", "\u{feff}\u{feff}#", "\0", "\0#",
    "\r", "\n", "\r\n", "\u{2028}", "\u{85}", "\u{b}", "\u{c}", "\u{feff}\0", "\u{feff}\r", "\u{feff}\n#", "\u{feff} #", "#\u{feff}", "é", "名",
    "\u{feff}é", "\u{feff}--", "\u{feff}---@", "--", "---@", "\u{feff}\"", "\u{feff}[[", " ", "\t#",
];
/// characters the lexer model branches on
const SPECIALS: &[&str] = &["\u{feff}", "#", "\0", "\r", "\n", "\u{b}", "\u{c}", "é", "名", "\u{2028}", "\u{85}", "\\", "\"", "[", "-"];

/// systematic placements: every prefix in front of a few bodies; every special at position 0, right after a BOM,
/// and at the very end of the input
fn placement_texts() -> Vec<String> {
    const BODIES: &[&str] = &["", "x", "local a = 1\n", "--c", "---@type T\nlocal t", "\"s", "#t + 1\n"];
    let mut v = Vec::new();
    for b in BODIES {
        for p in PREFIXES {
            v.push(format!("{p}{b}"));
        }
        for s in SPECIALS {
            v.push(format!("{s}{b}"));
            v.push(format!("{}{s}{b}", "\u{feff}"));
            v.push(format!("{b}{s}"));
            v.push(format!("{b}\n{s}"));
        }
    }
    v.sort();
    v.dedup();
    v
}

fn lexeme(rng: &mut Rng) -> &'static str {
    match rng.below(16) {
        0..=2 => pk(rng, KEYWORDS),
        3..=6 => pk(rng, OPS),
        7..=8 => pk(rng, NAMES),
        9 => pk(rng, NUMBERS),
        10 => pk(rng, STRINGS),
        11..=12 => pk(rng, COMMENTS),
        13..=14 => pk(rng, WS),
        _ => pk(rng, ODD),
    }
}

fn gen_soup(rng: &mut Rng, maxtok: usize) -> String {
    let n = rng.range(1, maxtok);
    let mut s = String::new();
    let glue = rng.below(3);
    for _ in 0..n {
        s.push_str(lexeme(rng));
        match glue {
            0 => s.push(' '),
            1 => {
                if rng.chance(1, 2) {
                    s.push_str(pk(rng, WS));
                }
            }
            _ => {}
        }
    }
    s
}

fn gen_expr(rng: &mut Rng, d: usize, s: &mut String) {
    if d == 0 {
        s.push_str(match rng.below(5) {
            0 => pk(rng, NAMES),
            1 => pk(rng, NUMBERS),
            2 => pk(rng, STRINGS),
            3 => "nil",
            _ => "...",
        });
        return;
    }
    match rng.below(9) {
        0 => {
            gen_expr(rng, d - 1, s);
            s.push(' ');
            s.push_str(pk(rng, &["+", "-", "*", "..", "==", "and", "or", "<", "//", "&", "^", "~=", "??", "?"]));
            s.push(' ');
            gen_expr(rng, d - 1, s);
        }
        1 => {
            s.push_str(pk(rng, &["not ", "-", "#", "~"]));
            gen_expr(rng, d - 1, s);
        }
        2 => {
            s.push('(');
            gen_expr(rng, d - 1, s);
            s.push(')');
        }
        3 => {
            s.push('{');
            for _ in 0..rng.below(4) {
                match rng.below(4) {
                    0 => {
                        s.push_str(pk(rng, NAMES));
                        s.push_str(" = ");
                    }
                    1 => {
                        s.push('[');
                        gen_expr(rng, d - 1, s);
                        s.push_str("] = ");
                    }
                    _ => {}
                }
                gen_expr(rng, d - 1, s);
                s.push_str(pk(rng, &[", ", "; ", ",\n", " "]));
            }
            s.push('}');
        }
        4 => {
            s.push_str("function(");
            s.push_str(pk(rng, &["", "a", "a, b", "...", "a, ..."]));
            s.push_str(") ");
            gen_block(rng, d - 1, s);
            s.push_str(" end");
        }
        5 => {
            s.push_str(pk(rng, NAMES));
            s.push_str(pk(rng, &[".", ":", "?."]));
            s.push_str(pk(rng, NAMES));
            s.push('(');
            gen_expr(rng, d - 1, s);
            s.push(')');
        }
        6 => {
            s.push_str(pk(rng, NAMES));
            s.push('[');
            gen_expr(rng, d - 1, s);
            s.push(']');
        }
        7 => {
            s.push_str(pk(rng, NAMES));
            s.push_str(pk(rng, &[" \"s\"", "{}", " [[x]]"]));
        }
        _ => gen_expr(rng, 0, s),
    }
}

fn gen_stat(rng: &mut Rng, d: usize, s: &mut String) {
    match rng.below(16) {
        0 => {
            s.push_str("local ");
            s.push_str(pk(rng, NAMES));
            if rng.chance(1, 4) {
                s.push_str(pk(rng, &[" <const>", " <close>", ", b"]));
            }
            if rng.chance(3, 4) {
                s.push_str(" = ");
                gen_expr(rng, d, s);
            }
        }
        1 => {
            s.push_str(pk(rng, NAMES));
            s.push_str(pk(rng, &[" = ", " += ", ".x = ", "[1] = "]));
            gen_expr(rng, d, s);
        }
        2 => {
            s.push_str("if ");
            gen_expr(rng, d.min(1), s);
            s.push_str(" then\n");
            gen_block(rng, d.saturating_sub(1), s);
            if rng.chance(1, 3) {
                s.push_str("\nelseif ");
                gen_expr(rng, 0, s);
                s.push_str(" then\n");
                gen_block(rng, d.saturating_sub(1), s);
            }
            if rng.chance(1, 3) {
                s.push_str("\nelse\n");
                gen_block(rng, d.saturating_sub(1), s);
            }
            s.push_str("\nend");
        }
        3 => {
            s.push_str("for i = 1, ");
            gen_expr(rng, 0, s);
            s.push_str(" do ");
            gen_block(rng, d.saturating_sub(1), s);
            s.push_str(" end");
        }
        4 => {
            s.push_str("for k, v in pairs(");
            gen_expr(rng, 0, s);
            s.push_str(") do\n");
            gen_block(rng, d.saturating_sub(1), s);
            s.push_str("\nend");
        }
        5 => {
            s.push_str("while ");
            gen_expr(rng, d.min(1), s);
            s.push_str(" do ");
            gen_block(rng, d.saturating_sub(1), s);
            s.push_str(" end");
        }
        6 => {
            s.push_str("repeat ");
            gen_block(rng, d.saturating_sub(1), s);
            s.push_str(" until ");
            gen_expr(rng, 0, s);
        }
        7 => {
            s.push_str(pk(rng, &["function ", "local function ", "function a.b:"]));
            s.push_str(pk(rng, NAMES));
            s.push_str("(a, b)\n");
            gen_block(rng, d.saturating_sub(1), s);
            s.push_str("\nend");
        }
        8 => {
            s.push_str("return ");
            gen_expr(rng, d, s);
        }
        9 => s.push_str(pk(rng, &["break", "goto l", "::l::", "continue", ";", "do end", "global x", "global function f() end"])),
        10..=12 => {
            s.push_str(pk(rng, COMMENTS));
        }
        13 => {
            // a doc block in front of a statement
            for _ in 0..rng.range(1, 4) {
                s.push_str(pk(rng, COMMENTS));
                s.push('\n');
            }
            s.push_str("local x = 1");
        }
        _ => {
            s.push_str(pk(rng, NAMES));
            s.push('(');
            gen_expr(rng, d, s);
            s.push(')');
            if rng.chance(1, 3) {
                s.push(' ');
                s.push_str(pk(rng, COMMENTS));
            }
        }
    }
}

fn gen_block(rng: &mut Rng, d: usize, s: &mut String) {
    for _ in 0..rng.below(3) {
        gen_stat(rng, d, s);
        s.push_str(pk(rng, &["\n", "\n", " ", "; ", "\n\n", "\r\n"]));
    }
}

fn gen_program(rng: &mut Rng) -> String {
    let mut s = String::new();
    for _ in 0..rng.range(1, 6) {
        gen_stat(rng, 2, &mut s);
        s.push_str(pk(rng, &["\n", "\n", " ", "; ", "\n\n", "\r\n"]));
    }
    s
}

const TYPE_ATOMS: &[&str] = &[
    "string", "number", "A", "A.B", "T", "'lit'", "\"lit\"", "1", "true", "nil", "any", "...", "`T`", "self", "table", "fun()",
    "?", "[", "]", "{", "}", "(", ")", "<", ">", ",", ":", "|", "&", "...", "fun", "keyof", "extends", "and", "or", "in", "=>",
    "[]", "?", "#", "@", "--", "-", "=", "+", ".", "x", "\\", "\"", "'", "*", "/", "!",
];
const TAGS: &[&str] = &[
    "class", "field", "param", "return", "type", "alias", "generic", "overload", "enum", "cast", "see", "version", "source",
    "diagnostic", "module", "operator", "as", "namespace", "using", "meta", "async", "deprecated", "nodiscard", "private",
    "public", "protected", "package", "readonly", "export", "language", "attribute", "return_cast", "mapping", "other",
    "interface", "vararg", "", "region", "endregion", "[a]", "field_x",
];

fn gen_doc(rng: &mut Rng) -> String {
    let mut s = String::new();
    for _ in 0..rng.range(1, 6) {
        match rng.below(12) {
            0 => s.push_str(pk(rng, COMMENTS)),
            1 => {
                s.push_str(pk(rng, &["--", "---", "--- ", "----", "-- ", "--region ", "--endregion", "--- @", "---@ "]));
                s.push_str(pk(rng, &["", "text", "text more", "@x", "#", "```lua", "```"]));
            }
            2 => {
                s.push_str(pk(rng, &["--[[", "--[==[", "--[[@", "--[["]));
                s.push_str(pk(rng, &["", "x", "\n", "as T", "\n---@type T\n", "type A"]));
                s.push_str(pk(rng, &["]]", "]==]", "", "]", "]]"]));
            }
            3 => {
                s.push_str(pk(rng, &["---|", "--- |", "---|+", "---|>"]));
                for _ in 0..rng.below(4) {
                    s.push(' ');
                    s.push_str(pk(rng, TYPE_ATOMS));
                }
            }
            _ => {
                s.push_str(pk(rng, &["---@", "--- @", "---@", "--@", "---@"]));
                s.push_str(pk(rng, TAGS));
                for _ in 0..rng.below(7) {
                    if rng.chance(4, 5) {
                        s.push(' ');
                    }
                    s.push_str(pk(rng, TYPE_ATOMS));
                }
            }
        }
        s.push_str(pk(rng, &["\n", "\n", "\n", "\r\n", " ", "\n\n", "", "\nlocal x\n", " x = 1\n", "\r"]));
    }
    if rng.chance(1, 2) {
        s.push_str(pk(rng, &["local x = 1", "function f() end", "x = {}", "return", "\n"]));
    }
    s
}

fn std_files() -> Vec<String> {
    static DIR: &str = "/repo/crates/emmylua_code_analysis/resources/std";
    let mut v = Vec::new();
    if let Ok(rd) = std::fs::read_dir(DIR) {
        let mut ps: Vec<_> = rd.filter_map(|e| e.ok()).map(|e| e.path()).filter(|p| p.extension().map(|x| x == "lua").unwrap_or(false)).collect();
        ps.sort();
        for p in ps {
            if let Ok(t) = std::fs::read_to_string(&p) {
                v.push(t);
            }
        }
    }
    v
}

fn floor_boundary(s: &str, mut i: usize) -> usize {
    i = i.min(s.len());
    while !s.is_char_boundary(i) {
        i -= 1;
    }
    i
}

fn mutate(rng: &mut Rng, base: &str, maxlen: usize) -> String {
    // take a window of whole lines, then apply a few mutations
    let lines: Vec<&str> = base.split_inclusive('\n').collect();
    let mut s = String::new();
    if !lines.is_empty() {
        let start = rng.below(lines.len());
        let mut i = start;
        while i < lines.len() && s.len() + lines[i].len() <= maxlen {
            s.push_str(lines[i]);
            i += 1;
        }
        if s.is_empty() {
            let e = floor_boundary(lines[start], maxlen);
            s.push_str(&lines[start][..e]);
        }
    }
    for _ in 0..rng.below(5) {
        if s.is_empty() {
            break;
        }
        let p = floor_boundary(&s, rng.below(s.len() + 1));
        match rng.below(8) {
            0 => {
                let q = floor_boundary(&s, p + rng.range(1, 6));
                s.replace_range(p..q, "");
            }
            1 => s.insert_str(p, lexeme(rng)),
            2 => s.insert_str(p, pk(rng, ODD)),
            3 => s.insert_str(p, pk(rng, OPS)),
            4 => s.insert_str(p, pk(rng, COMMENTS)),
            5 => s.insert_str(p, pk(rng, WS)),
            6 => s.truncate(p),
            _ => {
                let q = floor_boundary(&s, p + rng.range(1, 12));
                let piece = s[p..q].to_string();
                s.insert_str(p, &piece);
            }
        }
    }
    s
}

fn gen_bytes(rng: &mut Rng, maxlen: usize) -> String {
    let n = rng.range(1, maxlen);
    let mode = rng.below(3);
    let v: Vec<u8> = (0..n)
        .map(|_| match mode {
            0 => rng.below(256) as u8,
            1 => *rng.pick(b"-[]=@\n\r \t\"'\\0x.e{}(),;#|<>:?!/*`~&%^+az_09\x00\xef\xbb\xbf\xc3\xa9\xff"),
            _ => rng.below(128) as u8,
        })
        .collect();
    String::from_utf8_lossy(&v).into_owned()
}

fn inject_odd(rng: &mut Rng, s: &mut String) {
    for _ in 0..rng.range(1, 2) {
        let p = floor_boundary(s, rng.below(s.len() + 1));
        s.insert_str(p, pk(rng, &["\0", "\u{feff}", "\0", "\u{feff}", "\0\0", "\u{1a}"]));
    }
}

pub const MODES: &[&str] = &["soup", "program", "doc", "std-mutant", "bytes", "nul-bom"];

fn gen_text(rng: &mut Rng, stds: &[String], maxlen: usize) -> (usize, String) {
    let mode = match rng.below(16) {
        0..=4 => 0,
        5..=7 => 1,
        8..=10 => 2,
        11..=12 => 3,
        13 => 4,
        _ => 5,
    };
    let mut s = match mode {
        0 => gen_soup(rng, 14),
        1 => gen_program(rng),
        2 => gen_doc(rng),
        3 => {
            if stds.is_empty() {
                gen_program(rng)
            } else {
                let b = rng.pick(stds).clone();
                mutate(rng, &b, maxlen)
            }
        }
        4 => gen_bytes(rng, 40),
        _ => {
            let mut t = match rng.below(3) {
                0 => gen_soup(rng, 8),
                1 => gen_program(rng),
                _ => gen_doc(rng),
            };
            inject_odd(rng, &mut t);
            t
        }
    };
    if s.len() > maxlen {
        let e = floor_boundary(&s, maxlen);
        s.truncate(e);
    }
    // interesting prefixes and final characters, in every mode
    if rng.chance(1, 4) {
        s.insert_str(0, pk(rng, PREFIXES));
    }
    if rng.chance(1, 8) {
        s.push_str(pk(rng, SPECIALS));
    }
    (mode, s)
}

// ------------------------------------------------------------------------------------------ oracle

/// the property oracle on the implementation: Ok(()) or Err((kind, detail))
fn oracle(text: &str, level: usize, doc: bool) -> Result<(), (String, String)> {
    let r = guarded(|| {
        let tree = LuaParser::parse(text, config(level, doc));
        let root = tree.get_red_root();
        let whole = root.text().to_string();
        let mut leaves: Vec<(usize, usize, String)> = Vec::new();
        for el in root.descendants_with_tokens() {
            if let Some(t) = el.as_token() {
                let r = t.text_range();
                leaves.push((u32::from(r.start()) as usize, u32::from(r.end()) as usize, t.text().to_string()));
            }
        }
        (whole, leaves)
    });
    let (whole, leaves) = match r {
        Ok(x) => x,
        // a panic is C02's business, not a losslessness verdict
        Err(_) => return Ok(()),
    };
    if whole != text {
        let common = whole.bytes().zip(text.bytes()).take_while(|(a, b)| a == b).count();
        let kind = if whole.len() < text.len() && text.starts_with(&whole) {
            "dropped-suffix"
        } else if whole.len() > text.len() {
            "longer"
        } else {
            "different"
        };
        return Err((kind.to_string(), format!("tree text has {} bytes, input {} bytes, first difference at byte {}", whole.len(), text.len(), common)));
    }
    // leaf tokens tile the input in order
    let mut pos = 0usize;
    for (a, b, t) in &leaves {
        if *a != pos || *b < *a || text.get(*a..*b) != Some(t.as_str()) {
            return Err(("tiling".to_string(), format!("leaf token {}..{} {:?} does not continue the tiling at {}", a, b, t, pos)));
        }
        pos = *b;
    }
    if pos != text.len() {
        return Err(("tiling".to_string(), format!("leaf tokens end at {} but the input has {} bytes", pos, text.len())));
    }
    Ok(())
}

fn fails(text: &str, level: usize, doc: bool, kind: &str) -> bool {
    matches!(oracle(text, level, doc), Err((k, _)) if k == kind)
}

/// delta debugging on characters, keeping the failure kind
fn shrink(text: &str, level: usize, doc: bool, kind: &str) -> String {
    let mut cur: Vec<char> = text.chars().collect();
    let mut chunk = (cur.len() / 2).max(1);
    let mut budget = 4000usize;
    loop {
        let mut progressed = false;
        let mut i = 0;
        while i < cur.len() && budget > 0 {
            let j = (i + chunk).min(cur.len());
            let cand: String = cur[..i].iter().chain(cur[j..].iter()).collect();
            budget -= 1;
            if fails(&cand, level, doc, kind) {
                cur = cand.chars().collect();
                progressed = true;
            } else {
                i += chunk;
            }
        }
        if budget == 0 {
            break;
        }
        if chunk == 1 && !progressed {
            break;
        }
        if !progressed {
            chunk = (chunk / 2).max(1);
        }
    }
    cur.into_iter().collect()
}

/// class of a character for signatures
fn cls(c: char) -> char {
    match c {
        '\0' => '0',
        '\u{feff}' => 'B',
        '\n' | '\r' => 'n',
        ' ' | '\t' => '_',
        c if c.is_ascii_digit() => '9',
        c if c.is_alphabetic() || c == '_' => 'a',
        c if c.is_ascii() => c,
        _ => 'u',
    }
}

/// signature computed from the shrunk failing case: failure kind + what the first lost/different byte is +
/// the character-class skeleton of the shrunk text (runs collapsed)
fn signature(kind: &str, shrunk: &str, level: usize, doc: bool) -> String {
    let tree_text = guarded(|| LuaParser::parse(shrunk, config(level, doc)).get_red_root().text().to_string()).unwrap_or_default();
    let common = tree_text.bytes().zip(shrunk.bytes()).take_while(|(a, b)| a == b).count();
    let first = shrunk.get(floor_boundary(shrunk, common)..).and_then(|s| s.chars().next());
    if kind == "dropped-suffix" && first == Some('\0') {
        return "dropped-suffix:first-dropped-byte-is-NUL".to_string();
    }
    let mut sk = String::new();
    let mut last = '\u{1}';
    for c in shrunk.chars() {
        let k = cls(c);
        if k != last || !(k == 'a' || k == '9' || k == '_' || k == 'n' || k == 'u') {
            sk.push(k);
        }
        last = k;
    }
    if sk.len() > 40 {
        sk.truncate(40);
    }
    format!("{}:{}:doc={}", kind, sk, doc as u8)
}

fn report(text: &str, level: usize, doc: bool, kind: &str, detail: &str, mode: &str) -> Value {
    let small = shrink(text, level, doc, kind);
    let sig = signature(kind, &small, level, doc);
    let tree_text = guarded(|| LuaParser::parse(&small, config(level, doc)).get_red_root().text().to_string()).unwrap_or_default();
    json!({
        "signature": sig,
        "what": format!("{}: {} (level {:?}, doc {}); shrunk input {:?} gives tree text {:?}", kind, detail, LEVELS[level], doc, small, tree_text),
        "text": text, "shrunk": small, "level": level, "doc": doc, "kind": kind, "mode": mode,
    })
}


// ------------------------------------------------------------------------------------------ model tie (hook H1)

fn sk(k: LuaSyntaxKind) -> u16 {
    k as u16
}
fn tk(k: LuaTokenKind) -> u16 {
    k as u16
}

/// the tree as a Coq term of type EV.C01.Model.tree
fn tree_term(node: &LuaSyntaxNode, out: &mut String) {
    let k: LuaSyntaxKind = node.kind().into();
    out.push_str(&format!("Node {} [", sk(k)));
    let mut first = true;
    for el in node.children_with_tokens() {
        if !first {
            out.push(';');
        }
        first = false;
        match el {
            rowan::NodeOrToken::Node(n) => tree_term(&n, out),
            rowan::NodeOrToken::Token(t) => {
                let k: LuaTokenKind = t.kind().into();
                let r = t.text_range();
                out.push_str(&format!("Tok {} {} {}", tk(k), u32::from(r.start()), u32::from(r.len())));
            }
        }
    }
    out.push(']');
}

fn events_json(events: &[MarkEvent]) -> Vec<Value> {
    events
        .iter()
        .map(|e| match e {
            MarkEvent::NodeStart { kind, parent } => json!([0, sk(*kind), parent]),
            MarkEvent::EatToken { kind, range } => json!([1, tk(*kind), range.start_offset, range.length]),
            MarkEvent::NodeEnd => json!([2]),
            MarkEvent::Trivia => json!([3]),
        })
        .collect()
}

fn ops_json(ops: &[VerifOp]) -> Vec<Value> {
    ops.iter()
        .map(|o| match o {
            VerifOp::Init => json!(["I"]),
            VerifOp::Bump => json!(["B"]),
            VerifOp::SetTokenKind(k) => json!(["T", tk(*k)]),
            VerifOp::Mark { position, kind } => json!(["M", position, sk(*kind)]),
            VerifOp::SetKind { position, kind } => json!(["K", position, sk(*kind)]),
            VerifOp::Complete { position } => json!(["C", position]),
            VerifOp::PushNodeEnd => json!(["E"]),
            VerifOp::Undo { position } => json!(["U", position]),
            VerifOp::Precede { start, position, kind } => json!(["P", start, position, sk(*kind)]),
            VerifOp::DocBegin { tokens } => json!(["DB", tokens.iter().map(|t| json!([tk(t.kind), t.range.start_offset, t.range.length])).collect::<Vec<_>>()]),
            VerifOp::DocEat { kind, range } => json!(["DE", tk(*kind), range.start_offset, range.length]),
            VerifOp::DocEnd => json!(["DX"]),
            VerifOp::DocBump { skip } => json!(["PB", skip]),
            VerifOp::DocEatLex => json!(["PE"]),
            VerifOp::DocRecalcDetail => json!(["PD"]),
            VerifOp::DocRecalcCast => json!(["PC"]),
            VerifOp::DocSetKind(k) => json!(["PK", tk(*k)]),
            VerifOp::DocLex { kind, range } => json!(["PL", tk(*kind), range.start_offset, range.length]),
        })
        .collect()
}

/// decidable discipline predicates evaluated on a real trace (hypotheses the un-modelled grammar is held to)
fn discipline(events: &[MarkEvent], mark_level: usize) -> Value {
    // well-bracketed after erasing None starts: depth never negative, ends at 0
    let (mut depth, mut min_depth) = (0i64, 0i64);
    let mut end_before_token = false;
    let mut seen_token = false;
    for e in events {
        match e {
            MarkEvent::NodeStart { kind, .. } if *kind != LuaSyntaxKind::None => depth += 1,
            MarkEvent::NodeEnd => {
                depth -= 1;
                if !seen_token {
                    end_before_token = true;
                }
            }
            MarkEvent::EatToken { .. } => seen_token = true,
            _ => {}
        }
        min_depth = min_depth.min(depth);
    }
    json!({"final_depth": depth, "min_depth": min_depth, "end_before_token": end_before_token, "mark_level": mark_level})
}

fn observe(text: &str, level: usize, doc: bool) -> Option<Value> {
    let tr = guarded(|| parse_trace(text, config(level, doc))).ok()?;
    let root = tr.tree.get_red_root();
    let mut term = String::new();
    tree_term(&root, &mut term);
    let toks: Vec<Value> = tr.tokens.iter().map(|t| json!([tk(t.kind), t.range.start_offset, t.range.length])).collect();
    let cps: Vec<u32> = text.chars().map(|c| c as u32).collect();
    // the builder alone, fed the recorded events, must give the same tree
    let rebuilt = guarded(|| {
        let g = build_from_events(text, tr.events.clone());
        let n = LuaSyntaxNode::new_root(g);
        let mut s = String::new();
        tree_term(&n, &mut s);
        s
    })
    .unwrap_or_else(|_| "P".to_string());
    // char::is_alphabetic / is_alphanumeric on the non-ASCII characters of the text (parameters of the lexer model)
    let mut alpha: Vec<u32> = text.chars().filter(|c| !c.is_ascii() && c.is_alphabetic()).map(|c| c as u32).collect();
    alpha.sort();
    alpha.dedup();
    let mut alnum: Vec<u32> = text.chars().filter(|c| !c.is_ascii() && c.is_alphanumeric()).map(|c| c as u32).collect();
    alnum.sort();
    alnum.dedup();
    Some(json!({
        "t": cps, "level": level, "doc": doc, "tokens": toks, "alpha": alpha, "alnum": alnum, "events": events_json(&tr.events), "tree": term,
        "rebuilt_same": rebuilt == term, "ops": ops_json(&tr.ops), "discipline": discipline(&tr.events, tr.mark_level),
        "tree_text_ok": root.text().to_string() == text, "nerrors": tr.tree.get_errors().len(),
    }))
}

/// arbitrary (mostly NOT well-bracketed) event lists over a dummy text, through the real builder
fn gen_events(rng: &mut Rng) -> (String, Vec<MarkEvent>) {
    const TOKS: &[LuaTokenKind] = &[
        LuaTokenKind::TkWhitespace, LuaTokenKind::TkEndOfLine, LuaTokenKind::TkDocContinue, LuaTokenKind::TkName, LuaTokenKind::TkLocal,
        LuaTokenKind::TkWhitespace, LuaTokenKind::TkComma, LuaTokenKind::TkInt, LuaTokenKind::TkEndOfLine, LuaTokenKind::TkString,
    ];
    const NODES: &[LuaSyntaxKind] = &[
        LuaSyntaxKind::Block, LuaSyntaxKind::Chunk, LuaSyntaxKind::Comment, LuaSyntaxKind::TypeMultiLineUnion, LuaSyntaxKind::DocDescription,
        LuaSyntaxKind::LocalStat, LuaSyntaxKind::NameExpr, LuaSyntaxKind::TableArrayExpr, LuaSyntaxKind::None, LuaSyntaxKind::CallExpr,
        LuaSyntaxKind::Block, LuaSyntaxKind::Comment,
    ];
    let n = rng.range(0, 24);
    let mut evs: Vec<MarkEvent> = Vec::new();
    let mut pos = 0usize;
    let mode = rng.below(4); // 0: balanced-ish, 1: too many ends, 2: too few ends, 3: anything
    let mut open = 0usize;
    let mut starts: Vec<usize> = Vec::new();
    for _ in 0..n {
        match rng.below(10) {
            0..=3 => {
                let len = rng.range(1, 3);
                evs.push(MarkEvent::EatToken { kind: *rng.pick(TOKS), range: SourceRange::new(pos, len) });
                pos += len;
            }
            4..=6 => {
                starts.push(evs.len());
                evs.push(MarkEvent::NodeStart { kind: *rng.pick(NODES), parent: 0 });
                open += 1;
            }
            7..=8 => {
                if open > 0 || mode == 1 || mode == 3 {
                    evs.push(MarkEvent::NodeEnd);
                    open = open.saturating_sub(1);
                }
            }
            _ => {
                // precede: a later start adopted as parent by an earlier one
                if let Some(&st) = starts.get(rng.below(starts.len().max(1))) {
                    let m = evs.len();
                    if let MarkEvent::NodeStart { parent, .. } = &mut evs[st] {
                        if *parent == 0 || mode == 3 {
                            *parent = if mode == 3 && rng.chance(1, 6) { rng.below(m + 3) } else { m };
                        }
                    }
                    evs.push(MarkEvent::NodeStart { kind: *rng.pick(NODES), parent: 0 });
                    evs.push(MarkEvent::Trivia);
                    open += 1;
                }
            }
        }
    }
    if mode == 0 {
        for _ in 0..open {
            evs.push(MarkEvent::NodeEnd);
        }
    } else if mode == 1 {
        for _ in 0..open + rng.range(1, 3) {
            evs.push(MarkEvent::NodeEnd);
        }
        let len = rng.range(1, 3);
        evs.push(MarkEvent::EatToken { kind: *rng.pick(TOKS), range: SourceRange::new(pos, len) });
        pos += len;
    }
    ("x".repeat(pos), evs)
}

fn observe_events(text: &str, evs: &[MarkEvent]) -> Value {
    let r = guarded(|| {
        let g = build_from_events(text, evs.to_vec());
        let n = LuaSyntaxNode::new_root(g);
        let mut s = String::new();
        tree_term(&n, &mut s);
        (s, n.text().to_string())
    });
    let expect: String = {
        let mut s = String::new();
        for e in evs {
            if let MarkEvent::EatToken { range, .. } = e {
                s.push_str(&text[range.start_offset..range.end_offset()]);
            }
        }
        s
    };
    match r {
        Ok((term, txt)) => json!({"events": events_json(evs), "tree": term, "lossless": txt == expect}),
        Err(_) => json!({"events": events_json(evs), "tree": "P", "lossless": true}),
    }
}

fn corpus_texts() -> Vec<String> {
    let mut v: Vec<String> = [
        "", "\n", "local a = 1\0 local b = 2\n", "{,then", "\u{feff}local x = 1\n", "a\0b", "\0", "--region x\nlocal a = 1\n",
        "local t = {1, 2 -- region\n}\nprint(t)\n", "x = 1 --region r\ny = 2\n", "#!/usr/bin/lua\nprint(1)\n", "--[[ unterminated",
        "\"unterminated", "[==[", "---@class A\n---@field x number\nlocal A = {}\n", "return {,}", "f(,)", "t = {[}", "local function",
        "---@type fun(a: number): string\nlocal f\n", "a = b ? c : d", "x = `tpl`", "if then else end end end", "::l:: goto l",
        "---|'a'\n---|'b'\n", "--[[@as T]]", "local x <const> = 1", "for = , do end", "\r\n\r\n", "\n\r\n\r", "0x 1e 9a", "é = 名",
    ]
    .iter()
    .map(|s| s.to_string())
    .collect();
    v.extend(placement_texts());
    // corpus/C01/*.json : {"texts": [...]}
    let dir = std::env::var("VERIF_CORPUS").unwrap_or_else(|_| "/verif/corpus/C01".to_string());
    if let Ok(rd) = std::fs::read_dir(&dir) {
        let mut ps: Vec<_> = rd.filter_map(|e| e.ok()).map(|e| e.path()).collect();
        ps.sort();
        for p in ps {
            if let Ok(t) = std::fs::read_to_string(&p) {
                if let Ok(v2) = serde_json::from_str::<Value>(&t) {
                    if let Some(a) = v2.get("texts").and_then(|x| x.as_array()) {
                        for x in a {
                            if let Some(s) = x.as_str() {
                                v.push(s.to_string());
                            }
                        }
                    }
                }
            }
        }
    }
    v
}

fn main() {
    let args = Args::parse();
    let seed = args.u64("seed", 1);
    let n = args.usize("n", 1000);
    let maxlen = args.usize("maxlen", 400);
    let mut rng = Rng::new(seed ^ 0xC01);
    match args.cmd.as_str() {
        "search" => {
            let stds = std_files();
            let mut out: Vec<Value> = Vec::new();
            let mut sigs: HashSet<String> = HashSet::new();
            let mut distinct: HashSet<u64> = HashSet::new();
            let mut per_mode = vec![0usize; MODES.len() + 2];
            let (mut count, mut parses, mut with_err, mut bytes_total) = (0usize, 0usize, 0usize, 0usize);
            let mut texts: Vec<(usize, String)> = corpus_texts().into_iter().map(|t| (MODES.len(), t)).collect();
            // whole bundled std files, unmodified
            for t in &stds {
                texts.push((MODES.len() + 1, t.clone()));
            }
            for _ in 0..n {
                texts.push(gen_text(&mut rng, &stds, maxlen));
            }
            for (mode, t) in texts {
                count += 1;
                per_mode[mode] += 1;
                bytes_total += t.len();
                let big = t.len() > 4000;
                for level in 0..8 {
                    for doc in [true, false] {
                        if big && !(level == 7 || (level == 2 && doc)) {
                            continue;
                        }
                        parses += 1;
                        if let Err((kind, detail)) = oracle(&t, level, doc) {
                            let name = if mode < MODES.len() { MODES[mode] } else if mode == MODES.len() { "corpus" } else { "std-file" };
                            // cheap pre-signature to avoid shrinking thousands of duplicates
                            if out.len() < 60 {
                                let v = report(&t, level, doc, &kind, &detail, name);
                                let s = v["signature"].as_str().unwrap().to_string();
                                if sigs.insert(s) {
                                    out.push(v);
                                }
                            }
                        }
                    }
                }
                let nontrivial = t.chars().any(|c| !c.is_whitespace());
                if nontrivial {
                    use std::hash::{Hash, Hasher};
                    let mut h = std::collections::hash_map::DefaultHasher::new();
                    t.hash(&mut h);
                    distinct.insert(h.finish());
                }
                if guarded(|| LuaParser::parse(&t, config(7, true)).get_errors().is_empty()).map(|b| !b).unwrap_or(false) {
                    with_err += 1;
                }
            }
            for v in &out {
                println!("{}", v);
            }
            let mut dist = serde_json::Map::new();
            for (i, m) in MODES.iter().enumerate() {
                dist.insert(m.to_string(), json!(per_mode[i]));
            }
            dist.insert("corpus".into(), json!(per_mode[MODES.len()]));
            dist.insert("std-file".into(), json!(per_mode[MODES.len() + 1]));
            println!(
                "{}",
                json!({"summary": {"cases": count, "parses": parses, "distinct_nontrivial": distinct.len(), "texts_with_syntax_errors": with_err,
                       "mean_bytes": if count > 0 { bytes_total / count } else { 0 }, "modes": dist, "configs": "8 levels x doc on/off"}})
            );
        }
        "corr" => {
            // real traces: corpus first, then generated texts (small, so that the Coq evaluation stays cheap)
            let stds = std_files();
            let mut texts: Vec<String> = corpus_texts();
            for _ in 0..n {
                texts.push(gen_text(&mut rng, &stds, maxlen).1);
            }
            for (i, t) in texts.iter().enumerate() {
                let level = if i % 3 == 0 { 7 } else { rng.below(8) };
                let doc = i % 4 != 1;
                if let Some(v) = observe(t, level, doc) {
                    println!("{}", v);
                }
            }
        }
        "events" => {
            for _ in 0..n {
                let (t, evs) = gen_events(&mut rng);
                println!("{}", observe_events(&t, &evs));
            }
        }
        "trace" => {
            let t: String = serde_json::from_str(&args.str("text-json", "\"\"")).unwrap();
            if let Some(v) = observe(&t, args.usize("level", 7), args.usize("doc", 1) == 1) {
                println!("{}", v);
            }
        }
        "one" => {
            let t: String = serde_json::from_str(&args.str("text-json", "\"\"")).unwrap();
            let levels: Vec<usize> = if args.flag("level") { vec![args.usize("level", 7)] } else { (0..8).collect() };
            let docs: Vec<bool> = if args.flag("doc") { vec![args.usize("doc", 1) == 1] } else { vec![true, false] };
            for &level in &levels {
                for &doc in &docs {
                    if let Err((kind, detail)) = oracle(&t, level, doc) {
                        println!("{}", report(&t, level, doc, &kind, &detail, "replay"));
                    }
                }
            }
        }
        _ => {
            eprintln!("usage: c01 search|corr|one");
            std::process::exit(2);
        }
    }
}

fn pk(rng: &mut Rng, xs: &[&'static str]) -> &'static str {
    xs[rng.below(xs.len())]
}
