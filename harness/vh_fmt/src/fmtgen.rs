//! Shared by the C05 / C06 / C07 harness bins: formatter configurations, Lua program generator,
//! mutators of real files, token canonicalisation for the "same code" oracle.
use emmylua_formatter::LuaFormatConfig;
use emmylua_parser::{
    LuaAstToken, LuaKind, LuaLanguageLevel, LuaParser, LuaStringToken, LuaSyntaxKind, LuaSyntaxNode, LuaSyntaxToken,
    LuaSyntaxTree, LuaTokenKind, ParserConfig,
};
use serde_json::{Value, json};
use vh_common::Rng;

pub const LEVEL: LuaLanguageLevel = LuaLanguageLevel::Lua55;

pub fn repo_dir() -> String {
    std::env::var("VERIF_REPO").unwrap_or_else(|_| "/repo".to_string())
}

pub fn parse(text: &str) -> LuaSyntaxTree {
    LuaParser::parse(text, ParserConfig::with_level(LEVEL))
}

// ------------------------------------------------------------------------------------------ configs

pub fn cfg_from_json(v: &Value) -> LuaFormatConfig {
    serde_json::from_value(v.clone()).unwrap_or_default()
}

fn pick_s(rng: &mut Rng, xs: &[&str]) -> Value {
    json!(xs[rng.below(xs.len())])
}

/// a generated configuration as JSON (serde of LuaFormatConfig, every section `#[serde(default)]`)
pub fn gen_cfg(rng: &mut Rng) -> Value {
    match rng.below(10) {
        0..=2 => json!({}),
        3 => json!({"layout": {"max_line_width": *rng.pick(&[40usize, 60, 80, 100])}}),
        _ => {
            let b = |rng: &mut Rng| json!(rng.chance(1, 2));
            json!({
                "indent": {"kind": pick_s(rng, &["Space", "Space", "Tab"]), "width": *rng.pick(&[2usize, 2, 3, 4, 4, 8])},
                "layout": {
                    "max_line_width": *rng.pick(&[40usize, 60, 80, 100, 120, 120, 160]),
                    "max_blank_lines": rng.below(4),
                    "table_expand": pick_s(rng, &["Never", "Always", "Auto", "Auto"]),
                    "call_args_expand": pick_s(rng, &["Never", "Always", "Auto", "Auto"]),
                    "func_params_expand": pick_s(rng, &["Never", "Always", "Auto", "Auto"]),
                    "prefer_call_args_layout_from_source": b(rng),
                    "prefer_table_layout_from_source": b(rng),
                    "prefer_chain_break_on_statement_tail": b(rng),
                    "prefer_binary_chain_operand_per_line": b(rng),
                },
                "output": {
                    "insert_final_newline": b(rng),
                    "preserve_statement_semicolon": b(rng),
                    "trailing_comma": pick_s(rng, &["Never", "Multiline", "Always"]),
                    "trailing_table_separator": pick_s(rng, &["Inherit", "Never", "Multiline", "Always"]),
                    "quote_style": pick_s(rng, &["Preserve", "Preserve", "Double", "Single"]),
                    "single_arg_call_parens": pick_s(rng, &["Preserve", "Preserve", "Always", "Omit"]),
                    "simple_lambda_single_line": pick_s(rng, &["Preserve", "Always", "Never"]),
                    "end_of_line": pick_s(rng, &["LF", "LF", "LF", "CRLF"]),
                },
                "spacing": {
                    "space_before_call_paren": b(rng), "space_before_func_paren": b(rng),
                    "space_before_lambda_func_paren": b(rng), "space_inside_braces": b(rng),
                    "space_inside_parens": b(rng), "space_inside_brackets": b(rng),
                    "space_around_math_operator": b(rng), "space_around_concat_operator": b(rng),
                    "space_around_assign_operator": b(rng),
                },
                "comments": {
                    "align_line_comments": b(rng), "align_in_statements": b(rng), "align_in_table_fields": b(rng),
                    "align_in_call_args": b(rng), "align_in_params": b(rng), "align_across_standalone_comments": b(rng),
                    "align_same_kind_only": b(rng), "space_after_comment_dash": b(rng),
                    "line_comment_min_spaces_before": rng.below(4),
                    "line_comment_min_column": *rng.pick(&[0usize, 0, 0, 20, 40]),
                },
                "emmy_doc": {
                    "align_tag_columns": b(rng), "align_declaration_tags": b(rng), "align_reference_tags": b(rng),
                    "align_multiline_alias_descriptions": b(rng), "space_between_tag_columns": b(rng),
                    "space_after_description_dash": b(rng), "compact_type_or": b(rng),
                },
                "align": {"continuous_assign_statement": b(rng), "table_field": b(rng)},
            })
        }
    }
}

/// the options of `cfg` (nested JSON, sections of `#[serde(default)]` structs) whose value differs from the default
/// configuration, as ("section.key", value), sorted
pub fn nondefault_opts(cfg: &Value) -> Vec<(String, Value)> {
    let dflt = serde_json::to_value(LuaFormatConfig::default()).unwrap_or(json!({}));
    let mut out = Vec::new();
    if let Some(secs) = cfg.as_object() {
        for (sec, vals) in secs {
            if let Some(kv) = vals.as_object() {
                for (k, v) in kv {
                    if dflt.get(sec).and_then(|d| d.get(k)) != Some(v) {
                        out.push((format!("{sec}.{k}"), v.clone()));
                    }
                }
            }
        }
    }
    out.sort_by(|a, b| a.0.cmp(&b.0));
    out
}

/// the configuration that is the default one except for `opts`
pub fn cfg_of_opts(opts: &[(String, Value)]) -> Value {
    let mut root = serde_json::Map::new();
    for (name, v) in opts {
        let (sec, key) = name.split_once('.').unwrap_or((name.as_str(), ""));
        let e = root.entry(sec.to_string()).or_insert_with(|| json!({}));
        if let Some(m) = e.as_object_mut() {
            m.insert(key.to_string(), v.clone());
        }
    }
    Value::Object(root)
}

/// "cfg[a.b<4,c.d=Omit]" or "default": enumerations and booleans by value, numbers by their side of the default value
pub fn opts_label(opts: &[(String, Value)]) -> String {
    if opts.is_empty() {
        return "default".to_string();
    }
    let dflt = serde_json::to_value(LuaFormatConfig::default()).unwrap_or(json!({}));
    let parts: Vec<String> = opts
        .iter()
        .map(|(k, v)| {
            let (sec, key) = k.split_once('.').unwrap_or((k.as_str(), ""));
            let d = dflt.get(sec).and_then(|x| x.get(key));
            match (v.as_u64(), d.and_then(|x| x.as_u64())) {
                (Some(n), Some(dn)) => format!("{}{}{}", k, if n < dn { "<" } else { ">" }, dn),
                _ => format!("{}={}", k, match v { Value::String(s) => s.clone(), other => other.to_string() }),
            }
        })
        .collect();
    format!("cfg[{}]", parts.join(","))
}

/// delta debugging: drop pieces while `still` holds; `budget` bounds the number of tests
pub fn ddmin<T: Clone>(mut pieces: Vec<T>, still: &dyn Fn(&[T]) -> bool, budget: &mut usize, allow_empty: bool) -> Vec<T> {
    let mut chunk = (pieces.len() / 2).max(1);
    loop {
        let mut i = 0;
        let mut progressed = false;
        while i < pieces.len() && *budget > 0 {
            let end = (i + chunk).min(pieces.len());
            let mut cand = pieces.clone();
            cand.drain(i..end);
            *budget -= 1;
            if (allow_empty || !cand.is_empty()) && still(&cand) {
                pieces = cand;
                progressed = true;
            } else {
                i += chunk;
            }
        }
        if *budget == 0 || pieces.is_empty() || (chunk == 1 && !progressed) {
            break;
        }
        if !progressed {
            chunk = (chunk / 2).max(1);
        }
    }
    pieces
}

/// The cause of a violation as far as it can be determined mechanically: the minimal set of non-default options under
/// which `class_of(configuration)` still yields a violation of class `class` on this input (`class_of` returns the
/// (class, construct) pairs of the violations).  Signature: "cfg[opt=value,...]:class" or, when the default configuration
/// reproduces it, "default:class:construct".
pub fn narrow_signature(cfg: &Value, class: &str, class_of: &dyn Fn(&Value) -> Vec<(String, String)>) -> (Value, String) {
    let opts = nondefault_opts(cfg);
    let has = |c: &Value| -> Option<String> { class_of(c).into_iter().find(|(k, _)| k == class).map(|(_, cons)| cons) };
    if let Some(cons) = has(&json!({})) {
        return (json!({}), format!("default:{}{}{}", class, if cons.is_empty() { "" } else { ":" }, cons));
    }
    let still = |sub: &[(String, Value)]| -> bool { has(&cfg_of_opts(sub)).is_some() };
    let mut budget = 160usize;
    let min = ddmin(opts, &still, &mut budget, false);
    (cfg_of_opts(&min), format!("{}:{}", opts_label(&min), class))
}

/// "Token<Parent<Grandparent<..." -> "Parent<Grandparent": the construct a position lies in
pub fn construct_of(chain: &str) -> String {
    let parts: Vec<&str> = chain.split('<').collect();
    if parts.len() <= 1 {
        return chain.to_string();
    }
    parts[1..parts.len().min(3)].join("<")
}

/// token kind < parent kinds at the k-th non-blank character of a text (used for comments)
pub fn nonblank_context(raw: &str, k: usize) -> String {
    let mut seen = 0usize;
    let mut off = raw.len();
    for (i, c) in raw.char_indices() {
        if !is_blank(c) {
            if seen == k {
                off = i;
                break;
            }
            seen += 1;
        }
    }
    let t = parse(raw);
    context_at(&t, off)
}

/// the part of a configuration the printer reads (Printer::new)
pub fn printer_cfg(cfg: &LuaFormatConfig) -> Value {
    json!({
        "w": cfg.layout.max_line_width,
        "tab": cfg.indent_str() == "\t",
        "iw": cfg.indent_width(),
        "crlf": cfg.newline_str() == "\r\n",
        "ms": cfg.comments.line_comment_min_spaces_before.max(1),
        "mc": cfg.comments.line_comment_min_column,
    })
}

// ------------------------------------------------------------------------------------------ real files

pub fn std_files() -> Vec<(String, String)> {
    let root = format!("{}/crates/emmylua_code_analysis/resources/std", repo_dir());
    let mut out = Vec::new();
    let mut stack = vec![std::path::PathBuf::from(root)];
    while let Some(d) = stack.pop() {
        let Ok(rd) = std::fs::read_dir(&d) else { continue };
        for e in rd.flatten() {
            let p = e.path();
            if p.is_dir() {
                stack.push(p);
            } else if p.extension().is_some_and(|x| x == "lua") {
                if let Ok(t) = std::fs::read_to_string(&p) {
                    out.push((p.to_string_lossy().to_string(), t));
                }
            }
        }
    }
    out.sort();
    out
}

pub fn corpus_files(prop: &str) -> Vec<(String, String)> {
    let dir = format!("{}/corpus/{}", std::env::var("VERIF_DIR").unwrap_or_else(|_| "/verif".into()), prop);
    let mut out = Vec::new();
    if let Ok(rd) = std::fs::read_dir(&dir) {
        for e in rd.flatten() {
            let p = e.path();
            if p.extension().is_some_and(|x| x == "lua") {
                if let Ok(t) = std::fs::read_to_string(&p) {
                    out.push((p.to_string_lossy().to_string(), t));
                }
            }
        }
    }
    out.sort();
    out
}

/// corpus cases with their own configuration (and selection): corpus/<prop>/*.json = {"text":..,"cfg":{..},"sel":[a,b]?,"signature":..}
pub fn corpus_json(prop: &str) -> Vec<(String, Value)> {
    let dir = format!("{}/corpus/{}", std::env::var("VERIF_DIR").unwrap_or_else(|_| "/verif".into()), prop);
    let mut out = Vec::new();
    if let Ok(rd) = std::fs::read_dir(&dir) {
        for e in rd.flatten() {
            let p = e.path();
            if p.extension().is_some_and(|x| x == "json") {
                if let Ok(t) = std::fs::read_to_string(&p) {
                    if let Ok(v) = serde_json::from_str::<Value>(&t) {
                        out.push((p.to_string_lossy().to_string(), v));
                    }
                }
            }
        }
    }
    out.sort_by(|a, b| a.0.cmp(&b.0));
    out
}

// ------------------------------------------------------------------------------------------ program generator

pub struct Gen<'a> {
    pub rng: &'a mut Rng,
    pub messy: usize, // 0 = tidy one-space style, larger = more irregular whitespace
    pub depth: usize,
    pub vararg: bool,
    pub in_loop: bool,
    pub comments: bool,
}

const NAMES: &[&str] = &[
    "a", "b", "x", "y", "i", "k", "v", "t", "self", "foo", "bar", "value", "result", "config", "handler", "index",
    "very_long_identifier_name", "another_quite_long_name", "M", "obj", "cb", "data", "n", "s",
];
const FIELDS: &[&str] = &["x", "y", "name", "value", "items", "count", "next", "on_event", "id", "kind"];
const TYPES: &[&str] = &["string", "integer", "number", "boolean", "table", "any", "nil", "Foo", "Bar.Baz", "T"];
const WORDS: &[&str] = &["the", "value", "of", "this", "thing", "is", "returned", "when", "called", "with", "x", "TODO", "note:", "a|b"];

impl<'a> Gen<'a> {
    pub fn new(rng: &'a mut Rng, messy: usize) -> Self {
        Gen { rng, messy, depth: 0, vararg: true, in_loop: false, comments: true }
    }
    fn ch(&mut self, n: usize, d: usize) -> bool {
        self.rng.chance(n, d)
    }
    fn name(&mut self) -> String {
        self.rng.pick(NAMES).to_string()
    }
    /// mandatory separation between two word-like tokens
    fn sp(&mut self) -> String {
        if self.messy > 0 && self.ch(self.messy, 12) {
            self.rng.pick(&["  ", "   ", "\t", " \t "]).to_string()
        } else {
            " ".to_string()
        }
    }
    /// optional whitespace around punctuation
    fn op(&mut self) -> String {
        if self.messy == 0 {
            return " ".to_string();
        }
        match self.rng.below(8) {
            0 | 1 => String::new(),
            2 => "  ".to_string(),
            _ => " ".to_string(),
        }
    }
    /// after `,` / `(` / `{`
    fn cs(&mut self, ind: usize) -> String {
        if self.messy > 1 && self.ch(1, 6) {
            format!("\n{}", " ".repeat(ind + 2))
        } else if self.messy > 0 && self.ch(1, 4) {
            String::new()
        } else {
            " ".to_string()
        }
    }
    fn words(&mut self, n: usize) -> String {
        let k = 1 + self.rng.below(n);
        (0..k).map(|_| self.rng.pick(WORDS).to_string()).collect::<Vec<_>>().join(" ")
    }

    pub fn string_lit(&mut self) -> String {
        let bodies = [
            "", "hello", "a b", "it's", "say \\\"hi\\\"", "tab\\there", "line\\nbreak", "\\65\\066", "\\x41", "\\u{48}",
            "back\\\\slash", "  padded  ", "héllo", "日本", "quote'inside", "dq\\\"x", "-- not a comment", "a\\z\n   b",
        ];
        let b = self.rng.pick(&bodies).to_string();
        match self.rng.below(10) {
            0..=3 => {
                if b.contains('"') && !b.contains("\\\"") { format!("'{}'", b.replace('\'', "\\'")) } else { format!("\"{}\"", b) }
            }
            4..=6 => {
                let inner = b.replace("\\\"", "\"");
                let inner = inner.replace('\'', "\\'");
                format!("'{}'", inner)
            }
            7 => "[[long string]]".to_string(),
            8 => "[[first line\n    indented continuation\n\tTabbed\n  ]]".to_string(),
            _ => "[==[ with ]] inside\n  and -- dashes ]==]".to_string(),
        }
    }

    fn number(&mut self) -> String {
        self.rng.pick(&["0", "1", "2", "42", "100", "3.14", "0x1F", "1e10", "0xA.8p1", ".5", "5.", "1000000", "0xff"]).to_string()
    }

    pub fn doc_type(&mut self, d: usize) -> String {
        if d > 2 {
            return self.rng.pick(TYPES).to_string();
        }
        match self.rng.below(16) {
            0..=4 => self.rng.pick(TYPES).to_string(),
            5 => format!("{}?", self.rng.pick(TYPES)),
            6 => format!("{}[]", self.rng.pick(TYPES)),
            7 => {
                let a = self.doc_type(d + 1);
                let b = self.doc_type(d + 1);
                if self.ch(1, 2) { format!("{} | {}", a, b) } else { format!("{}|{}", a, b) }
            }
            8 => {
                let a = self.doc_type(d + 1);
                let r = self.doc_type(d + 1);
                format!("fun({}: {}): {}", self.name(), a, r)
            }
            9 => {
                let r = self.doc_type(d + 1);
                let o = self.doc_type(d + 2);
                format!("(fun(...: any): {}) | {}", r, o)
            }
            10 => {
                let k = self.doc_type(d + 1);
                let v = self.doc_type(d + 1);
                format!("table<{}, {}>", k, v)
            }
            11 => {
                let a = self.doc_type(d + 1);
                format!("{{ {}: {}, {}: string }}", self.rng.pick(FIELDS), a, self.rng.pick(FIELDS))
            }
            12 => format!("[{}, {}]", self.rng.pick(TYPES), self.rng.pick(TYPES)),
            13 => "\"lit\" | 'other'".to_string(),
            14 => {
                let a = self.doc_type(d + 1);
                format!("({})[]", a)
            }
            _ => format!("Language<\"{}\">", self.rng.pick(&["Lua", "JSON"])),
        }
    }

    /// a block of comment lines placed before a statement
    pub fn leading_comment(&mut self, ind: &str) -> String {
        let mut s = String::new();
        let dash_sp = |g: &mut Gen| if g.ch(1, 4) { "" } else { " " }.to_string();
        match self.rng.below(14) {
            0 | 1 => {
                let d = dash_sp(self);
                s += &format!("{ind}--{d}{}\n", self.words(6));
            }
            2 => {
                let d = dash_sp(self);
                s += &format!("{ind}---{d}{}\n", self.words(6));
                if self.ch(1, 2) {
                    s += &format!("{ind}---{d}{}\n", self.words(4));
                }
            }
            3 | 4 | 5 => {
                // function-style doc block
                let at = if self.ch(1, 5) { "--- @" } else { "---@" };
                if self.ch(1, 2) {
                    s += &format!("{ind}--- {}\n", self.words(5));
                }
                let n = 1 + self.rng.below(3);
                for _ in 0..n {
                    let t = self.doc_type(0);
                    let nm = self.name();
                    let opt = if self.ch(1, 5) { "?" } else { "" };
                    let desc = if self.ch(1, 2) { format!(" {}", self.words(4)) } else { String::new() };
                    let gap = if self.ch(1, 6) { "   " } else { " " };
                    s += &format!("{ind}{at}param {nm}{opt}{gap}{t}{desc}\n");
                }
                if self.ch(1, 2) {
                    let t = self.doc_type(0);
                    let desc = if self.ch(1, 2) { format!(" # {}", self.words(3)) } else { String::new() };
                    s += &format!("{ind}{at}return {t}{desc}\n");
                    if self.ch(1, 3) {
                        let t2 = self.doc_type(1);
                        s += &format!("{ind}{at}return {t2} {}\n", self.name());
                    }
                }
            }
            6 | 7 => {
                let at = if self.ch(1, 6) { "--- @" } else { "---@" };
                let sup = if self.ch(1, 3) { format!(": {}", self.rng.pick(TYPES)) } else { String::new() };
                s += &format!("{ind}{at}class {}{sup}\n", self.rng.pick(&["Foo", "Bar.Baz", "My_Class"]));
                let n = self.rng.below(4);
                for _ in 0..n {
                    let t = self.doc_type(0);
                    let vis = if self.ch(1, 4) { *self.rng.pick(&["public ", "private ", "protected "]) } else { "" };
                    let key = match self.rng.below(6) {
                        0 => "[1]".to_string(),
                        1 => "[\"k\"]".to_string(),
                        2 => "[string]".to_string(),
                        _ => format!("{}{}", self.rng.pick(FIELDS), if self.ch(1, 5) { "?" } else { "" }),
                    };
                    let desc = if self.ch(1, 2) { format!(" {}", self.words(4)) } else { String::new() };
                    s += &format!("{ind}{at}field {vis}{key} {t}{desc}\n");
                }
            }
            8 => {
                s += &format!("{ind}---@alias {}\n", self.rng.pick(&["Mode", "Kind"]));
                let n = 1 + self.rng.below(3);
                for i in 0..n {
                    let desc = if self.ch(2, 3) { format!(" # {}", self.words(3)) } else { String::new() };
                    let bar = if self.ch(1, 4) { "--- |" } else { "---|" };
                    s += &format!("{ind}{bar} \"{}{}\"{desc}\n", self.rng.pick(&["r", "w", "rw+", "append"]), i);
                }
            }
            9 => {
                let t = self.doc_type(0);
                s += &format!("{ind}---@type {t}\n");
            }
            10 => {
                // description with a markdown code fence
                s += &format!("{ind}--- {}\n{ind}--- ```lua\n", self.words(4));
                let n = 1 + self.rng.below(3);
                for _ in 0..n {
                    let pad = self.rng.pick(&["", " ", "  ", "    ", "\t"]).to_string();
                    s += &format!("{ind}--- {pad}local {} = {}\n", self.name(), self.number());
                }
                s += &format!("{ind}--- ```\n");
                if self.ch(1, 2) {
                    let t = self.doc_type(0);
                    s += &format!("{ind}---@param {} {t}\n", self.name());
                    let t2 = self.doc_type(0);
                    s += &format!("{ind}---@param {} {t2} {}\n", self.name(), self.words(3));
                }
            }
            11 => {
                s += &format!("{ind}--[[ {}\n{ind}   {} ]]\n", self.words(4), self.words(4));
            }
            12 => {
                s += &format!("{ind}---@generic T, K\n");
                s += &format!("{ind}---@overload fun(a: T): K\n");
                if self.ch(1, 2) {
                    s += &format!("{ind}---@param a T\n{ind}---@param b K {}\n", self.words(2));
                }
            }
            _ => {
                s += &format!("{ind}--[==[ block {} ]==]\n", self.words(3));
            }
        }
        s
    }

    fn trailing_comment(&mut self) -> String {
        if self.comments && self.ch(1, 7) {
            let gap = self.rng.pick(&[" ", "  ", "    ", "\t"]).to_string();
            let d = if self.ch(1, 4) { "" } else { " " };
            format!("{gap}--{d}{}", self.words(4))
        } else {
            String::new()
        }
    }

    pub fn expr(&mut self, ind: usize) -> String {
        self.depth += 1;
        let r = if self.depth > 4 { self.simple_expr() } else { self.expr_inner(ind) };
        self.depth -= 1;
        r
    }

    fn simple_expr(&mut self) -> String {
        match self.rng.below(8) {
            0 | 1 => self.name(),
            2 => self.number(),
            3 => self.string_lit(),
            4 => self.rng.pick(&["nil", "true", "false"]).to_string(),
            5 => format!("{}.{}", self.name(), self.rng.pick(FIELDS)),
            6 => if self.vararg { "...".to_string() } else { "nil".to_string() },
            _ => format!("{}[{}]", self.name(), self.number()),
        }
    }

    fn args(&mut self, ind: usize) -> String {
        let n = self.rng.below(4);
        let mut s = String::new();
        for i in 0..n {
            if i > 0 {
                s += ",";
                s += &self.cs(ind);
            }
            s += &self.expr(ind);
        }
        s
    }

    fn table(&mut self, ind: usize) -> String {
        let n = self.rng.below(5);
        if n == 0 {
            return if self.ch(1, 2) { "{}".to_string() } else { "{ }".to_string() };
        }
        let multiline = self.ch(1, 3);
        let sep = if self.ch(1, 6) { ";" } else { "," };
        let mut s = String::from("{");
        let inner = " ".repeat(ind + 4);
        for i in 0..n {
            if multiline {
                s += "\n";
                s += &inner;
            } else if i == 0 {
                s += &self.op();
            }
            let f = match self.rng.below(6) {
                0 | 1 => self.expr(ind + 4),
                2 | 3 => format!("{}{}={}{}", self.rng.pick(FIELDS), self.op(), self.op(), self.expr(ind + 4)),
                4 => format!("[{}]{}={}{}", self.string_lit_short(), self.op(), self.op(), self.expr(ind + 4)),
                _ => format!("[{}]{}={}{}", self.number(), self.op(), self.op(), self.expr(ind + 4)),
            };
            s += &f;
            let last = i + 1 == n;
            if !last || self.ch(1, 3) {
                s += sep;
                if !multiline && !last {
                    s += &self.op();
                }
            }
            if multiline && self.comments && self.ch(1, 5) {
                s += &format!(" -- {}", self.words(3));
            }
        }
        if multiline {
            s += "\n";
            s += &" ".repeat(ind);
        } else {
            s += &self.op();
        }
        s += "}";
        s
    }

    fn string_lit_short(&mut self) -> String {
        self.rng.pick(&["\"k\"", "'k'", "\"a b\"", "\"x-y\""]).to_string()
    }

    /// `return` with 0, 1, 2 or 3 values
    fn ret_list(&mut self, ind: usize) -> String {
        let k = self.rng.below(4);
        if k == 0 {
            return "return".to_string();
        }
        let vals: Vec<String> = (0..k).map(|_| if self.ch(1, 2) { self.simple_expr() } else { self.expr(ind) }).collect();
        format!("return {}", vals.join(", "))
    }

    /// anonymous functions in every shape: one line / several lines; empty body, a statement, a `return` with 0-3
    /// values, statements followed by a `return`
    fn closure(&mut self, ind: usize) -> String {
        let saved = (self.vararg, self.in_loop);
        let va = self.ch(1, 4);
        self.vararg = va;
        self.in_loop = false;
        let mut params: Vec<String> = (0..self.rng.below(4)).map(|_| self.name()).collect();
        if va {
            params.push("...".to_string());
        }
        let body = match self.rng.below(8) {
            // one line
            0 => " ".to_string(),
            1 | 2 | 3 => {
                let r = self.ret_list(ind + 4);
                format!("{}{}{}", self.sp(), r, self.sp())
            }
            4 => format!(" {}({}) ", self.name(), self.args(ind + 4)),
            // several lines
            5 => {
                let r = self.ret_list(ind + 4);
                format!("\n{}{}\n{}", " ".repeat(ind + 4), r, " ".repeat(ind))
            }
            6 => format!("\n{}", " ".repeat(ind)),
            _ => {
                let nb_ = 1 + self.rng.below(2);
                let b = self.block(ind + 4, nb_);
                format!("\n{}{}", b, " ".repeat(ind))
            }
        };
        (self.vararg, self.in_loop) = saved;
        format!("function{}({}){}end", if self.messy > 0 && self.ch(1, 4) { " " } else { "" }, params.join(", "), body)
    }

    fn expr_inner(&mut self, ind: usize) -> String {
        match self.rng.below(23) {
            0..=5 => self.simple_expr(),
            6 | 7 | 8 => {
                let ops = ["+", "-", "*", "/", "//", "%", "^", "..", "==", "~=", "<", "<=", ">", ">=", "and", "or", "&", "|", "~", "<<", ">>"];
                let n = 1 + self.rng.below(4);
                let same = self.ch(1, 2);
                let op0 = self.rng.pick(&ops).to_string();
                let mut s = self.expr(ind);
                for _ in 0..n {
                    let op = if same { op0.clone() } else { self.rng.pick(&ops).to_string() };
                    let word = op.chars().all(|c| c.is_alphabetic());
                    let (l, r) = if word || op == ".." || op == "-" || op == "~" { (self.sp(), self.sp()) } else { (self.op(), self.op()) };
                    s = format!("{}{}{}{}{}", s, l, op, r, self.expr(ind));
                }
                s
            }
            9 => format!("({})", self.expr(ind)),
            10 => {
                let e = self.expr(ind);
                match self.rng.below(4) {
                    0 => format!("not {}", e),
                    1 => format!("- {}", e),
                    2 => format!("#{}", self.name()),
                    _ => format!("~ {}", self.name()),
                }
            }
            11 | 12 | 13 => {
                let f = match self.rng.below(4) {
                    0 => self.name(),
                    1 => format!("{}.{}", self.name(), self.rng.pick(FIELDS)),
                    2 => format!("{}:{}", self.name(), self.rng.pick(FIELDS)),
                    _ => format!("{}.{}.{}", self.name(), self.rng.pick(FIELDS), self.rng.pick(FIELDS)),
                };
                let sp = if self.messy > 0 && self.ch(1, 8) { " " } else { "" };
                format!("{}{}({})", f, sp, self.args(ind))
            }
            14 => {
                // single string / table argument without or with parentheses
                let f = self.name();
                match self.rng.below(4) {
                    0 => format!("{} {}", f, self.string_lit()),
                    1 => format!("{}{}", f, self.table(ind)),
                    2 => format!("{}({})", f, self.string_lit()),
                    _ => format!("{}({})", f, self.table(ind)),
                }
            }
            15 => {
                // method chain
                let mut s = self.name();
                let n = 2 + self.rng.below(4);
                for _ in 0..n {
                    if self.messy > 1 && self.ch(1, 5) {
                        s += &format!("\n{}", " ".repeat(ind + 4));
                    }
                    s += &format!(":{}({})", self.rng.pick(FIELDS), self.args(ind));
                }
                s
            }
            16 | 17 | 18 => self.table(ind),
            19 | 20 | 21 => self.closure(ind),
            _ => self.string_lit(),
        }
    }

    fn lvalue(&mut self) -> String {
        match self.rng.below(7) {
            0 | 1 => self.name(),
            2 => format!("{}.{}", self.name(), self.rng.pick(FIELDS)),
            3 => format!("{}.{}.{}", self.name(), self.rng.pick(FIELDS), self.rng.pick(FIELDS)),
            4 => format!("{}[{}][{}]", self.name(), self.simple_expr(), self.number()),
            5 => format!("({}).{}", self.name(), self.rng.pick(FIELDS)),
            _ => format!("{}[{}]", self.name(), self.simple_expr()),
        }
    }

    pub fn stat(&mut self, ind: usize) -> String {
        let pad = " ".repeat(ind);
        let semi = |g: &mut Gen| if g.ch(1, 8) { ";" } else { "" }.to_string();
        let mut s = String::new();
        if self.comments && self.ch(1, 4) {
            let p = if self.messy > 1 && self.ch(1, 5) { format!("{pad}  ") } else { pad.clone() };
            s += &self.leading_comment(&p);
        }
        if self.messy > 0 && self.ch(1, 8) {
            s += &"\n".repeat(1 + self.rng.below(3));
        }
        let lead = if self.messy > 1 && self.ch(1, 6) { " ".repeat(self.rng.below(9)) } else { pad.clone() };
        s += &lead;
        let deep = self.depth >= 2;
        self.depth += 1;
        let k = if deep { self.rng.below(8) } else { self.rng.below(20) };
        match k {
            0 | 1 | 2 => {
                let n = 1 + self.rng.below(3);
                let names: Vec<String> = (0..n).map(|_| self.name()).collect();
                let attr = if n == 1 && self.ch(1, 10) { *self.rng.pick(&[" <const>", " <close>"]) } else { "" };
                if self.ch(1, 6) {
                    s += &format!("local{}{}{}", self.sp(), names.join(", "), semi(self));
                } else {
                    let nv = if self.ch(1, 4) { 1 + self.rng.below(3) } else { n };
                    let vals: Vec<String> = (0..nv).map(|_| self.expr(ind)).collect();
                    s += &format!("local{}{}{}{}={}{}{}", self.sp(), names.join(", "), attr, self.op(), self.op(), vals.join(", "), semi(self));
                }
            }
            3 | 4 => {
                let n = 1 + self.rng.below(3);
                let l: Vec<String> = (0..n).map(|_| self.lvalue()).collect();
                let v: Vec<String> = (0..n).map(|_| self.expr(ind)).collect();
                s += &format!("{}{}={}{}{}", l.join(", "), self.op(), self.op(), v.join(", "), semi(self));
            }
            5 | 6 | 7 => {
                let f = match self.rng.below(4) {
                    0 => self.name(),
                    1 => format!("{}.{}", self.name(), self.rng.pick(FIELDS)),
                    2 => format!("{}:{}", self.name(), self.rng.pick(FIELDS)),
                    _ => format!("({})", self.name()),
                };
                match self.rng.below(8) {
                    0 => s += &format!("{} {}{}", f, self.string_lit(), semi(self)),
                    1 => s += &format!("{}{}{}", f, self.table(ind), semi(self)),
                    _ => s += &format!("{}({}){}", f, self.args(ind), semi(self)),
                }
            }
            8 | 9 => {
                let c = self.expr(ind);
                let nb_ = 1 + self.rng.below(2);
                let b = self.block(ind + 4, nb_);
                s += &format!("if{}{}{}then\n{}", self.sp(), c, self.sp(), b);
                if self.ch(1, 3) {
                    let c2 = self.expr(ind);
                    let b2 = self.block(ind + 4, 1);
                    s += &format!("{pad}elseif {} then\n{}", c2, b2);
                }
                if self.ch(1, 3) {
                    let b3 = self.block(ind + 4, 1);
                    s += &format!("{pad}else\n{}", b3);
                }
                s += &format!("{pad}end");
            }
            10 => {
                let saved = self.in_loop;
                self.in_loop = true;
                let nb_ = 1 + self.rng.below(2);
                let b = self.block(ind + 4, nb_);
                self.in_loop = saved;
                let step = if self.ch(1, 3) { format!(", {}", self.number()) } else { String::new() };
                s += &format!("for i{}={}{}, {}{} do\n{}{pad}end", self.op(), self.op(), self.number(), self.expr(ind), step, b);
            }
            11 => {
                let saved = self.in_loop;
                self.in_loop = true;
                let nb_ = 1 + self.rng.below(2);
                let b = self.block(ind + 4, nb_);
                self.in_loop = saved;
                let names = *self.rng.pick(&["k", "k, v", "k, v, w"]);
                let iter = match self.rng.below(3) {
                    0 => format!("pairs({})", self.name()),
                    1 => format!("next, {}", self.name()),
                    _ => format!("{}({}), {}, nil", self.name(), self.name(), self.name()),
                };
                s += &format!("for {} in {} do\n{}{pad}end", names, iter, b);
            }
            12 => {
                let saved = self.in_loop;
                self.in_loop = true;
                let c = self.expr(ind);
                let b = self.block(ind + 4, 1);
                self.in_loop = saved;
                if self.ch(1, 2) {
                    s += &format!("while {} do\n{}{pad}end", c, b);
                } else {
                    s += &format!("repeat\n{}{pad}until {}", b, c);
                }
            }
            13 | 14 | 15 => {
                let saved = (self.vararg, self.in_loop);
                let va = self.ch(1, 4);
                self.vararg = va;
                self.in_loop = false;
                let mut params: Vec<String> = (0..self.rng.below(4)).map(|_| self.name()).collect();
                if va {
                    params.push("...".to_string());
                }
                let nb_ = self.rng.below(3);
                let b = self.block(ind + 4, nb_);
                (self.vararg, self.in_loop) = saved;
                let head = match self.rng.below(4) {
                    0 => format!("local function {}", self.name()),
                    1 => format!("function {}", self.name()),
                    2 => format!("function {}.{}", self.name(), self.rng.pick(FIELDS)),
                    _ => format!("function {}:{}", self.name(), self.rng.pick(FIELDS)),
                };
                let sp = if self.messy > 0 && self.ch(1, 6) { " " } else { "" };
                if b.trim().is_empty() && self.ch(1, 2) {
                    s += &format!("{}{}({}) end", head, sp, params.join(", "));
                } else {
                    s += &format!("{}{}({})\n{}{pad}end", head, sp, params.join(","), b);
                }
            }
            16 => {
                let nb_ = 1 + self.rng.below(2);
                let b = self.block(ind + 4, nb_);
                s += &format!("do\n{}{pad}end", b);
            }
            17 => {
                s += &format!("goto {}", "continue");
                s += &format!("\n{pad}::continue::");
            }
            18 => {
                s += ";";
            }
            _ => {
                if self.in_loop {
                    // `break` must be followed by nothing problematic; wrap in do-end
                    s += "do break end";
                } else {
                    s += &format!("{}({})", self.name(), self.args(ind));
                }
            }
        }
        self.depth -= 1;
        s += &self.trailing_comment();
        s
    }

    pub fn block(&mut self, ind: usize, n: usize) -> String {
        let mut s = String::new();
        for _ in 0..n {
            s += &self.stat(ind);
            s += "\n";
        }
        if self.ch(1, 4) {
            let pad = " ".repeat(ind);
            let r = self.ret_list(ind);
            s += &format!("{pad}{}\n", r);
        }
        s
    }

    pub fn program(&mut self, nstat: usize) -> String {
        let mut s = String::new();
        if self.ch(1, 30) {
            s += "#!/usr/bin/lua\n";
        }
        s += &self.block(0, nstat);
        if self.ch(1, 6) {
            while s.ends_with('\n') {
                s.pop();
            }
        }
        if self.messy > 1 && self.ch(1, 8) {
            s = s.replace('\n', "\r\n");
        }
        s
    }
}

/// a short string literal of either quote kind whose body mixes: the other quote (bare or escaped), the own quote
/// (escaped), backslash runs of length 1-4 directly before quotes of either kind, `--` after an escaped quote, and the
/// escapes \z, \x, decimal, \u
pub fn gen_tricky_string(rng: &mut Rng) -> String {
    let own = if rng.chance(1, 2) { '\'' } else { '"' };
    let other = if own == '"' { '\'' } else { '"' };
    let mut body = String::new();
    let k = 1 + rng.below(5);
    for _ in 0..k {
        match rng.below(12) {
            0 => body.push_str(*rng.pick(&["a", "b c", "x", " ", "path", "C:"])),
            1 => body.push(other),
            2 | 3 | 4 => {
                // backslash run before the other quote: any length 1-4
                let r = 1 + rng.below(4);
                body.push_str(&"\\".repeat(r));
                body.push(other);
            }
            5 | 6 => {
                // before the own quote the run must be odd
                let r = *rng.pick(&[1usize, 3]);
                body.push_str(&"\\".repeat(r));
                body.push(own);
            }
            7 => {
                body.push_str(&"\\".repeat(1 + rng.below(4)));
                body.push(other);
                body.push_str(" --");
            }
            8 => body.push_str(*rng.pick(&["\\z  ", "\\x41", "\\65", "\\065", "\\u{48}", "\\n", "\\t"])),
            9 => body.push_str(&"\\\\".repeat(1 + rng.below(2))),
            10 => body.push_str("--"),
            _ => {
                body.push_str("\\");
                body.push(own);
                body.push_str("--\\");
                body.push(other);
            }
        }
    }
    format!("{own}{body}{own}")
}

/// a small program around tricky string literals (an additional input stream with its own PRNG)
pub fn gen_string_program(rng: &mut Rng) -> String {
    let mut s = String::new();
    let n = 1 + rng.below(4);
    for i in 0..n {
        let a = gen_tricky_string(rng);
        let b = gen_tricky_string(rng);
        match rng.below(7) {
            0 => s += &format!("local s{i} = {a}\n"),
            1 => s += &format!("f({a}, {b})\n"),
            2 => s += &format!("t{i} = {{ {a}, k = {b} }}\n"),
            3 => s += &format!("x = {a} .. {b}\n"),
            4 => s += &format!("print {a}\n"),
            5 => s += &format!("local u = t[{a}] -- {}\n", "note"),
            _ => s += &format!("if s == {a} then return {b} end\n"),
        }
    }
    s
}

pub fn gen_program(rng: &mut Rng, maxstat: usize) -> String {
    let messy = rng.below(4);
    let n = 1 + rng.below(maxstat.max(1));
    let mut g = Gen::new(rng, messy);
    g.program(n)
}

// ------------------------------------------------------------------------------------------ mutators

/// a mutated copy of a real file (may or may not be syntactically valid afterwards)
pub fn mutate(rng: &mut Rng, text: &str) -> String {
    let mut lines: Vec<String> = text.split_inclusive('\n').map(|s| s.to_string()).collect();
    if lines.is_empty() {
        return text.to_string();
    }
    // take a window so cases stay small enough to shrink and to format many of them
    if lines.len() > 60 && rng.chance(3, 4) {
        let len = 10 + rng.below(60);
        let start = rng.below(lines.len().saturating_sub(len).max(1));
        lines = lines[start..(start + len).min(lines.len())].to_vec();
    }
    let nmut = 1 + rng.below(4);
    for _ in 0..nmut {
        if lines.is_empty() {
            break;
        }
        let i = rng.below(lines.len());
        match rng.below(16) {
            0 => {
                lines.remove(i);
            }
            1 => {
                let l = lines[i].clone();
                lines.insert(i, l);
            }
            2 => {
                if i + 1 < lines.len() {
                    lines.swap(i, i + 1);
                }
            }
            3 => {
                // join with next line
                if i + 1 < lines.len() {
                    let n = lines.remove(i + 1);
                    let cur = lines[i].trim_end_matches(['\n', '\r']).to_string();
                    lines[i] = format!("{} {}", cur, n.trim_start());
                }
            }
            4 => {
                let cur = lines[i].trim_end_matches(['\n', '\r']).to_string();
                lines[i] = format!("{}   \n", cur);
            }
            5 => {
                lines[i] = format!("{}{}", rng.pick(&["  ", "\t", "      ", " "]), lines[i]);
            }
            6 => {
                lines[i] = lines[i].trim_start().to_string();
                if lines[i].is_empty() {
                    lines[i] = "\n".into();
                }
            }
            7 => {
                lines[i] = lines[i].replace(" = ", "=");
            }
            8 => {
                lines[i] = lines[i].replace("---@", "--- @");
            }
            9 => {
                lines.insert(i, "\n\n\n".to_string());
            }
            10 => {
                let cur = lines[i].trim_end_matches(['\n', '\r']).to_string();
                if !cur.contains("--") {
                    lines[i] = format!("{} -- note\n", cur);
                }
            }
            11 => {
                lines[i] = lines[i].replace('"', "'");
            }
            12 => {
                // parenthesise the type of a @param / @field / @return line
                let l = lines[i].clone();
                for tag in ["@param ", "@field ", "@return "] {
                    if let Some(p) = l.find(tag) {
                        let rest = &l[p + tag.len()..];
                        let mut it = rest.splitn(2, ' ');
                        if tag == "@return " {
                            let body = rest.trim_end();
                            lines[i] = format!("{}{}({}) | nil\n", &l[..p], tag, body);
                        } else if let (Some(name), Some(ty)) = (it.next(), it.next()) {
                            lines[i] = format!("{}{}{} ({}) | nil\n", &l[..p], tag, name, ty.trim_end());
                        }
                        break;
                    }
                }
            }
            13 => {
                lines[i] = lines[i].replace(", ", ",");
            }
            14 => {
                let cur = lines[i].trim_end_matches(['\n', '\r']).to_string();
                lines[i] = format!("{};\n", cur);
            }
            _ => {
                // damage: drop a character (usually makes a syntax error)
                let cs: Vec<char> = lines[i].chars().collect();
                if cs.len() > 1 {
                    let k = rng.below(cs.len() - 1);
                    lines[i] = cs.iter().enumerate().filter(|(j, _)| *j != k).map(|(_, c)| *c).collect();
                }
            }
        }
    }
    let mut s: String = lines.concat();
    if rng.chance(1, 10) {
        s = s.replace("\r\n", "\n").replace('\n', "\r\n");
    }
    s
}

// ------------------------------------------------------------------------------------------ canonical tokens

pub fn is_blank(c: char) -> bool {
    c == ' ' || c == '\t' || c == '\n' || c == '\r'
}

pub fn nonblank(s: &str) -> String {
    s.chars().filter(|c| !is_blank(*c)).collect()
}

fn in_comment(tok: &LuaSyntaxToken) -> Option<LuaSyntaxNode> {
    tok.parent_ancestors().find(|n| n.kind() == LuaKind::Syntax(LuaSyntaxKind::Comment))
}

#[derive(Debug, Clone, PartialEq, Eq)]
pub struct CTok {
    pub kind: String,
    pub text: String,
}

#[derive(Debug, Clone, PartialEq, Eq)]
pub struct CComment {
    pub text_nb: String,
    pub shape: Vec<String>,
    pub raw: String,
}

pub struct Canon {
    pub tokens: Vec<CTok>,
    pub comments: Vec<CComment>,
}

pub struct NormFlags {
    pub drop_semicolons: bool,
    pub string_by_value: bool,
    pub drop_single_arg_parens: bool,
}

impl NormFlags {
    pub fn of(cfg: &LuaFormatConfig) -> Self {
        NormFlags {
            drop_semicolons: !cfg.output.preserve_statement_semicolon,
            string_by_value: !matches!(cfg.output.quote_style, emmylua_formatter::QuoteStyle::Preserve),
            drop_single_arg_parens: !matches!(cfg.output.single_arg_call_parens, emmylua_formatter::SingleArgCallParens::Preserve),
        }
    }
}

fn single_arg_list(node: &LuaSyntaxNode) -> bool {
    if node.kind() != LuaKind::Syntax(LuaSyntaxKind::CallArgList) {
        return false;
    }
    let args: Vec<LuaSyntaxNode> = node.children().filter(|c| c.kind() != LuaKind::Syntax(LuaSyntaxKind::Comment)).collect();
    if args.len() != 1 {
        return false;
    }
    let a = &args[0];
    match a.kind().to_syntax() {
        LuaSyntaxKind::TableArrayExpr | LuaSyntaxKind::TableObjectExpr | LuaSyntaxKind::TableEmptyExpr => true,
        LuaSyntaxKind::LiteralExpr => a
            .first_token()
            .is_some_and(|t| matches!(t.kind().to_token(), LuaTokenKind::TkString | LuaTokenKind::TkLongString)),
        _ => false,
    }
}

fn is_table_kind(k: LuaSyntaxKind) -> bool {
    matches!(k, LuaSyntaxKind::TableArrayExpr | LuaSyntaxKind::TableObjectExpr | LuaSyntaxKind::TableEmptyExpr)
}

/// code tokens (outside comments) with the enabled normalisations applied, and the comments
pub fn canon(tree: &LuaSyntaxTree, flags: &NormFlags) -> Canon {
    let root = tree.get_red_root();
    let mut raw: Vec<(LuaSyntaxToken, LuaSyntaxKind)> = Vec::new();
    let mut comments = Vec::new();
    for el in root.descendants_with_tokens() {
        match el {
            rowan::NodeOrToken::Node(n) => {
                if n.kind() == LuaKind::Syntax(LuaSyntaxKind::Comment) {
                    let raw_text = n.text().to_string();
                    let shape: Vec<String> = n.descendants().skip(1).map(|d| format!("{:?}", d.kind().to_syntax())).collect();
                    comments.push(CComment { text_nb: nonblank(&raw_text), shape, raw: raw_text });
                }
            }
            rowan::NodeOrToken::Token(t) => {
                let k = t.kind().to_token();
                if matches!(k, LuaTokenKind::TkWhitespace | LuaTokenKind::TkEndOfLine) {
                    continue;
                }
                if in_comment(&t).is_some() {
                    continue;
                }
                let pk = t.parent().map(|p| p.kind().to_syntax()).unwrap_or(LuaSyntaxKind::None);
                raw.push((t, pk));
            }
        }
    }
    let mut tokens = Vec::new();
    for (i, (t, pk)) in raw.iter().enumerate() {
        let k = t.kind().to_token();
        // trailing separator of a table constructor: always a normalisation (Never removes, Always adds)
        if matches!(k, LuaTokenKind::TkComma | LuaTokenKind::TkSemicolon)
            && is_table_kind(*pk)
            && raw.get(i + 1).is_some_and(|(n, npk)| n.kind().to_token() == LuaTokenKind::TkRightBrace && is_table_kind(*npk))
        {
            continue;
        }
        // an empty statement `;` is dropped by the formatter whatever the configuration says; the semicolon that
        // ends a statement is kept only with preserve_statement_semicolon
        if k == LuaTokenKind::TkSemicolon && !is_table_kind(*pk) && (flags.drop_semicolons || *pk == LuaSyntaxKind::EmptyStat) {
            continue;
        }
        if flags.drop_single_arg_parens
            && matches!(k, LuaTokenKind::TkLeftParen | LuaTokenKind::TkRightParen)
            && t.parent().is_some_and(|p| single_arg_list(&p))
        {
            continue;
        }
        // field separators of a table constructor are always written as `,`
        let text = if k == LuaTokenKind::TkSemicolon && is_table_kind(*pk) {
            ",".to_string()
        } else if flags.string_by_value && k == LuaTokenKind::TkString {
            match LuaStringToken::cast(t.clone()) {
                Some(s) => format!("<str:{:?}>", s.get_value()),
                None => t.text().to_string(),
            }
        } else {
            t.text().to_string()
        };
        let kname = if k == LuaTokenKind::TkSemicolon && is_table_kind(*pk) { "TkComma".to_string() } else { format!("{:?}", k) };
        tokens.push(CTok { kind: kname, text });
    }
    Canon { tokens, comments }
}

/// kind of the token at a byte offset and of its parent node (used to classify failures)
pub fn context_at(tree: &LuaSyntaxTree, offset: usize) -> String {
    let root = tree.get_red_root();
    let len: usize = u32::from(root.text_range().end()) as usize;
    if len == 0 {
        return "empty".into();
    }
    let off = offset.min(len - 1) as u32;
    match root.token_at_offset(rowan::TextSize::from(off)).right_biased() {
        Some(t) => {
            let mut chain = vec![format!("{:?}", t.kind().to_token())];
            for a in t.parent_ancestors().take(3) {
                chain.push(format!("{:?}", a.kind().to_syntax()));
            }
            chain.join("<")
        }
        None => "none".into(),
    }
}
