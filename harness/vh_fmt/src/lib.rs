// shared helpers for vh_fmt bins
