// shared helpers for vh_fmt bins
pub mod fmtgen;
