//! C40 harness: JSON-schema -> EmmyLua annotations (crates/schema_to_emmylua).
//!   c40 corr   --seed S --n N [--corpus FILE]  -> JSON lines {"schema":..,"text":..,"root":..} (implementation observations)
//!   c40 search --seed S --n N [--corpus FILE]  -> JSON lines {"signature":..,"what":..,"schema":..} + {"summary":{..}}
//!   c40 one    --schema '<json>'               -> observation + violations of one schema (replay)
//! Oracle of `search` (the property text): conversion does not panic, the output parsed by LuaParser has no
//! parse error (syntax or doc), and a `---@class` / `---@alias` with exactly the reported root type name exists.
use emmylua_parser::{LuaAstNode, LuaDocTagAlias, LuaDocTagClass, LuaParser, ParserConfig};
use schema_to_emmylua::SchemaConverter;
use serde_json::{Map, Value, json};
use std::collections::BTreeMap;
use vh_common::{Args, Rng, guarded};

const PLAIN: &[&str] = &["name", "count", "kind", "items", "level", "Config", "Item", "x1", "_priv", "user_id", "Color", "Mode", "public", "readonly"];
const ODD: &[&str] = &[
    "a\"b", "x\ny", "back\\slash", "it's", "both'\"q", "名前", "é", "", "$schema", "with space", "dash-name", "dot.name",
    "a..b", "1abc", "tab\there", "cr\rhere", "nul\u{0}x", "@at", "#hash", "]br[", "a|b", "opt?", "--", "😀", "\u{2028}ls",
    "\u{7f}del", "trail\\", "\"", "'", "\n", "in", "true", "fun", "a.b.c", ".lead", "end.", "x-y-z", "--[[", "]]", "a`b", "<T>",
    "a,b", "(p)", "{o}", "\\n", "\\x22", "\u{feff}bom", "\u{1b}esc", "private", "protected", "package", "internal", "nil", "and",
    "or", "end", "local", "function", "not", "return", "keyof", "extends", "as", "else", "async", "sync", "string", "any", "table", "self",
];
const DESCS: &[&str] = &[
    "The name", "Item count", "multi\nline text", "cr\rinside", "crlf\r\nline", "@field x", "  @class y", "| foo", "|+ bar",
    "#region x", "--[[ y ]]", "]] z", "- item\n- item2", "--- triple", "名前 unicode 😀", "nul\u{0}char", "", " ", "\n", "@",
    "@param", "ends with backslash \\", "quote \" and ' inside", "tab\tinside", "\u{2028}sep", "@type string|", "```lua\nlocal x\n```",
];
/// pieces for composed descriptions / titles: blanks, control characters, doc-significant characters, words
const BLANKS: &[&str] = &[" ", "  ", "\t", " \t "];
const CTRLS: &[&str] = &[
    "\u{1}", "\u{2}", "\u{7}", "\u{8}", "\u{b}", "\u{c}", "\u{e}", "\u{1b}", "\u{1f}", "\u{7f}", "\u{85}", "\u{9f}", "\u{2028}", "\u{2029}", "\u{0}",
    "\u{a0}", "\u{feff}",
];
const SIGNIF: &[&str] = &[
    "@", "@field x", "@class Y", "@see", "@alias", "@param", "@type string|", "---", "---@field z string", "--", "|", "| foo", "|+", "#", "# x", "`",
    "`T`", "\\", "\\@", "\"", "'", "[", "]]", "--[[", "?", ">", "<",
];
const WORDS2: &[&str] = &["text", "Section one.", "mail me", "see", "x"];
const BREAKS: &[&str] = &["\n", "\n", "\r", "\r\n", "\n\n"];

const PRIMS: &[&str] = &["string", "integer", "number", "boolean", "null", "object", "array", "weird", ""];

struct Gen {
    rng: Rng,
    stats: BTreeMap<&'static str, usize>,
    defs: Vec<String>,
}

impl Gen {
    fn hit(&mut self, k: &'static str) {
        *self.stats.entry(k).or_insert(0) += 1;
    }
    fn name(&mut self, odd_pct: usize) -> String {
        if self.rng.chance(odd_pct, 400) {
            self.hit("composed_name");
            return self.composed_text();
        }
        if self.rng.chance(odd_pct, 100) {
            self.hit("odd_name");
            let a = self.rng.pick(ODD).to_string();
            if self.rng.chance(1, 4) { format!("{}{}", self.rng.pick(PLAIN), a) } else { a }
        } else {
            self.rng.pick(PLAIN).to_string()
        }
    }
    /// one line made of blanks, control characters, doc-significant characters and words in any order
    fn composed_line(&mut self) -> String {
        let n = self.rng.below(5);
        let mut s = String::new();
        for _ in 0..n {
            let piece = match self.rng.below(8) {
                0 | 1 => *self.rng.pick(BLANKS),
                2 | 3 => *self.rng.pick(CTRLS),
                4 | 5 | 6 => *self.rng.pick(SIGNIF),
                _ => *self.rng.pick(WORDS2),
            };
            s.push_str(piece);
        }
        s
    }
    /// several composed lines (first and continuation lines), separated by LF / CR / CRLF
    fn composed_text(&mut self) -> String {
        let lines = 1 + self.rng.below(3);
        let mut s = String::new();
        for i in 0..lines {
            if i > 0 {
                s.push_str(*self.rng.pick(BREAKS));
            }
            s.push_str(&self.composed_line());
        }
        s
    }
    fn desc(&mut self) -> String {
        match self.rng.below(6) {
            0 | 1 => {
                self.hit("odd_description");
                self.rng.pick(DESCS).to_string()
            }
            2 | 3 => {
                self.hit("composed_description");
                self.composed_text()
            }
            _ => "plain description".to_string(),
        }
    }
    fn maybe_desc(&mut self, m: &mut Map<String, Value>) {
        if self.rng.chance(1, 3) {
            let d = self.desc();
            m.insert("description".into(), json!(d));
        }
    }
    fn str_values(&mut self, odd_pct: usize) -> Vec<Value> {
        let n = self.rng.below(4);
        (0..n)
            .map(|_| {
                if self.rng.chance(1, 8) {
                    self.hit("non_string_enum_value");
                    match self.rng.below(4) {
                        0 => json!(self.rng.below(100) as i64 - 50),
                        1 => json!(true),
                        2 => Value::Null,
                        _ => json!({"k": 1}),
                    }
                } else {
                    json!(self.name(odd_pct))
                }
            })
            .collect()
    }
    fn reference(&mut self, odd_pct: usize) -> Value {
        self.hit("ref");
        let target = if !self.defs.is_empty() && self.rng.chance(3, 4) {
            let i = self.rng.below(self.defs.len());
            self.defs[i].clone()
        } else {
            self.name(odd_pct)
        };
        match self.rng.below(8) {
            0 => json!({"$ref": format!("#/definitions/{target}")}),
            1 => json!({"$ref": target}),
            2 => json!({"$ref": "#"}),
            3 => json!({"$ref": ""}),
            _ => json!({"$ref": format!("#/$defs/{target}")}),
        }
    }
    /// a schema node
    fn node(&mut self, depth: usize, odd_pct: usize) -> Value {
        let k = if depth == 0 { self.rng.below(5) } else { self.rng.below(14) };
        let mut m = Map::new();
        match k {
            0 | 1 => {
                let t = *self.rng.pick(PRIMS);
                m.insert("type".into(), json!(t));
            }
            2 => {
                self.hit("type_array");
                let n = self.rng.below(4);
                let ts: Vec<Value> = (0..n).map(|_| json!(*self.rng.pick(PRIMS))).collect();
                m.insert("type".into(), json!(ts));
            }
            3 => return self.reference(odd_pct),
            4 => {
                self.hit("enum");
                if self.rng.chance(1, 2) {
                    m.insert("type".into(), json!("string"));
                }
                m.insert("enum".into(), Value::Array(self.str_values(odd_pct)));
            }
            5 => {
                self.hit("array");
                m.insert("type".into(), json!("array"));
                if self.rng.chance(4, 5) {
                    m.insert("items".into(), self.node(depth - 1, odd_pct));
                }
            }
            6 => {
                self.hit("object");
                return self.object(depth - 1, odd_pct, false);
            }
            7 => {
                self.hit("anyOf");
                let n = self.rng.below(4);
                let mut v: Vec<Value> = (0..n).map(|_| self.node(depth - 1, odd_pct)).collect();
                if self.rng.chance(1, 3) {
                    v.push(json!({"type": "null"}));
                }
                for it in v.iter_mut() {
                    if self.rng.chance(1, 3) {
                        if let Some(o) = it.as_object_mut() {
                            let d = self.desc();
                            o.insert("description".into(), json!(d));
                        }
                    }
                }
                m.insert("anyOf".into(), Value::Array(v));
            }
            8 => {
                self.hit("oneOf_const");
                let n = self.rng.below(4);
                let v: Vec<Value> = (0..n)
                    .map(|_| {
                        let mut o = Map::new();
                        if self.rng.chance(3, 4) {
                            o.insert("const".into(), json!(self.name(odd_pct)));
                        } else {
                            o.insert("enum".into(), Value::Array(self.str_values(odd_pct)));
                        }
                        self.maybe_desc(&mut o);
                        Value::Object(o)
                    })
                    .collect();
                m.insert("oneOf".into(), Value::Array(v));
            }
            9 => {
                self.hit("oneOf_mixed");
                let n = self.rng.below(4);
                let mut v: Vec<Value> = (0..n).map(|_| self.node(depth - 1, odd_pct)).collect();
                if self.rng.chance(1, 3) {
                    v.push(json!({"type": "null"}));
                }
                if self.rng.chance(1, 3) {
                    v.push(json!({"const": self.name(odd_pct)}));
                }
                m.insert("oneOf".into(), Value::Array(v));
            }
            10 => {
                self.hit("allOf");
                let n = 1 + self.rng.below(2);
                let v: Vec<Value> = (0..n).map(|_| self.node(depth - 1, odd_pct)).collect();
                m.insert("allOf".into(), Value::Array(v));
            }
            11 => {
                self.hit("const");
                m.insert("const".into(), if self.rng.chance(4, 5) { json!(self.name(odd_pct)) } else { json!(3) });
            }
            12 => {
                self.hit("map");
                m.insert("type".into(), json!("object"));
                m.insert("additionalProperties".into(), if self.rng.chance(4, 5) { self.node(depth - 1, odd_pct) } else { json!(true) });
            }
            _ => {}
        }
        self.maybe_desc(&mut m);
        Value::Object(m)
    }
    fn object(&mut self, depth: usize, odd_pct: usize, root: bool) -> Value {
        let mut m = Map::new();
        if self.rng.chance(3, 4) {
            m.insert("type".into(), json!("object"));
        }
        let np = self.rng.below(5);
        let mut props = Map::new();
        let mut names = Vec::new();
        for _ in 0..np {
            let n = self.name(odd_pct);
            names.push(n.clone());
            props.insert(n, self.node(depth, odd_pct));
        }
        if !root || self.rng.chance(5, 6) {
            m.insert("properties".into(), Value::Object(props));
        }
        if self.rng.chance(1, 2) {
            let req: Vec<Value> = names.iter().filter(|_| self.rng.chance(1, 2)).map(|n| json!(n)).collect();
            m.insert("required".into(), Value::Array(req));
        }
        if self.rng.chance(1, 4) {
            self.hit("additionalProperties");
            m.insert("additionalProperties".into(), if self.rng.chance(3, 4) { self.node(depth, odd_pct) } else { json!(false) });
        }
        self.maybe_desc(&mut m);
        Value::Object(m)
    }
    /// replace a random member by a wrongly typed value
    fn malform(&mut self, v: &mut Value) {
        self.hit("malformed");
        let bad = [json!(5), json!("str"), json!([1, "a", null]), json!({"x": {"type": 7}}), Value::Null, json!(true), json!([])];
        if let Some(o) = v.as_object_mut() {
            let key = *self.rng.pick(&["properties", "required", "enum", "type", "$defs", "oneOf", "anyOf", "items", "title", "description",
                "additionalProperties", "$ref", "const"]);
            o.insert(key.into(), self.rng.pick(&bad).clone());
        }
    }
    fn schema(&mut self) -> Value {
        self.defs.clear();
        let odd_pct = *self.rng.pick(&[0usize, 10, 35, 70]);
        let depth = 1 + self.rng.below(3);
        let ndefs = self.rng.below(5);
        for _ in 0..ndefs {
            let n = self.name(odd_pct);
            self.defs.push(n);
        }
        let mut root = match self.rng.below(8) {
            0 => self.node(depth, odd_pct),
            _ => self.object(depth, odd_pct, true),
        };
        let mut defs = Map::new();
        for n in self.defs.clone() {
            let mut d = self.node(depth, odd_pct);
            if self.rng.chance(1, 8) {
                // nested definitions inside a definition
                if let Some(o) = d.as_object_mut() {
                    self.hit("nested_defs");
                    o.insert("$defs".into(), json!({"Inner": {"type": "string"}}));
                }
            }
            defs.insert(n, d);
        }
        if let Some(o) = root.as_object_mut() {
            match self.rng.below(8) {
                0 => {
                    self.hit("no_title");
                }
                1 => {
                    self.hit("odd_title");
                    let t = if self.rng.chance(1, 2) { self.rng.pick(ODD).to_string() } else { self.composed_text() };
                    o.insert("title".into(), json!(t));
                }
                _ => {
                    o.insert("title".into(), json!(self.name(odd_pct)));
                }
            }
            if ndefs > 0 || self.rng.chance(1, 4) {
                o.insert("$defs".into(), Value::Object(defs));
            }
        }
        if self.rng.chance(1, 10) {
            self.malform(&mut root);
        }
        if self.rng.chance(1, 40) {
            self.hit("non_object_root");
            root = self.rng.pick(&[json!(true), json!([1]), json!("s"), Value::Null, json!(4)]).clone();
        }
        root
    }
}

struct Obs {
    panic: Option<String>,
    text: String,
    root: String,
    errors: Vec<(String, String, usize, usize)>,
    declared: Vec<String>,
}

fn observe(schema: &Value) -> Obs {
    match guarded(|| SchemaConverter::new(false).convert(schema)) {
        Err(e) => Obs { panic: Some(e), text: String::new(), root: String::new(), errors: vec![], declared: vec![] },
        Ok(res) => {
            let text = res.annotation_text;
            let parsed = guarded(|| {
                let tree = LuaParser::parse(&text, ParserConfig::default());
                let errors: Vec<(String, String, usize, usize)> = tree
                    .get_errors()
                    .iter()
                    .map(|e| (format!("{:?}", e.kind), e.message.clone(), u32::from(e.range.start()) as usize, u32::from(e.range.end()) as usize))
                    .collect();
                let chunk = tree.get_chunk_node();
                let mut declared = Vec::new();
                for c in chunk.descendants::<LuaDocTagClass>() {
                    if let Some(n) = c.get_name_token() {
                        declared.push(n.get_name_text().to_string());
                    }
                }
                for c in chunk.descendants::<LuaDocTagAlias>() {
                    if let Some(n) = c.get_name_token() {
                        declared.push(n.get_name_text().to_string());
                    }
                }
                (errors, declared)
            });
            match parsed {
                Ok((errors, declared)) => Obs { panic: None, text, root: res.root_type_name, errors, declared },
                Err(e) => Obs { panic: Some(format!("parser panicked on the output: {e}")), text, root: res.root_type_name, errors: vec![], declared: vec![] },
            }
        }
    }
}

fn line_of(text: &str, off: usize) -> &str {
    let off = off.min(text.len());
    let mut s = off;
    while s > 0 && !text.is_char_boundary(s) {
        s -= 1;
    }
    let start = text[..s].rfind('\n').map(|i| i + 1).unwrap_or(0);
    let end = text[s..].find('\n').map(|i| s + i).unwrap_or(text.len());
    &text[start..end]
}

fn line_kind(line: &str) -> &'static str {
    if line.starts_with("---@class") {
        "class"
    } else if line.starts_with("---@field") {
        "field"
    } else if line.starts_with("---@alias") {
        "alias"
    } else if line.starts_with("---|") {
        "variant"
    } else if line.starts_with("---") {
        "doc"
    } else if line.is_empty() {
        "blank"
    } else {
        "code"
    }
}

fn msg_class(m: &str) -> String {
    let mut s: String = m.chars().filter(|c| !c.is_ascii_digit()).collect();
    if let Some(i) = s.find(", but get") {
        s.truncate(i);
    }
    s.truncate(48);
    s
}

fn violations(schema: &Value, o: &Obs) -> Vec<Value> {
    let mut out = Vec::new();
    if let Some(p) = &o.panic {
        out.push(json!({"signature": "panic", "what": format!("conversion panicked: {p}"), "schema": schema}));
        return out;
    }
    let mut seen = std::collections::BTreeSet::new();
    for (kind, msg, s, _e) in &o.errors {
        let line = line_of(&o.text, *s);
        let sig = format!("{}:{}", line_kind(line), msg_class(msg));
        if seen.insert(sig.clone()) {
            out.push(json!({"signature": sig, "what": format!("{kind} `{msg}` at byte {s} in output line {line:?}"), "schema": schema, "text": o.text}));
        }
    }
    if !o.declared.iter().any(|d| *d == o.root) {
        out.push(json!({"signature": "root-undeclared", "what": format!("reported root type {:?} is not declared by any ---@class / ---@alias (declared: {:?})", o.root, o.declared), "schema": schema, "text": o.text}));
    }
    out
}

/// all characters of the keys and strings of a value
fn collect_chars(v: &Value, out: &mut std::collections::BTreeSet<char>) {
    match v {
        Value::String(s) => out.extend(s.chars()),
        Value::Array(a) => a.iter().for_each(|x| collect_chars(x, out)),
        Value::Object(m) => {
            for (k, x) in m {
                out.extend(k.chars());
                collect_chars(x, out);
            }
        }
        _ => {}
    }
}

fn load_corpus(path: &str) -> Vec<Value> {
    if path.is_empty() {
        return vec![];
    }
    match std::fs::read_to_string(path) {
        Ok(s) => serde_json::from_str::<Vec<Value>>(&s).unwrap_or_default(),
        Err(_) => vec![],
    }
}

fn nontrivial(schema: &Value) -> bool {
    // has at least one property, definition, enum, or combinator
    let s = schema.to_string();
    s.contains("\"properties\":{\"") || s.contains("\"$defs\":{\"") || s.contains("\"enum\"") || s.contains("Of\"")
}

fn main() {
    let args = Args::parse();
    let seed = args.u64("seed", 1);
    let n = args.usize("n", 100);
    let corpus = load_corpus(&args.str("corpus", ""));
    let mut g = Gen { rng: Rng::new(seed ^ 0xC40), stats: BTreeMap::new(), defs: vec![] };
    match args.cmd.as_str() {
        "corr" => {
            for s in corpus.iter().cloned().chain((0..n).map(|_| g.schema())).collect::<Vec<_>>() {
                let o = observe(&s);
                let mut chars = std::collections::BTreeSet::new();
                collect_chars(&s, &mut chars);
                let alpha: Vec<u32> = chars.iter().filter(|c| !c.is_ascii() && c.is_alphabetic()).map(|c| *c as u32).collect();
                let alnum: Vec<u32> = chars.iter().filter(|c| !c.is_ascii() && c.is_alphanumeric()).map(|c| *c as u32).collect();
                println!("{}", json!({"schema": s, "text": o.text, "root": o.root, "panic": o.panic, "alpha": alpha, "alnum": alnum}));
            }
        }
        "search" => {
            let mut count = 0usize;
            let mut distinct = std::collections::HashSet::new();
            let mut nviol = 0usize;
            let mut outlen = 0usize;
            let all: Vec<Value> = corpus.iter().cloned().chain((0..n).map(|_| g.schema())).collect();
            for s in all {
                let o = observe(&s);
                count += 1;
                outlen += o.text.len();
                if nontrivial(&s) {
                    distinct.insert(s.to_string());
                }
                if nviol < 60 {
                    for v in violations(&s, &o) {
                        println!("{}", v);
                        nviol += 1;
                    }
                }
            }
            let mut summary = Map::new();
            summary.insert("cases".into(), json!(count));
            summary.insert("distinct_nontrivial".into(), json!(distinct.len()));
            summary.insert("violations_printed".into(), json!(nviol));
            summary.insert("output_bytes".into(), json!(outlen));
            for (k, v) in &g.stats {
                summary.insert((*k).into(), json!(v));
            }
            println!("{}", json!({"summary": summary}));
        }
        "one" => {
            let s: Value = serde_json::from_str(&args.str("schema", "{}")).unwrap();
            let o = observe(&s);
            println!("{}", json!({"schema": s, "text": o.text, "root": o.root, "panic": o.panic, "errors": o.errors, "declared": o.declared}));
            for v in violations(&s, &o) {
                println!("{}", v);
            }
        }
        _ => {
            eprintln!("usage: c40 corr|search|one");
            std::process::exit(2);
        }
    }
}
