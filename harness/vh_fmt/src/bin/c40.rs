//! probe (temporary first version)
use emmylua_parser::{LuaAstNode, LuaDocTagAlias, LuaDocTagClass, LuaParser, ParserConfig};
use schema_to_emmylua::SchemaConverter;
use serde_json::{Value, json};
use vh_common::{Args, guarded};

fn observe(schema: &Value) -> Value {
    let r = guarded(|| SchemaConverter::new(false).convert(schema));
    match r {
        Err(e) => json!({"panic": e}),
        Ok(res) => {
            let text = res.annotation_text.clone();
            let tree = LuaParser::parse(&text, ParserConfig::default());
            let errs: Vec<Value> = tree
                .get_errors()
                .iter()
                .map(|e| json!([format!("{:?}", e.kind), e.message, u32::from(e.range.start()), u32::from(e.range.end())]))
                .collect();
            let chunk = tree.get_chunk_node();
            let mut declared = Vec::new();
            for c in chunk.descendants::<LuaDocTagClass>() {
                if let Some(n) = c.get_name_token() {
                    declared.push(n.get_name_text().to_string());
                }
            }
            for c in chunk.descendants::<LuaDocTagAlias>() {
                if let Some(n) = c.get_name_token() {
                    declared.push(n.get_name_text().to_string());
                }
            }
            json!({"text": text, "root": res.root_type_name, "errors": errs, "declared": declared})
        }
    }
}

fn main() {
    let args = Args::parse();
    match args.cmd.as_str() {
        "one" => {
            let s = args.str("schema", "{}");
            let v: Value = serde_json::from_str(&s).unwrap();
            let o = observe(&v);
            if let Some(t) = o.get("text").and_then(|t| t.as_str()) {
                eprintln!("{}", t);
            }
            println!("{}", o);
        }
        _ => std::process::exit(2),
    }
}
