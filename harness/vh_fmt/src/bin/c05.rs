//! C05 / C06 harness: the formatter (IR builder + printer).
//!   c05 corr   --seed S --n N --ngen G --maxir B   JSON lines: real IRs (dump_ir) with Rust's output, and generated
//!                                                   IRs printed by the real Printer (print_ir), for the Coq model
//!   c05 search --seed S --n N [--prop C05|C06]     JSON lines: violations of the property oracles + summary
//!   c05 one    --file F [--cfg JSON]               replay one input (prints output, pass 2, violations)
//!   c05 align  --seed S --n N                      generated doc blocks with known columns + the formatted block (C06 tie)
use emmylua_formatter::{LuaFormatConfig, SourceText, reformat_lua_code, verif};
use serde_json::{Value, json};
use std::collections::{BTreeMap, HashSet};
use vh_common::{Args, Rng, guarded};
use vh_fmt::fmtgen::*;

fn fmt(text: &str, cfg: &LuaFormatConfig) -> Result<String, String> {
    guarded(|| reformat_lua_code(&SourceText { text, level: LEVEL }, cfg))
}

// ------------------------------------------------------------------------------------------ oracle

#[derive(Clone, Debug)]
struct Viol {
    prop: &'static str,
    /// class of the failure (what differs, where)
    class: String,
    /// for failures under the default configuration: the construct at the failing position
    construct: String,
    what: String,
}

/// C05 + C06 oracles for one (text, config); `want` filters the property
fn check(text: &str, cfg: &LuaFormatConfig, want: &str) -> (Vec<Viol>, bool) {
    let mut out = Vec::new();
    let tree = parse(text);
    let valid = !tree.has_syntax_errors();
    let o1 = match fmt(text, cfg) {
        Ok(o) => o,
        Err(e) => {
            out.push(Viol { prop: "C05", class: "format-panic".into(), construct: msg_class(&e), what: format!("formatter panicked: {e}") });
            return (out, valid);
        }
    };
    if !valid {
        if o1 != text && want != "C06" {
            out.push(Viol {
                prop: "C05",
                class: "errors-not-returned-unchanged".into(),
                construct: String::new(),
                what: "input has syntax errors but the formatter changed it".into(),
            });
        }
        return (out, valid);
    }
    let tree2 = parse(&o1);
    if want != "C06" {
        let flags = NormFlags::of(cfg);
        let c1 = canon(&tree, &flags);
        let c2 = canon(&tree2, &flags);
        let glued = if tree2.has_syntax_errors() || c1.tokens != c2.tokens { glued_tokens(text, &o1, &c1.tokens, &c2.tokens) } else { None };
        if let Some(sig) = glued {
            let i = c1.tokens.iter().zip(c2.tokens.iter()).take_while(|(a, b)| a.text == b.text).count();
            out.push(Viol {
                prop: "C05",
                class: sig,
                construct: String::new(),
                what: format!(
                    "the output has the same characters but different tokens (two tokens glued or one split): source tokens {:?} {:?}, output token {:?}",
                    c1.tokens.get(i).map(|t| t.text.clone()), c1.tokens.get(i + 1).map(|t| t.text.clone()), c2.tokens.get(i).map(|t| t.text.clone())
                ),
            });
        } else if tree2.has_syntax_errors() {
            let e = tree2.get_errors().iter().find(|e| e.kind == emmylua_parser::LuaParseErrorKind::SyntaxError);
            let msg = e.map(|e| e.message.clone()).unwrap_or_default();
            let ctx = e.map(|e| context_at(&tree2, u32::from(e.range.start()) as usize)).unwrap_or_default();
            out.push(Viol {
                prop: "C05",
                class: format!("output-syntax-error:{}", msg_class(&msg)),
                construct: construct_of(&ctx),
                what: format!("formatted output has a syntax error: {msg}"),
            });
        } else {
            if c1.tokens != c2.tokens {
                let i = c1.tokens.iter().zip(c2.tokens.iter()).take_while(|(a, b)| a == b).count();
                let a = c1.tokens.get(i);
                let b = c2.tokens.get(i);
                // classify: lost / added / changed
                let (class, kind) = match (a, b) {
                    (Some(a), Some(b)) => {
                        if c1.tokens.get(i + 1) == Some(b) {
                            ("lost", a.kind.clone())
                        } else if c2.tokens.get(i + 1) == Some(a) {
                            ("added", b.kind.clone())
                        } else {
                            ("changed", a.kind.clone())
                        }
                    }
                    (Some(a), None) => ("lost", a.kind.clone()),
                    (None, Some(b)) => ("added", b.kind.clone()),
                    (None, None) => ("changed", "?".into()),
                };
                let around: Vec<String> = (i.saturating_sub(1)..=i).filter_map(|j| c1.tokens.get(j).map(|t| t.kind.clone())).collect();
                out.push(Viol {
                    prop: "C05",
                    class: format!("code-token-{class}:{kind}"),
                    construct: around.join(","),
                    what: format!(
                        "code token #{i} differs after formatting: source {:?}, output {:?}",
                        a.map(|t| t.text.clone()),
                        b.map(|t| t.text.clone())
                    ),
                });
            }
            // comments: the concatenated text (blanks removed) and the concatenated node structure must be the same
            // (two comment blocks may merge into one node when blank lines between them are removed)
            let t1: String = c1.comments.iter().map(|c| c.text_nb.as_str()).collect();
            let t2: String = c2.comments.iter().map(|c| c.text_nb.as_str()).collect();
            if t1 != t2 {
                let mut k = t1.chars().zip(t2.chars()).take_while(|(x, y)| x == y).count();
                // the source comment holding the first differing character
                let mut which = None;
                for c in &c1.comments {
                    let n = c.text_nb.chars().count();
                    if k < n {
                        which = Some(c);
                        break;
                    }
                    k -= n;
                }
                let (ctx, full, line) = match which {
                    Some(c) => {
                        let chain = nonblank_context(&c.raw, k);
                        (reduce_ctx(&chain), chain, nth_nonblank_line(&c.raw, k))
                    }
                    None => ("after-last-comment".to_string(), String::new(), String::new()),
                };
                out.push(Viol {
                    prop: "C05",
                    class: format!("comment-text:{ctx}"),
                    construct: construct_of(&full),
                    what: format!("comment text changed at {:?} (source comments {:?}, output comments {:?})", line,
                                  clip(&c1.comments.iter().map(|c| c.raw.clone()).collect::<Vec<_>>().join("\u{23ce}")),
                                  clip(&c2.comments.iter().map(|c| c.raw.clone()).collect::<Vec<_>>().join("\u{23ce}"))),
                });
            } else {
                // two adjacent description blocks that merge into one (a blank line between them was removed) are the same
                // structure: consecutive DocDescription entries count once
                let mut s1: Vec<&String> = c1.comments.iter().flat_map(|c| c.shape.iter()).collect();
                let mut s2: Vec<&String> = c2.comments.iter().flat_map(|c| c.shape.iter()).collect();
                s1.dedup_by(|a, b| a.as_str() == "DocDescription" && b.as_str() == "DocDescription");
                s2.dedup_by(|a, b| a.as_str() == "DocDescription" && b.as_str() == "DocDescription");
                if s1 != s2 {
                    let k = s1.iter().zip(s2.iter()).take_while(|(x, y)| x == y).count();
                    out.push(Viol {
                        prop: "C05",
                        class: format!(
                            "comment-structure:{}->{}",
                            kind_class(s1.get(k).map(|s| s.as_str()).unwrap_or("end")),
                            kind_class(s2.get(k).map(|s| s.as_str()).unwrap_or("end"))
                        ),
                        construct: format!("{}->{}", s1.get(k).map(|s| s.as_str()).unwrap_or("end"), s2.get(k).map(|s| s.as_str()).unwrap_or("end")),
                        what: format!("comments parse to a different structure (source comments {:?}, output comments {:?})",
                                      clip(&c1.comments.iter().map(|c| c.raw.clone()).collect::<Vec<_>>().join("\u{23ce}")),
                                      clip(&c2.comments.iter().map(|c| c.raw.clone()).collect::<Vec<_>>().join("\u{23ce}"))),
                    });
                }
            }
        }
    }
    if want != "C05" {
        match fmt(&o1, cfg) {
            Err(e) => out.push(Viol { prop: "C06", class: "format-panic-pass2".into(), construct: msg_class(&e), what: format!("second pass panicked: {e}") }),
            Ok(o2) => {
                if o2 != o1 {
                    let k = o1.bytes().zip(o2.bytes()).take_while(|(a, b)| a == b).count();
                    let chain = context_at(&tree2, k);
                    let (l1, l2) = first_diff_line(&o1, &o2);
                    out.push(Viol {
                        prop: "C06",
                        class: format!("not-idempotent:{}:{}", idem_where(&chain), idem_how(&o1, &o2)),
                        construct: construct_of(&chain),
                        what: format!("second pass changes the output: {:?} becomes {:?}", l1, l2),
                    });
                }
            }
        }
    }
    (out, valid)
}

fn clip_text(s: &str) -> String {
    s.chars().take(4000).collect()
}

fn clip(s: &str) -> String {
    s.chars().take(300).collect()
}

/// the line of `raw` holding its k-th non-blank character
fn nth_nonblank_line(raw: &str, k: usize) -> String {
    let mut seen = 0usize;
    for line in raw.lines() {
        let n = line.chars().filter(|c| !is_blank(*c)).count();
        if k < seen + n {
            return line.to_string();
        }
        seen += n;
    }
    String::new()
}

/// reduce a "token<parent<grandparent<..." chain to a stable class: the nearest doc-tag node, else the first node
fn reduce_ctx(chain: &str) -> String {
    let parts: Vec<&str> = chain.split('<').collect();
    if let Some(tag) = parts.iter().skip(1).find(|p| p.starts_with("DocTag")) {
        return tag.to_string();
    }
    match parts.get(1) {
        Some(node) if *node == "Comment" || *node == "DocDescription" => format!("{}/{}", node, parts[0]),
        Some(node) => node.to_string(),
        None => chain.to_string(),
    }
}

/// DocTagParam, DocTagClass, ... -> DocTag; TypeBinary, TypeName, ... -> Type
fn kind_class(k: &str) -> &str {
    if k.starts_with("DocTag") {
        "DocTag"
    } else if k.starts_with("Type") {
        "Type"
    } else {
        k
    }
}

/// an error message with quoted parts and numbers removed (messages are fixed strings with holes)
fn msg_class(msg: &str) -> String {
    let mut out = String::new();
    let mut in_q = false;
    for c in msg.chars() {
        if c == '\'' || c == '`' {
            in_q = !in_q;
            continue;
        }
        if in_q || c.is_ascii_digit() {
            continue;
        }
        out.push(if c == ' ' { '-' } else { c });
    }
    out.chars().take(60).collect()
}

/// output and source have the same characters (up to blanks and the characters the enabled normalisations may
/// add or drop) but different tokens: two tokens were glued together or one was split
fn glued_tokens(text: &str, o1: &str, t1: &[CTok], t2: &[CTok]) -> Option<String> {
    if nonblank(text) != nonblank(o1) {
        return None;
    }
    let i = t1.iter().zip(t2.iter()).take_while(|(a, b)| a.text == b.text).count();
    let a = t1.get(i).map(|t| t.kind.clone()).unwrap_or("end".into());
    let b = t1.get(i + 1).map(|t| t.kind.clone()).unwrap_or("end".into());
    Some(format!("glued-tokens:{a}+{b}"))
}

/// how the second pass differs from the first: characters changed, line breaks moved, only indentation, only spacing
fn idem_how(o1: &str, o2: &str) -> &'static str {
    if nonblank(o1) != nonblank(o2) {
        return "content";
    }
    let squash = |l: &str| -> String { l.split_whitespace().collect::<Vec<_>>().join(" ") };
    let l1: Vec<&str> = o1.lines().collect();
    let l2: Vec<&str> = o2.lines().collect();
    let s1: Vec<String> = l1.iter().map(|l| squash(l)).filter(|l| !l.is_empty()).collect();
    let s2: Vec<String> = l2.iter().map(|l| squash(l)).filter(|l| !l.is_empty()).collect();
    if s1 != s2 {
        return "line-breaks";
    }
    if l1.len() != l2.len() {
        return "blank-lines";
    }
    if l1.iter().zip(l2.iter()).all(|(a, b)| a.trim_start() == b.trim_start()) {
        return "indent";
    }
    "spacing"
}

fn idem_where(chain: &str) -> &'static str {
    let parts: Vec<&str> = chain.split('<').collect();
    if parts.iter().skip(1).any(|p| p.starts_with("DocTag")) {
        "doc-tag"
    } else if parts.iter().skip(1).any(|p| *p == "Comment") {
        "comment"
    } else {
        "code"
    }
}

fn first_diff_line(a: &str, b: &str) -> (String, String) {
    let la: Vec<&str> = a.lines().collect();
    let lb: Vec<&str> = b.lines().collect();
    for i in 0..la.len().max(lb.len()) {
        let x = la.get(i).copied().unwrap_or("<eof>");
        let y = lb.get(i).copied().unwrap_or("<eof>");
        if x != y {
            return (x.to_string(), y.to_string());
        }
    }
    (String::new(), String::new())
}

/// words with their trailing whitespace
fn split_words(text: &str) -> Vec<String> {
    let mut out = Vec::new();
    let mut cur = String::new();
    let mut in_ws = false;
    for c in text.chars() {
        let ws = c == ' ' || c == '\t' || c == '\n' || c == '\r';
        if in_ws && !ws {
            out.push(std::mem::take(&mut cur));
        }
        cur.push(c);
        in_ws = ws;
    }
    if !cur.is_empty() {
        out.push(cur);
    }
    out
}

/// the violations of (text, cfg json) as (class, construct) pairs of one property
fn classes(text: &str, cfgj: &Value, want: &str, prop: &str) -> Vec<(String, String)> {
    let cfg = cfg_from_json(cfgj);
    check(text, &cfg, want).0.into_iter().filter(|v| v.prop == prop).map(|v| (v.class, v.construct)).collect()
}

/// minimal option set + signature of one violation
fn narrow(text: &str, cfgj: &Value, v: &Viol, want: &str) -> (Value, String) {
    let prop = v.prop;
    narrow_signature(cfgj, &v.class, &|c: &Value| classes(text, c, want, prop))
}

/// shrink the text under the minimal configuration, keeping the class (and, under the default configuration, the construct)
fn shrink(text: &str, cfgmin: &Value, v: &Viol, want: &str, is_default: bool) -> String {
    let still = |ls: &[String]| -> bool {
        let t: String = ls.concat();
        classes(&t, cfgmin, want, v.prop).iter().any(|(k, c)| *k == v.class && (!is_default || *c == v.construct))
    };
    let mut budget = 900usize;
    let lines: Vec<String> = text.split_inclusive('\n').map(|s| s.to_string()).collect();
    let lines = ddmin(lines, &still, &mut budget, false);
    let words = split_words(&lines.concat());
    let words = ddmin(words, &still, &mut budget, false);
    words.concat()
}

// ------------------------------------------------------------------------------------------ IR generator

fn gen_atom_text(rng: &mut Rng) -> String {
    const T: &[&str] = &[
        "a", "local", "x", "=", "1", "foo", "(", ")", ",", "{", "}", "end", "function", "-- c", "--- doc text", "é", "日本",
        "with space", "trail ", "  lead", "multi\nline", "x\n", "\ttab", "", "", "longer_identifier_name", "\"str ing\"", "a\r\nb",
    ];
    rng.pick(T).to_string()
}

fn jstr(s: &str) -> String {
    serde_json::to_string(s).unwrap()
}

fn gen_docs(rng: &mut Rng, depth: usize, n: usize, out: &mut String) {
    for i in 0..n {
        if i > 0 {
            out.push(' ');
        }
        gen_doc(rng, depth, out);
    }
}

fn gen_id(rng: &mut Rng) -> String {
    if rng.chance(1, 2) { "-".to_string() } else { rng.below(4).to_string() }
}

fn gen_opt(rng: &mut Rng, depth: usize, out: &mut String) {
    if rng.chance(1, 2) {
        out.push('-');
    } else {
        out.push('(');
        let n = rng.below(3);
        gen_docs(rng, depth, n, out);
        out.push(')');
    }
}

fn gen_doc(rng: &mut Rng, depth: usize, out: &mut String) {
    let leaf = depth >= 4 || rng.chance(2, 5);
    if leaf {
        match rng.below(12) {
            0..=4 => {
                let tag = *rng.pick(&["T", "T", "N", "K", "S"]);
                out.push_str(&format!("({} {})", tag, jstr(&gen_atom_text(rng))));
            }
            5 | 6 => out.push_str("SP"),
            7 | 8 => out.push_str("SL"),
            9 => out.push_str("SE"),
            _ => out.push_str("HL"),
        }
        return;
    }
    let n = rng.below(5);
    match rng.below(14) {
        0 | 1 => {
            out.push_str("(I ");
            gen_docs(rng, depth + 1, n, out);
            out.push(')');
        }
        2..=5 => {
            out.push_str(&format!("(G {} {} ", if rng.chance(1, 5) { 1 } else { 0 }, gen_id(rng)));
            gen_docs(rng, depth + 1, n, out);
            out.push(')');
        }
        6 => {
            out.push_str("(L ");
            gen_docs(rng, depth + 1, n, out);
            out.push(')');
        }
        7 | 8 => {
            out.push_str(&format!("(IB {} ", gen_id(rng)));
            gen_doc(rng, depth + 1, out);
            out.push(' ');
            gen_doc(rng, depth + 1, out);
            out.push(')');
        }
        9 | 10 => {
            out.push_str("(F ");
            gen_docs(rng, depth + 1, n, out);
            out.push(')');
        }
        11 => {
            out.push_str("(LS ");
            gen_docs(rng, depth + 2, n.min(3), out);
            out.push(')');
        }
        _ => {
            out.push_str("(AG");
            let k = rng.below(4);
            for _ in 0..k {
                if rng.chance(2, 3) {
                    out.push_str(" (A (");
                    let a = rng.below(3);
                    gen_docs(rng, depth + 2, a, out);
                    out.push_str(") (");
                    let b = rng.below(3);
                    gen_docs(rng, depth + 2, b, out);
                    out.push_str(") ");
                    gen_opt(rng, depth + 2, out);
                    out.push(')');
                } else {
                    out.push_str(" (R (");
                    let a = rng.below(3);
                    gen_docs(rng, depth + 2, a, out);
                    out.push_str(") ");
                    gen_opt(rng, depth + 2, out);
                    out.push(')');
                }
            }
            out.push(')');
        }
    }
}

fn gen_printer_cfg(rng: &mut Rng) -> Value {
    json!({
        "indent": {"kind": *rng.pick(&["Space", "Space", "Tab"]), "width": *rng.pick(&[0usize, 1, 2, 4, 4, 8])},
        "layout": {"max_line_width": *rng.pick(&[0usize, 5, 10, 15, 20, 30, 40, 80, 120])},
        "output": {"end_of_line": *rng.pick(&["LF", "LF", "CRLF"])},
        "comments": {"line_comment_min_spaces_before": rng.below(4), "line_comment_min_column": *rng.pick(&[0usize, 0, 10, 30])},
    })
}

// ------------------------------------------------------------------------------------------ inputs

struct Input {
    origin: &'static str,
    name: String,
    text: String,
    cfg: Value,
}

fn inputs(rng: &mut Rng, n: usize, maxstat: usize, seed: u64, extra_only: bool) -> Vec<Input> {
    let mut v = Vec::new();
    let mut pre: Vec<Input> = Vec::new();
    let stds = std_files();
    // corpus first: witnesses of known findings with their own configuration, then plain files
    for prop in ["C05", "C06"] {
        for (name, v) in corpus_json(prop) {
            if let Some(t) = v.get("text").and_then(|t| t.as_str()) {
                pre.push(Input { origin: "corpus", name, text: t.to_string(), cfg: v.get("cfg").cloned().unwrap_or(json!({})) });
            }
        }
    }
    v.append(&mut pre);
    // (their generated configurations come from a separate stream, so adding a corpus file does not shift the random inputs)
    let mut crng = Rng::new(0xC05C0);
    for (name, text) in corpus_files("C05").into_iter().chain(corpus_files("C06")) {
        v.push(Input { origin: "corpus", name: name.clone(), text: text.clone(), cfg: json!({}) });
        v.push(Input { origin: "corpus", name, text, cfg: gen_cfg(&mut crng) });
    }
    // bundled std annotations: default config always, plus generated configs
    for (name, text) in &stds {
        v.push(Input { origin: "std", name: name.clone(), text: text.clone(), cfg: json!({}) });
    }
    let mut i = 0usize;
    let base = v.len();
    while v.len() < base + n + stds.len() {
        i += 1;
        // at least half of the cases run under the default configuration (what users run)
        let cfg = if rng.chance(1, 2) { json!({}) } else { gen_cfg(rng) };
        match i % 8 {
            0 if !stds.is_empty() => {
                let (name, text) = &stds[rng.below(stds.len())];
                let cfg = if nondefault_opts(&cfg).is_empty() { gen_cfg(rng) } else { cfg };
                v.push(Input { origin: "std-cfg", name: name.clone(), text: text.clone(), cfg });
            }
            1 | 2 | 3 if !stds.is_empty() => {
                let (name, text) = &stds[rng.below(stds.len())];
                let t = mutate(rng, text);
                v.push(Input { origin: "mutated", name: name.clone(), text: t, cfg });
            }
            _ => {
                let t = gen_program(rng, maxstat);
                v.push(Input { origin: "generated", name: format!("gen{i}"), text: t, cfg });
            }
        }
    }
    // an additional stream with its own PRNG (the inputs above do not shift): tricky short strings under the quote styles
    let mut srng = Rng::new(seed ^ 0x5712_1465);
    let mut extra = Vec::new();
    for j in 0..(n / 4).max(30) {
        let cfg = match srng.below(5) {
            0 => json!({}),
            1 | 2 => json!({"output": {"quote_style": "Double"}}),
            _ => json!({"output": {"quote_style": "Single"}}),
        };
        extra.push(Input { origin: "strings", name: format!("str{j}"), text: gen_string_program(&mut srng), cfg });
    }
    if extra_only {
        return extra;
    }
    v.append(&mut extra);
    v
}

fn case_json(inp: &Input) -> Value {
    json!({"origin": inp.origin, "name": inp.name, "text": inp.text, "cfg": inp.cfg})
}

fn main() {
    let args = Args::parse();
    let seed = args.u64("seed", 1);
    let n = args.usize("n", 100);
    let mut rng = Rng::new(seed ^ 0xC05);
    match args.cmd.as_str() {
        "corr" => {
            let ngen = args.usize("ngen", 100);
            let maxir = args.usize("maxir", 40000);
            let maxstat = args.usize("maxstat", 6);
            let mut emitted = 0usize;
            let mut skipped_big = 0usize;
            let mut skipped_err = 0usize;
            let mut ins = Vec::new();
            let mut crng = Rng::new(0xC05C1);
            for (name, text) in corpus_files("C05") {
                ins.push(Input { origin: "corpus", name: name.clone(), text: text.clone(), cfg: json!({}) });
                ins.push(Input { origin: "corpus", name, text, cfg: gen_cfg(&mut crng) });
            }
            let stds = std_files();
            let mut i = 0;
            while emitted < n && i < n * 6 {
                i += 1;
                let inp = if let Some(x) = ins.pop() {
                    x
                } else {
                    let cfg = gen_cfg(&mut rng);
                    match i % 5 {
                        0 if !stds.is_empty() => {
                            // a window of a real file
                            let (name, text) = &stds[rng.below(stds.len())];
                            let lines: Vec<&str> = text.split_inclusive('\n').collect();
                            let len = 5 + rng.below(40);
                            let start = rng.below(lines.len().saturating_sub(len).max(1));
                            let t: String = lines[start..(start + len).min(lines.len())].concat();
                            Input { origin: "std-window", name: name.clone(), text: t, cfg }
                        }
                        1 if !stds.is_empty() => {
                            let (name, text) = &stds[rng.below(stds.len())];
                            Input { origin: "mutated", name: name.clone(), text: mutate(&mut rng, text), cfg }
                        }
                        _ => Input { origin: "generated", name: format!("gen{i}"), text: gen_program(&mut rng, maxstat), cfg },
                    }
                };
                let cfg = cfg_from_json(&inp.cfg);
                let src = SourceText { text: &inp.text, level: LEVEL };
                let ir = match guarded(|| verif::dump_ir(&src, &cfg)) {
                    Ok(Some(ir)) => ir,
                    _ => {
                        skipped_err += 1;
                        continue;
                    }
                };
                if ir.len() > maxir {
                    skipped_big += 1;
                    continue;
                }
                let Ok(out) = fmt(&inp.text, &cfg) else { continue };
                let flags = NormFlags::of(&cfg);
                // the property oracle on the same input (narrow signatures), so that a failing client obligation can be
                // reported as the concrete violation it is
                let viols: Vec<Value> = check(&inp.text, &cfg, "C05").0.iter().filter(|v| v.prop == "C05")
                    .map(|v| { let (cm, sig) = narrow(&inp.text, &inp.cfg, v, "C05"); json!({"signature": sig, "what": v.what, "cfg": cm}) }).collect();
                println!(
                    "{}",
                    json!({"kind": "real", "origin": inp.origin, "name": inp.name, "src": inp.text, "pcfg": printer_cfg(&cfg), "ir": ir, "out": out,
                           "norm": {"semi": flags.drop_semicolons, "quotes": flags.string_by_value, "parens": flags.drop_single_arg_parens},
                           "cfg": inp.cfg, "viol": viols})
                );
                emitted += 1;
            }
            // generated IRs: their own stream (the real inputs above follow --seed only)
            let mut rng = Rng::new(args.u64("gseed", seed) ^ 0x6E);
            for _ in 0..ngen {
                let cfgj = gen_printer_cfg(&mut rng);
                let cfg = cfg_from_json(&cfgj);
                let mut ir = String::from("(");
                let k = 1 + rng.below(5);
                gen_docs(&mut rng, 0, k, &mut ir);
                ir.push(')');
                match guarded(|| verif::print_ir(&ir, &cfg)) {
                    Ok(Ok(out)) => println!("{}", json!({"kind": "gen", "pcfg": printer_cfg(&cfg), "ir": ir, "out": out})),
                    Ok(Err(e)) => println!("{}", json!({"kind": "gen-error", "ir": ir, "error": e})),
                    Err(e) => println!("{}", json!({"kind": "gen-panic", "pcfg": printer_cfg(&cfg), "ir": ir, "error": e})),
                }
            }
            eprintln!("corr: real={emitted} skipped_big={skipped_big} skipped_syntax_error={skipped_err} gen={ngen}");
        }
        "search" => {
            let want = args.str("prop", "both");
            let maxstat = args.usize("maxstat", 12);
            // signatures already recorded as findings: reported without shrinking (the witness is in the corpus)
            let known: HashSet<String> = std::fs::read_to_string(args.str("known", ""))
                .ok()
                .and_then(|t| serde_json::from_str::<Vec<String>>(&t).ok())
                .map(|v| v.into_iter().collect())
                .unwrap_or_default();
            let ins = inputs(&mut rng, n, maxstat, seed, args.flag("extra-only"));
            let mut dist: BTreeMap<String, usize> = BTreeMap::new();
            let mut distinct = HashSet::new();
            let mut valid_n = 0usize;
            let mut default_n = 0usize;
            let mut reported: HashSet<String> = HashSet::new();
            let mut nviol = 0usize;
            for inp in &ins {
                let cfg = cfg_from_json(&inp.cfg);
                let (viols, valid) = check(&inp.text, &cfg, &want);
                *dist.entry(format!("{}{}", inp.origin, if valid { "" } else { "-syntax-error" })).or_default() += 1;
                if valid {
                    valid_n += 1;
                }
                if nondefault_opts(&inp.cfg).is_empty() {
                    default_n += 1;
                }
                if inp.text.len() > 20 {
                    distinct.insert((inp.text.clone(), inp.cfg.to_string()));
                }
                for v in viols {
                    if want != "both" && v.prop != want {
                        continue;
                    }
                    nviol += 1;
                    // the cause: minimal set of non-default options (or the construct, under the default configuration)
                    let (cfgmin, sig) = narrow(&inp.text, &inp.cfg, &v, &want);
                    if !reported.insert(format!("{}|{}", v.prop, sig)) {
                        continue;
                    }
                    let is_default = sig.starts_with("default:");
                    let (text, what) = if known.contains(&sig) {
                        (clip_text(&inp.text), v.what.clone())
                    } else {
                        let v0 = if is_default {
                            // class and construct as they are under the default configuration
                            classes(&inp.text, &cfgmin, &want, v.prop).into_iter().find(|(k, _)| *k == v.class)
                                .map(|(k, c)| Viol { prop: v.prop, class: k, construct: c, what: v.what.clone() }).unwrap_or(v.clone())
                        } else {
                            v.clone()
                        };
                        let small = shrink(&inp.text, &cfgmin, &v0, &want, is_default);
                        let what = check(&small, &cfg_from_json(&cfgmin), &want).0.iter().find(|x| x.prop == v.prop && x.class == v.class)
                            .map(|x| x.what.clone()).unwrap_or(v.what.clone());
                        (small, what)
                    };
                    println!(
                        "{}",
                        json!({"prop": v.prop, "signature": sig, "what": what, "origin": inp.origin, "name": inp.name,
                               "text": text, "cfg": cfgmin, "full_len": inp.text.len()})
                    );
                }
            }
            println!(
                "{}",
                json!({"summary": {"cases": ins.len(), "valid": valid_n, "default_configuration_cases": default_n, "distinct_nontrivial": distinct.len(),
                                   "violating_cases": nviol, "distinct_signatures": reported.len(), "by_origin": dist}})
            );
        }
        "one" => {
            let text = std::fs::read_to_string(args.str("file", "")).unwrap_or_default();
            let cfgj: Value = serde_json::from_str(&args.str("cfg", "{}")).unwrap_or(json!({}));
            let cfg = cfg_from_json(&cfgj);
            let want = args.str("prop", "both");
            let (viols, valid) = check(&text, &cfg, &want);
            let o1 = fmt(&text, &cfg).unwrap_or_else(|e| format!("<panic {e}>"));
            let o2 = fmt(&o1, &cfg).unwrap_or_else(|e| format!("<panic {e}>"));
            println!("{}", json!({"valid": valid, "out": o1, "pass2_same": o1 == o2, "case": case_json(&Input{origin:"one", name:"one".into(), text: text.clone(), cfg: cfgj.clone()})}));
            for v in viols {
                if want != "both" && v.prop != want {
                    continue;
                }
                let (cfgmin, sig) = narrow(&text, &cfgj, &v, &want);
                println!("{}", json!({"prop": v.prop, "signature": sig, "what": v.what, "text": text, "cfg": cfgmin}));
            }
            if args.flag("show") {
                eprintln!("--- pass 1\n{o1}--- pass 2\n{o2}");
            }
        }
        "align" => {
            // doc blocks whose columns are known by construction; the formatted block is the observation (C06 tie)
            for _ in 0..n {
                let k = 2 + rng.below(4);
                let tag = *rng.pick(&["param", "field"]);
                let mut rows: Vec<Vec<String>> = Vec::new();
                for j in 0..k {
                    let name = format!("{}{}", rng.pick(&["a", "bb", "ccc", "long_name", "x_y"]), j);
                    let ty = rng.pick(&["string", "integer", "table<string, integer>", "fun(a: integer): string", "Foo[]", "A | B"]).to_string();
                    let mut row = vec![tag.to_string(), name, ty];
                    if rng.chance(1, 2) {
                        row.push(format!("{} {}", rng.pick(&["the", "some", "a"]), rng.pick(&["value", "thing to use", "x"])));
                    }
                    rows.push(row);
                }
                let mut text = String::new();
                if tag == "field" {
                    text.push_str("---@class K\n");
                }
                for r in &rows {
                    let gap = |rng: &mut Rng| " ".repeat(1 + rng.below(3));
                    text.push_str("---@");
                    text.push_str(&r[0]);
                    for c in &r[1..] {
                        text.push_str(&gap(&mut rng));
                        text.push_str(c);
                    }
                    text.push('\n');
                }
                text.push_str(if tag == "field" { "local K = {}\n" } else { "function f() end\n" });
                let cfg = LuaFormatConfig::default();
                let Ok(out) = fmt(&text, &cfg) else { continue };
                let lines: Vec<&str> = out.lines().filter(|l| l.starts_with(&format!("---@{tag}"))).collect();
                let out2 = fmt(&out, &cfg).unwrap_or_default();
                println!("{}", json!({"rows": rows, "lines": lines, "idempotent": out2 == out, "text": text}));
            }
        }
        _ => {
            eprintln!("usage: c05 corr|search|one|align");
            std::process::exit(2);
        }
    }
}
