//! probe (temporary)
use emmylua_formatter::{LuaFormatConfig, SourceText, reformat_lua_code};
use emmylua_parser::{LuaLanguageLevel, LuaParser, ParserConfig};
fn main() {
    let a: Vec<String> = std::env::args().collect();
    let text = std::fs::read_to_string(&a[1]).unwrap();
    let cfg = LuaFormatConfig::default();
    let tree = LuaParser::parse(&text, ParserConfig::with_level(LuaLanguageLevel::Lua55));
    if a.len() > 2 { println!("{:#?}", tree.get_red_root()); }
    let o1 = reformat_lua_code(&SourceText { text: &text, level: LuaLanguageLevel::Lua55 }, &cfg);
    let o2 = reformat_lua_code(&SourceText { text: &o1, level: LuaLanguageLevel::Lua55 }, &cfg);
    println!("---1\n{}---2\n{}", o1, o2);
}
