//! C07 harness: range formatting.
//!   c07 corr   --seed S --n N      JSON lines: observations of the range helpers (hook H4) for the Coq model:
//!                                  "arith" (clamp/contains/intersects), "lines" (line start/end, expand_to_full_lines),
//!                                  "indent" (strip/apply_base_indent, split_line_ending), "select" (layout tree, slices, selected range)
//!   c07 search --seed S --n N      JSON lines: violations of the property oracle + summary
//!   c07 one    --file F --sel a,b [--cfg JSON]
use emmylua_formatter::verif::range as vr;
use emmylua_formatter::{LuaFormatConfig, SourceText, TextRange, reformat_range};
use emmylua_parser::LuaTokenKind;
use rowan::TextSize;
use serde_json::{Value, json};
use std::collections::{BTreeMap, HashSet};
use vh_common::{Args, Rng, guarded};
use vh_fmt::fmtgen::*;

fn tr(a: usize, b: usize) -> TextRange {
    TextRange::new(TextSize::from(a as u32), TextSize::from(b as u32))
}
fn rj(r: TextRange) -> Value {
    json!([u32::from(r.start()), u32::from(r.end())])
}
fn orj(r: Option<TextRange>) -> Value {
    match r {
        Some(r) => rj(r),
        None => json!(null),
    }
}
fn bytes_json(s: &str) -> Value {
    json!(s.as_bytes().iter().map(|b| *b as u32).collect::<Vec<u32>>())
}

// ------------------------------------------------------------------------------------------ generators

fn gen_lines_text(rng: &mut Rng) -> String {
    let n = rng.below(7);
    let mut s = String::new();
    for i in 0..n {
        let ind = *rng.pick(&["", "", "  ", "    ", "\t", " \t", "      "]);
        let body = *rng.pick(&["", "x", "local a = 1", "end", "  ", "é", "[[s", "]]", "-- c", "f(a,\tb)"]);
        s.push_str(ind);
        s.push_str(body);
        let last = i + 1 == n;
        match rng.below(6) {
            0 if last => {}
            1 => s.push_str("\r\n"),
            2 => s.push_str("\r"),
            _ => s.push('\n'),
        }
    }
    s
}

fn gen_range(rng: &mut Rng, len: usize) -> (usize, usize) {
    let a = rng.below(len + 4);
    let b = a + match rng.below(4) {
        0 => 0,
        1 => rng.below(3),
        _ => rng.below(len + 4),
    };
    (a, b)
}

fn layout_json(nodes: &[vr::LayoutDump]) -> Value {
    Value::Array(
        nodes
            .iter()
            .map(|n| json!({"r": orj(n.range), "syn": n.is_syntax, "blk": n.is_block, "ch": layout_json(&n.children)}))
            .collect(),
    )
}

/// selections of every class for a document
fn selections(rng: &mut Rng, text: &str) -> Vec<(&'static str, usize, usize)> {
    let len = text.len();
    let mut v = Vec::new();
    let tree = parse(text);
    let toks: Vec<(usize, usize)> = tree
        .get_red_root()
        .descendants_with_tokens()
        .filter_map(|e| e.into_token())
        .filter(|t| !matches!(t.kind().to_token(), LuaTokenKind::TkWhitespace | LuaTokenKind::TkEndOfLine))
        .map(|t| (u32::from(t.text_range().start()) as usize, u32::from(t.text_range().end()) as usize))
        .collect();
    let line_starts: Vec<usize> = std::iter::once(0).chain(text.match_indices('\n').map(|(i, _)| i + 1)).collect();
    v.push(("whole", 0, len));
    v.push(("beyond-end", len + 3, len + 10));
    v.push(("over-end", len / 2, len + 5));
    v.push(("empty-eof", len, len));
    v.push(("empty-start", 0, 0));
    if !toks.is_empty() {
        let (a, b) = toks[rng.below(toks.len())];
        v.push(("one-token", a, b));
        v.push(("empty-token-start", a, a));
        v.push(("empty-token-end", b, b));
        if b - a > 1 {
            let m = a + 1 + rng.below(b - a - 1);
            v.push(("empty-mid-token", m, m));
            v.push(("partial-token", a, m));
        }
        let (c, d) = toks[rng.below(toks.len())];
        let (lo, hi) = (a.min(c), b.max(d));
        v.push(("token-span", lo, hi));
    }
    if line_starts.len() > 1 {
        let i = rng.below(line_starts.len());
        let j = i + rng.below(line_starts.len() - i);
        let a = line_starts[i];
        let b = line_starts.get(j + 1).copied().unwrap_or(len);
        v.push(("lines", a, b));
        v.push(("empty-line-start", a, a));
        let e = line_starts.get(i + 1).map(|x| x - 1).unwrap_or(len);
        v.push(("one-line", a, e));
    }
    for _ in 0..2 {
        let (a, b) = gen_range(rng, len);
        v.push(("random", a, b));
    }
    v
}

// ------------------------------------------------------------------------------------------ oracle

#[derive(Debug, Clone)]
struct Viol {
    class: String,
    construct: String,
    what: String,
}

fn check(text: &str, sel: (usize, usize), cfg: &LuaFormatConfig) -> (Vec<Viol>, bool, bool) {
    let mut out = Vec::new();
    let tree = parse(text);
    let valid = !tree.has_syntax_errors();
    let src = SourceText { text, level: LEVEL };
    let r = match guarded(|| reformat_range(&src, tr(sel.0, sel.1), cfg)) {
        Ok(r) => r,
        Err(e) => {
            out.push(Viol { class: "range-format-panic".into(), construct: String::new(), what: format!("reformat_range panicked: {e}") });
            return (out, valid, false);
        }
    };
    let Some(res) = r else {
        return (out, valid, false);
    };
    if !valid {
        out.push(Viol { class: "errors-range-formatted".into(), construct: String::new(), what: "document with syntax errors got a range edit".into() });
        return (out, valid, true);
    }
    let (s, e) = (u32::from(res.replace_range.start()) as usize, u32::from(res.replace_range.end()) as usize);
    if !(s <= e && e <= text.len() && text.is_char_boundary(s) && text.is_char_boundary(e)) {
        out.push(Viol { class: "replace-range-invalid".into(), construct: String::new(), what: format!("replace range {s}..{e} is not a range of the document (len {})", text.len()) });
        return (out, valid, true);
    }
    // the replaced region covers the selected code: every code/comment token the clamped selection intersects
    let ub = text.len();
    let (ca, cb) = (sel.0.min(ub), sel.1.min(ub).max(sel.0.min(ub)));
    for t in tree.get_red_root().descendants_with_tokens().filter_map(|e| e.into_token()) {
        if matches!(t.kind().to_token(), LuaTokenKind::TkWhitespace | LuaTokenKind::TkEndOfLine | LuaTokenKind::TkShebang) {
            continue;
        }
        let (ta, tb) = (u32::from(t.text_range().start()) as usize, u32::from(t.text_range().end()) as usize);
        let hit = if ca == cb { ta < ca && ca < tb } else { ta < cb && ca < tb };
        if hit && !(s <= ta && tb <= e) {
            out.push(Viol {
                class: "selection-not-covered".into(),
                construct: format!("{:?}", t.kind().to_token()),
                what: format!("token {:?} at {ta}..{tb} intersects the selection {ca}..{cb} but the replaced region is {s}..{e}", t.text()),
            });
            break;
        }
    }
    let spliced = format!("{}{}{}", &text[..s], res.text, &text[e..]);
    if let Some((class, what, construct)) = same_code(text, &spliced, cfg) {
        // is it the formatter itself (C05) or the range machinery? format the whole document
        let whole = guarded(|| emmylua_formatter::reformat_lua_code(&src, cfg)).ok();
        let inherited = match &whole {
            Some(w) => same_code(text, w, cfg).is_some(),
            None => true,
        };
        let reindent = class.starts_with("reindent-inside-token");
        out.push(Viol {
            class: if inherited && !reindent { format!("formatter-defect:{class}") } else { format!("range-{class}") },
            construct,
            what: format!("{what} (after applying the range edit {s}..{e})"),
        });
    }
    (out, valid, true)
}

/// None when `after` is the same code as `before` (tokens up to the enabled normalisations, comment text up to blanks)
fn same_code(before: &str, after: &str, cfg: &LuaFormatConfig) -> Option<(String, String, String)> {
    let tree = parse(before);
    let tree2 = parse(after);
    if tree2.has_syntax_errors() {
        let e = tree2.get_errors().iter().find(|e| e.kind == emmylua_parser::LuaParseErrorKind::SyntaxError);
        let msg = e.map(|e| e.message.clone()).unwrap_or_default();
        let ctx = e.map(|e| construct_of(&context_at(&tree2, u32::from(e.range.start()) as usize))).unwrap_or_default();
        return Some(("output-syntax-error".into(), format!("the result has a syntax error: {msg}"), ctx));
    }
    let flags = NormFlags::of(cfg);
    let c1 = canon(&tree, &flags);
    let c2 = canon(&tree2, &flags);
    if c1.tokens != c2.tokens {
        let i = c1.tokens.iter().zip(c2.tokens.iter()).take_while(|(a, b)| a == b).count();
        let a = c1.tokens.get(i);
        let b = c2.tokens.get(i);
        let kind = a.or(b).map(|t| t.kind.clone()).unwrap_or_default();
        // a string token whose text changed only in blanks: re-indentation reached inside a multi-line token
        let reindent = match (a, b) {
            (Some(a), Some(b)) => a.kind == b.kind && (a.kind == "TkLongString" || a.kind == "TkString") && a.text.contains('\n') && nonblank(&a.text) == nonblank(&b.text),
            _ => false,
        };
        let class = if reindent { format!("reindent-inside-token:{kind}") } else { "code-token".to_string() };
        let around: Vec<String> = (i.saturating_sub(1)..=i).filter_map(|j| c1.tokens.get(j).map(|t| t.kind.clone())).collect();
        let construct = if reindent { String::new() } else { around.join(",") };
        return Some((class, format!("code token #{i} differs: source {:?}, result {:?}", a.map(|t| t.text.clone()), b.map(|t| t.text.clone())), construct));
    }
    let t1: String = c1.comments.iter().map(|c| c.text_nb.as_str()).collect();
    let t2: String = c2.comments.iter().map(|c| c.text_nb.as_str()).collect();
    if t1 != t2 {
        let k = t1.chars().zip(t2.chars()).take_while(|(x, y)| x == y).count();
        let mut kk = k;
        let mut cons = String::new();
        for c in &c1.comments {
            let n = c.text_nb.chars().count();
            if kk < n {
                cons = construct_of(&nonblank_context(&c.raw, kk));
                break;
            }
            kk -= n;
        }
        return Some(("comment-text".into(), "comment text differs".into(), cons));
    }
    // long comments are single tokens: a change of their continuation lines is a change of the token
    for (a, b) in c1.comments.iter().zip(c2.comments.iter()) {
        if a.raw.starts_with("--[") && a.raw.contains('\n') {
            let la: Vec<&str> = a.raw.lines().skip(1).collect();
            let lb: Vec<&str> = b.raw.lines().skip(1).collect();
            if la != lb {
                return Some(("reindent-inside-token:long-comment".into(), format!("a long comment was re-indented inside: {:?} became {:?}", a.raw, b.raw), String::new()));
            }
        }
    }
    None
}

fn classes(text: &str, sel: (usize, usize), cfgj: &Value) -> Vec<(String, String)> {
    check(text, sel, &cfg_from_json(cfgj)).0.into_iter().map(|v| (v.class, v.construct)).collect()
}

/// minimal set of non-default options (or the construct, under the default configuration) + signature
fn narrow(text: &str, sel: (usize, usize), cfgj: &Value, v: &Viol) -> (Value, String) {
    narrow_signature(cfgj, &v.class, &|c: &Value| classes(text, sel, c))
}

/// shrink lines that lie completely after the selection (selection offsets stay valid)
fn shrink(text: &str, sel: (usize, usize), cfgj: &Value, class: &str) -> String {
    let cut = sel.1.min(text.len());
    let cut = (cut..=text.len()).find(|i| text.is_char_boundary(*i)).unwrap_or(text.len());
    let (head, tail) = text.split_at(cut);
    let lines: Vec<String> = tail.split_inclusive('\n').map(|s| s.to_string()).collect();
    let still = |ls: &[String]| -> bool {
        let t = format!("{}{}", head, ls.concat());
        classes(&t, sel, cfgj).iter().any(|(k, _)| k == class)
    };
    let mut budget = 300usize;
    let kept = if lines.len() > 1 { ddmin(lines, &still, &mut budget, true) } else { lines };
    let t = format!("{}{}", head, kept.concat());
    if classes(&t, sel, cfgj).iter().any(|(k, _)| k == class) { t } else { text.to_string() }
}

fn main() {
    let args = Args::parse();
    let seed = args.u64("seed", 1);
    let n = args.usize("n", 100);
    let mut rng = Rng::new(seed ^ 0xC07);
    match args.cmd.as_str() {
        "corr" => {
            // range arithmetic
            for _ in 0..n {
                let ub = rng.below(30);
                let (a, b) = gen_range(&mut rng, 24);
                let (c, d) = gen_range(&mut rng, 24);
                let cl = vr::clamp_range(tr(a, b), TextSize::from(ub as u32));
                println!(
                    "{}",
                    json!({"kind": "arith", "a": [a, b], "b": [c, d], "ub": ub, "clamp": rj(cl),
                           "contains": vr::contains_range(tr(a, b), tr(c, d)), "intersects": vr::intersects_range(tr(a, b), tr(c, d))})
                );
            }
            // lines
            let fixed = ["", "\n", "a", "a\n", "\n\n", "ab\ncd", "ab\r\ncd\r\n", "  x\n\ty\n", "é\nü"];
            let texts: Vec<String> = fixed.iter().map(|s| s.to_string()).chain((0..n).map(|_| gen_lines_text(&mut rng))).collect();
            for t in &texts {
                let len = t.len();
                let ls: Vec<usize> = (0..=len + 2).map(|o| vr::line_start_offset(t, o)).collect();
                let le: Vec<usize> = (0..=len + 2).map(|o| vr::line_end_offset(t, o)).collect();
                let mut ex = Vec::new();
                for _ in 0..6 {
                    let (a, b) = gen_range(&mut rng, len);
                    // expand_to_full_lines is only called with ranges clamped to the document
                    let (a, b) = (a.min(len), b.min(len).max(a.min(len)));
                    ex.push(json!([a, b, rj(vr::expand_to_full_lines(t, tr(a, b)))]));
                }
                println!("{}", json!({"kind": "lines", "t": bytes_json(t), "ls": ls, "le": le, "expand": ex}));
            }
            // indentation
            for t in &texts {
                for p in ["", " ", "  ", "    ", "\t", " \t"] {
                    let st = vr::strip_base_indent(t, p);
                    let ap = vr::apply_base_indent(t, p);
                    let splits: Vec<Value> = t
                        .split_inclusive('\n')
                        .map(|l| {
                            let (c, nl) = vr::split_line_ending(l);
                            json!([c.len(), nl.len()])
                        })
                        .collect();
                    println!("{}", json!({"kind": "indent", "t": bytes_json(t), "p": bytes_json(p), "strip": bytes_json(&st), "apply": bytes_json(&ap), "split": splits}));
                }
            }
            // selection on real layout plans
            let nsel = args.usize("nsel", n / 2);
            let mut emitted = 0;
            let mut tries = 0;
            while emitted < nsel && tries < nsel * 5 {
                tries += 1;
                let text = if tries % 4 == 0 {
                    let stds = std_files();
                    let (_, t) = &stds[rng.below(stds.len())];
                    let lines: Vec<&str> = t.split_inclusive('\n').collect();
                    let len = 5 + rng.below(25);
                    let start = rng.below(lines.len().saturating_sub(len).max(1));
                    lines[start..(start + len).min(lines.len())].concat()
                } else {
                    gen_program(&mut rng, 5)
                };
                if text.len() > 1500 {
                    continue;
                }
                let cfg = cfg_from_json(&gen_cfg(&mut rng));
                let sels = selections(&mut rng, &text);
                let (class, a, b) = sels[rng.below(sels.len())];
                let src = SourceText { text: &text, level: LEVEL };
                let Ok(Some(trace)) = guarded(|| vr::select_trace(&src, tr(a, b), &cfg)) else { continue };
                println!(
                    "{}",
                    json!({"kind": "select", "class": class, "t": bytes_json(&text), "sel": [a, b], "ub": u32::from(trace.upper_bound),
                           "clamped": rj(trace.clamped), "tree": layout_json(&trace.root_nodes), "deepest": orj(trace.deepest_block_slice),
                           "overlapping": orj(trace.overlapping_root_slice), "explicit": orj(trace.explicit_target), "selected": orj(trace.selected)})
                );
                emitted += 1;
            }
        }
        "search" => {
            let maxstat = args.usize("maxstat", 8);
            let stds = std_files();
            let mut dist: BTreeMap<String, usize> = BTreeMap::new();
            let mut distinct = HashSet::new();
            let mut reported: HashSet<String> = HashSet::new();
            let (mut cases, mut docs, mut edits, mut nviol) = (0usize, 0usize, 0usize, 0usize);
            // hand-written witnesses first
            let mut inputs: Vec<(String, String, Value)> = corpus_files("C07").into_iter().map(|(n, t)| (n, t, json!({}))).collect();
            // witnesses of known findings: exact selection and configuration
            for (name, v) in corpus_json("C07") {
                let (Some(t), Some(sel)) = (v.get("text").and_then(|t| t.as_str()), v.get("sel").and_then(|s| s.as_array())) else { continue };
                let (a, b) = (sel[0].as_u64().unwrap_or(0) as usize, sel[1].as_u64().unwrap_or(0) as usize);
                let cfgj = v.get("cfg").cloned().unwrap_or(json!({}));
                let cfg = cfg_from_json(&cfgj);
                cases += 1;
                let (viols, _, _) = check(t, (a, b), &cfg);
                for vi in viols {
                    nviol += 1;
                    let (cfgmin, sig) = narrow(t, (a, b), &cfgj, &vi);
                    if reported.insert(sig.clone()) {
                        println!("{}", json!({"signature": sig, "what": vi.what, "class": "corpus", "name": name, "text": t, "sel": [a, b], "cfg": cfgmin}));
                    }
                }
            }
            let ncorpus = inputs.len();
            while inputs.len() < n + ncorpus {
                let i = inputs.len();
                // at least half of the documents run under the default configuration
                let cfg = if rng.chance(1, 2) { json!({}) } else { gen_cfg(&mut rng) };
                let text = match i % 6 {
                    0 | 1 if !stds.is_empty() => {
                        let (_, t) = &stds[rng.below(stds.len())];
                        let lines: Vec<&str> = t.split_inclusive('\n').collect();
                        let len = 5 + rng.below(40);
                        let start = rng.below(lines.len().saturating_sub(len).max(1));
                        lines[start..(start + len).min(lines.len())].concat()
                    }
                    2 if !stds.is_empty() => {
                        let (_, t) = &stds[rng.below(stds.len())];
                        mutate(&mut rng, t)
                    }
                    _ => gen_program(&mut rng, maxstat),
                };
                inputs.push((format!("case{i}"), text, cfg));
            }
            for (name, text, cfgj) in &inputs {
                docs += 1;
                let cfg = cfg_from_json(cfgj);
                for (class, a, b) in selections(&mut rng, text) {
                    cases += 1;
                    let (viols, valid, edited) = check(text, (a, b), &cfg);
                    *dist.entry(format!("{}{}", class, if valid { "" } else { "-syntax-error" })).or_default() += 1;
                    if edited {
                        edits += 1;
                    }
                    if text.len() > 20 {
                        distinct.insert((text.clone(), a, b, cfgj.to_string()));
                    }
                    for v in viols {
                        nviol += 1;
                        let (cfgmin, sig) = narrow(text, (a, b), cfgj, &v);
                        if !reported.insert(sig.clone()) {
                            continue;
                        }
                        let small = shrink(text, (a, b), &cfgmin, &v.class);
                        let what = check(&small, (a, b), &cfg_from_json(&cfgmin)).0.iter().find(|x| x.class == v.class).map(|x| x.what.clone()).unwrap_or(v.what.clone());
                        println!("{}", json!({"signature": sig, "what": what, "class": class, "name": name, "text": small, "sel": [a, b], "cfg": cfgmin}));
                    }
                }
            }
            println!(
                "{}",
                json!({"summary": {"cases": cases, "documents": docs, "default_configuration_documents": inputs.iter().filter(|(_, _, c)| nondefault_opts(c).is_empty()).count(), "distinct_signatures": reported.len(), "edits_returned": edits, "distinct_nontrivial": distinct.len(), "violating_cases": nviol, "by_selection_class": dist}})
            );
        }
        "one" => {
            let text = std::fs::read_to_string(args.str("file", "")).unwrap_or_default();
            let cfgj: Value = serde_json::from_str(&args.str("cfg", "{}")).unwrap_or(json!({}));
            let cfg = cfg_from_json(&cfgj);
            let sel: Vec<usize> = args.str("sel", "0,0").split(',').filter_map(|x| x.parse().ok()).collect();
            let sel = (sel[0], sel[1]);
            let src = SourceText { text: &text, level: LEVEL };
            let r = guarded(|| reformat_range(&src, tr(sel.0, sel.1), &cfg));
            match &r {
                Ok(Some(o)) => println!("{}", json!({"replace": rj(o.replace_range), "text": o.text})),
                Ok(None) => println!("{}", json!({"replace": null})),
                Err(e) => println!("{}", json!({"panic": e})),
            }
            for v in check(&text, sel, &cfg).0 {
                let (cfgmin, sig) = narrow(&text, sel, &cfgj, &v);
                println!("{}", json!({"signature": sig, "what": v.what, "text": text, "sel": [sel.0, sel.1], "cfg": cfgmin}));
            }
        }
        _ => {
            eprintln!("usage: c07 corr|search|one");
            std::process::exit(2);
        }
    }
}
