// shared helpers for vh_ls bins
