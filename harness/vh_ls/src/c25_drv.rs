//! Shared by the C25 / C26 harnesses (included with `#[path]`): drive the REAL language server in-process
//! through the hook `emmylua_ls::verif_serve` on `lsp_server::Connection::memory()`.
//!
//! * one server instance per `Server::start`, any number of documents / requests;
//! * a panic inside a spawned handler task produced no response before the C24 fix and an InternalError (-32603)
//!   response after it: the process-wide panic hook installed here records message + location, and `request`
//!   reports `Outcome::Panic` for an InternalError response or when the panic counter moved and no response
//!   arrived, `Outcome::Timeout` when nothing happened at all;
//! * the client capabilities always carry `workspace` (otherwise the server skips its whole initialisation);
//! * server -> client requests (configuration, registerCapability, progress, applyEdit) are answered.
#![allow(dead_code)]
use emmylua_ls::{CmdArgs, Parser, verif_serve};
use lsp_server::{Connection, Message, Notification, Request, RequestId, Response};
use serde_json::{Value, json};
use std::sync::Mutex;
use std::time::{Duration, Instant};

pub static PANICS: Mutex<Vec<String>> = Mutex::new(Vec::new());

pub fn install_panic_hook() {
    static ONCE: std::sync::Once = std::sync::Once::new();
    ONCE.call_once(|| {
        std::panic::set_hook(Box::new(|info| {
            let msg = if let Some(s) = info.payload().downcast_ref::<&str>() {
                s.to_string()
            } else if let Some(s) = info.payload().downcast_ref::<String>() {
                s.clone()
            } else {
                "panic".to_string()
            };
            let loc = info
                .location()
                .map(|l| {
                    let f = l.file();
                    // keep the path from "crates/" or the crate name on, drop machine-specific prefixes
                    let f = f.find("crates/").map(|i| &f[i..]).unwrap_or_else(|| {
                        // registry sources: drop ".../registry/src/<index>/"
                        f.rfind("/registry/src/")
                            .map(|i| &f[i + 14..])
                            .map(|r| r.find('/').map(|j| &r[j + 1..]).unwrap_or(r))
                            .unwrap_or(f)
                    });
                    format!("{}:{}", f, l.line())
                })
                .unwrap_or_default();
            if let Ok(mut p) = PANICS.lock() {
                p.push(format!("{} @ {}", msg, loc));
            }
        }));
    });
}

pub fn panic_count() -> usize {
    PANICS.lock().map(|p| p.len()).unwrap_or(0)
}

pub fn last_panic() -> String {
    PANICS.lock().ok().and_then(|p| p.last().cloned()).unwrap_or_default()
}

#[derive(Debug, Clone)]
pub enum Outcome {
    Ok(Value),
    Err(Value),
    /// the handler task panicked: no response, or (since the C24 fix) an InternalError response; panic hook fired
    Panic(String),
    /// no response and no panic within the timeout
    Timeout,
}

impl Outcome {
    pub fn tag(&self) -> &'static str {
        match self {
            Outcome::Ok(v) if v.is_null() => "null",
            Outcome::Ok(_) => "result",
            Outcome::Err(_) => "error",
            Outcome::Panic(_) => "panic",
            Outcome::Timeout => "timeout",
        }
    }
    pub fn responded(&self) -> bool {
        matches!(self, Outcome::Ok(_) | Outcome::Err(_))
    }
}

pub struct Server {
    conn: Connection,
    next_id: i32,
    pub root: String,
    pub dir: std::path::PathBuf,
    pub init_result: Value,
    pub requests: u64,
    /// server -> client `workspace/applyEdit` payloads seen so far
    pub apply_edits: Vec<Value>,
}

impl Server {
    /// `files`: (relative name, text) written to the workspace directory before the server starts
    pub fn start(tag: &str, client_caps: Value, files: &[(String, String)]) -> Server {
        install_panic_hook();
        let rt = tokio::runtime::Builder::new_multi_thread().worker_threads(4).enable_all().build().unwrap();
        let (server, client) = Connection::memory();
        let dir = std::env::temp_dir().join(format!("vh_ls_{}_{}", tag, std::process::id()));
        let _ = std::fs::remove_dir_all(&dir);
        std::fs::create_dir_all(&dir).unwrap();
        for (name, text) in files {
            let p = dir.join(name);
            if let Some(parent) = p.parent() {
                let _ = std::fs::create_dir_all(parent);
            }
            std::fs::write(p, text).unwrap();
        }
        let root = format!("file://{}", dir.display());
        // without `capabilities.workspace` the server's initialized handler returns before loading the configuration,
        // the std library and the workspace files (`params.capabilities.workspace.as_ref()?`)
        let mut client_caps = client_caps;
        if client_caps.get("workspace").is_none() {
            client_caps["workspace"] = json!({"configuration": true, "workspaceFolders": true});
        }
        std::thread::spawn(move || {
            rt.block_on(async move {
                let args = CmdArgs::parse_from(["emmylua_ls"]);
                let _ = verif_serve(server, args).await;
            });
        });
        client
            .sender
            .send(Message::Request(Request::new(
                0.into(),
                "initialize".into(),
                json!({"processId": null, "rootUri": root, "capabilities": client_caps,
                       "workspaceFolders": [{"uri": root, "name": "w"}]}),
            )))
            .unwrap();
        let init = client.receiver.recv_timeout(Duration::from_secs(60)).expect("initialize response");
        let init_result = match init {
            Message::Response(r) => r.result.unwrap_or(Value::Null),
            _ => Value::Null,
        };
        client.sender.send(Message::Notification(Notification::new("initialized".into(), json!({})))).unwrap();
        let mut s = Server { conn: client, next_id: 1, root, dir, init_result, requests: 0, apply_edits: Vec::new() };
        // wait until the workspace is loaded: a document symbol request on a fresh document answers non-null
        std::thread::sleep(Duration::from_millis(500));
        let uri = s.open("__warmup.lua", "local warm = 1\n");
        let t0 = Instant::now();
        loop {
            let r = s.request("textDocument/documentSymbol", json!({"textDocument": {"uri": uri}}), Duration::from_secs(60));
            if let Outcome::Ok(v) = &r {
                if !v.is_null() {
                    break;
                }
            }
            if t0.elapsed() > Duration::from_secs(300) {
                eprintln!("server warm-up failed: {:?}", r);
                std::process::exit(3);
            }
            std::thread::sleep(Duration::from_millis(200));
        }
        s
    }

    pub fn uri_of(&self, name: &str) -> String {
        format!("{}/{}", self.root, name)
    }

    pub fn notify(&self, method: &str, params: Value) {
        let _ = self.conn.sender.send(Message::Notification(Notification::new(method.into(), params)));
    }

    /// didOpen (spawned by the server) followed by a full-text didChange (handled inline by the main loop):
    /// every later request sees `text`.
    pub fn open(&mut self, name: &str, text: &str) -> String {
        let uri = self.uri_of(name);
        self.notify("textDocument/didOpen", json!({"textDocument": {"uri": uri, "languageId": "lua", "version": 1, "text": text}}));
        self.change(&uri, text, 2);
        uri
    }

    pub fn change(&mut self, uri: &str, text: &str, version: i32) {
        self.notify(
            "textDocument/didChange",
            json!({"textDocument": {"uri": uri, "version": version}, "contentChanges": [{"text": text}]}),
        );
    }

    pub fn close(&mut self, uri: &str) {
        self.notify("textDocument/didClose", json!({"textDocument": {"uri": uri}}));
    }

    fn answer_server_request(&mut self, req: Request) {
        let result = match req.method.as_str() {
            "workspace/configuration" => {
                let n = req.params.get("items").and_then(|i| i.as_array()).map(|a| a.len()).unwrap_or(1);
                Value::Array(vec![Value::Null; n])
            }
            "workspace/applyEdit" => {
                self.apply_edits.push(req.params.clone());
                json!({"applied": true})
            }
            _ => Value::Null,
        };
        let _ = self.conn.sender.send(Message::Response(Response::new_ok(req.id, result)));
    }

    pub fn request(&mut self, method: &str, params: Value, timeout: Duration) -> Outcome {
        let id = self.next_id;
        self.next_id += 1;
        self.requests += 1;
        let rid: RequestId = id.into();
        let p0 = panic_count();
        if self.conn.sender.send(Message::Request(Request::new(rid.clone(), method.into(), params))).is_err() {
            return Outcome::Timeout;
        }
        let t0 = Instant::now();
        let mut panic_seen_at: Option<Instant> = None;
        loop {
            match self.conn.receiver.recv_timeout(Duration::from_millis(50)) {
                Ok(Message::Response(r)) => {
                    if r.id == rid {
                        return match r.error {
                            // since the C24 fix a handler panic is answered with InternalError (-32603, "internal error"):
                            // the task crashed all the same
                            Some(e) if e.code == -32603 => {
                                if panic_count() > p0 {
                                    Outcome::Panic(last_panic())
                                } else {
                                    Outcome::Panic(format!("InternalError response: {} @ ", e.message))
                                }
                            }
                            Some(e) => Outcome::Err(serde_json::to_value(e).unwrap_or(Value::Null)),
                            None => Outcome::Ok(r.result.unwrap_or(Value::Null)),
                        };
                    }
                }
                Ok(Message::Request(req)) => self.answer_server_request(req),
                Ok(Message::Notification(_)) => {}
                Err(_) => {}
            }
            if panic_count() > p0 {
                // a panic happened since this request was sent; give the response a grace period
                match panic_seen_at {
                    None => panic_seen_at = Some(Instant::now()),
                    Some(t) if t.elapsed() > Duration::from_millis(1500) => return Outcome::Panic(last_panic()),
                    _ => {}
                }
            }
            if t0.elapsed() > timeout {
                return Outcome::Timeout;
            }
        }
    }

    /// the server still answers: an unknown method must get a MethodNotFound error response,
    /// and a document request must get a result
    pub fn alive(&mut self) -> bool {
        let a = self.request("verif/ping", json!({}), Duration::from_secs(20));
        let uri = self.uri_of("__warmup.lua");
        let b = self.request("textDocument/documentSymbol", json!({"textDocument": {"uri": uri}}), Duration::from_secs(20));
        matches!(a, Outcome::Err(_)) && matches!(b, Outcome::Ok(_))
    }

    pub fn cleanup(&self) {
        let _ = std::fs::remove_dir_all(&self.dir);
    }
}

/// UTF-16 LSP position of byte offset `o` in `text` with the LSP line terminators (\n, \r\n, lone \r)
pub fn lsp_pos(text: &str, o: usize) -> (u32, u32) {
    let mut line = 0u32;
    let mut col = 0u32;
    let b = text.as_bytes();
    let mut i = 0usize;
    for (idx, c) in text.char_indices() {
        if idx >= o {
            break;
        }
        i = idx;
        if c == '\n' || (c == '\r' && b.get(i + 1) != Some(&b'\n')) {
            line += 1;
            col = 0;
        } else {
            col += c.len_utf16() as u32;
        }
    }
    (line, col)
}

/// per line: (start byte, end byte excluding the terminator, UTF-16 length)
pub fn line_table(text: &str) -> Vec<(usize, usize, u32)> {
    let b = text.as_bytes();
    let mut out = Vec::new();
    let mut start = 0usize;
    let mut u16 = 0u32;
    let mut it = text.char_indices().peekable();
    while let Some((i, c)) = it.next() {
        if c == '\n' {
            out.push((start, i, u16));
            start = i + 1;
            u16 = 0;
        } else if c == '\r' {
            if b.get(i + 1) == Some(&b'\n') {
                // CR of a CRLF: belongs to the terminator
                out.push((start, i, u16));
                it.next();
                start = i + 2;
                u16 = 0;
            } else {
                out.push((start, i, u16));
                start = i + 1;
                u16 = 0;
            }
        } else {
            u16 += c.len_utf16() as u32;
        }
    }
    out.push((start, text.len(), u16));
    out
}
