//! Lua document generator shared by the C25 / C26 harnesses (included with `#[path]`).
//! Structured, mostly-valid programs (nested functions, tables, doc comments, regions, long strings/comments,
//! non-ASCII text) plus a malformed stream (truncations, unterminated strings/comments, token soup).
#![allow(dead_code)]
use vh_common::Rng;

#[derive(Clone, Copy, Debug, PartialEq, Eq)]
pub enum Mode {
    Ascii,
    Crlf,
    Unicode,
    Truncated,
    Unterminated,
    Soup,
    Blank,
    MixedEol,
}

pub const MODES: &[Mode] = &[
    Mode::Ascii,
    Mode::Crlf,
    Mode::Unicode,
    Mode::Truncated,
    Mode::Unterminated,
    Mode::Soup,
    Mode::Blank,
    Mode::MixedEol,
    Mode::Ascii,
    Mode::Unicode,
];

pub fn mode_name(m: Mode) -> &'static str {
    match m {
        Mode::Ascii => "ascii",
        Mode::Crlf => "crlf",
        Mode::Unicode => "unicode",
        Mode::Truncated => "truncated",
        Mode::Unterminated => "unterminated",
        Mode::Soup => "soup",
        Mode::Blank => "blank",
        Mode::MixedEol => "mixed-eol",
    }
}

struct G<'a> {
    rng: &'a mut Rng,
    uni: bool,
    out: String,
    names: Vec<String>,
    classes: Vec<String>,
    budget: i32,
}

const ASCII_NAMES: &[&str] = &["a", "b", "x", "y", "value", "count", "self_", "tbl", "cfg", "item", "idx", "res"];
const UNI_NAMES: &[&str] = &["a", "x", "été", "名前", "tbl", "ß", "значение", "cfg"];
const STRS: &[&str] = &["hello", "", "a b", "x\\ny", "%d items", "\\\"q\\\"", "path/to/file"];
const UNI_STRS: &[&str] = &["héllo", "😀", "中文字符", "a😀b😀", "𝒳y", "naïve — dash", "\u{2028}sep"];

impl<'a> G<'a> {
    fn ind(&mut self, d: usize) {
        for _ in 0..d {
            self.out.push_str("    ");
        }
    }
    fn name(&mut self) -> String {
        let pool = if self.uni && self.rng.chance(1, 2) { UNI_NAMES } else { ASCII_NAMES };
        let base = self.rng.pick(pool).to_string();
        if self.rng.chance(1, 3) { format!("{}{}", base, self.rng.below(9)) } else { base }
    }
    fn known(&mut self) -> String {
        if self.names.is_empty() || self.rng.chance(1, 6) {
            self.name()
        } else {
            let i = self.rng.below(self.names.len());
            self.names[i].clone()
        }
    }
    fn string(&mut self) -> String {
        let s = if self.uni && self.rng.chance(2, 3) { self.rng.pick(UNI_STRS).to_string() } else { self.rng.pick(STRS).to_string() };
        match self.rng.below(5) {
            0 => format!("'{}'", s.replace('\'', "")),
            1 => {
                let mid = if self.uni { self.rng.pick(UNI_STRS).to_string() } else { "middle".to_string() };
                format!("[[{}\n{} middle {}\nlast line {}]]", s, mid, s, s)
            }
            2 => format!("[==[{}]==]", s),
            _ => format!("\"{}\"", s),
        }
    }
    fn expr(&mut self, depth: usize, ind: usize) -> String {
        self.budget -= 1;
        if depth == 0 || self.budget <= 0 {
            return match self.rng.below(6) {
                0 => format!("{}", self.rng.below(1000)),
                1 => self.string(),
                2 => "nil".into(),
                3 => "true".into(),
                4 => "0x1F".into(),
                _ => self.known(),
            };
        }
        match self.rng.below(12) {
            0 => format!("{} + {}", self.expr(depth - 1, ind), self.expr(depth - 1, ind)),
            1 => format!("{} .. {}", self.expr(depth - 1, ind), self.string()),
            2 => format!("({} or {})", self.expr(depth - 1, ind), self.expr(depth - 1, ind)),
            3 => format!("not {}", self.expr(depth - 1, ind)),
            4 => format!("{}.{}", self.known(), self.name()),
            5 => format!("{}[{}]", self.known(), self.expr(depth - 1, ind)),
            6 => {
                let n = self.rng.below(3);
                let args: Vec<String> = (0..n).map(|_| self.expr(depth - 1, ind)).collect();
                format!("{}({})", self.known(), args.join(", "))
            }
            7 => {
                let n = self.rng.below(3);
                let args: Vec<String> = (0..n).map(|_| self.expr(depth - 1, ind)).collect();
                format!("{}:{}({})", self.known(), self.name(), args.join(", "))
            }
            8 => self.table(depth - 1, ind),
            9 => {
                let p = self.name();
                let mut s = format!("function({}, ...)\n", p);
                let saved = std::mem::take(&mut self.out);
                self.block(depth - 1, ind + 1);
                let body = std::mem::replace(&mut self.out, saved);
                s.push_str(&body);
                for _ in 0..ind {
                    s.push_str("    ");
                }
                s.push_str("end");
                s
            }
            10 => format!("#{}", self.known()),
            _ => format!("{} == {}", self.expr(depth - 1, ind), self.expr(depth - 1, ind)),
        }
    }
    fn table(&mut self, depth: usize, ind: usize) -> String {
        let n = self.rng.below(4);
        if n == 0 {
            return "{}".into();
        }
        let multi = self.rng.chance(1, 2);
        let mut parts = Vec::new();
        for _ in 0..n {
            let p = match self.rng.below(4) {
                0 => format!("{} = {}", self.name(), self.expr(depth, ind + 1)),
                1 => format!("[{}] = {}", self.expr(0, ind), self.expr(depth, ind + 1)),
                2 => format!("[{}] = {}", self.string(), self.expr(depth, ind + 1)),
                _ => self.expr(depth, ind + 1),
            };
            parts.push(p);
        }
        if multi {
            let pad = "    ".repeat(ind + 1);
            let end = "    ".repeat(ind);
            let body: Vec<String> = parts.iter().map(|p| format!("{}{},", pad, p)).collect();
            format!("{{\n{}\n{}}}", body.join("\n"), end)
        } else {
            format!("{{ {} }}", parts.join(", "))
        }
    }
    fn doc_comment(&mut self, ind: usize) {
        let k = self.rng.below(9);
        self.ind(ind);
        let n = self.name();
        let desc = if self.uni { "описание 😀 value" } else { "some description" };
        match k {
            0 => self.out.push_str(&format!("---@type {}\n", self.rng.pick(&["number", "string?", "table<string, number>", "fun(a: number): string", "integer[]"]))),
            1 => self.out.push_str(&format!("---@param {} number {}\n", n, desc)),
            2 => self.out.push_str(&format!("---@return string {}\n", desc)),
            3 => {
                self.out.push_str(&format!("--- {}\n", desc));
                self.ind(ind);
                self.out.push_str("--- ```lua\n");
                self.ind(ind);
                self.out.push_str("--- local z = 1\n");
                self.ind(ind);
                self.out.push_str("--- ```\n");
            }
            4 => self.out.push_str(&format!("---@alias {}Alias \"a\" | \"b\" | {}\n", n.replace(|c: char| !c.is_ascii_alphanumeric(), "A"), self.rng.below(9))),
            5 => self.out.push_str("---@diagnostic disable-next-line: undefined-global\n"),
            6 => self.out.push_str(&format!("--- **bold** `code` [link](http://x) {}\n", desc)),
            7 => self.out.push_str(&format!("---@generic T\n")),
            _ => self.out.push_str(&format!("---@deprecated {}\n", desc)),
        }
    }
    fn stat(&mut self, depth: usize, ind: usize) {
        self.budget -= 1;
        let k = if depth == 0 || self.budget <= 0 { self.rng.below(8) } else { self.rng.below(22) };
        match k {
            0 | 1 => {
                if self.rng.chance(1, 3) {
                    self.doc_comment(ind);
                }
                let n = self.name();
                let e = self.expr(depth.min(2), ind);
                self.ind(ind);
                self.out.push_str(&format!("local {} = {}\n", n, e));
                self.names.push(n);
            }
            2 => {
                let n = self.known();
                let e = self.expr(depth.min(2), ind);
                self.ind(ind);
                self.out.push_str(&format!("{} = {}\n", n, e));
            }
            3 => {
                let e = self.expr(depth.min(1), ind);
                let f = self.rng.pick(&["print", "assert", "tostring", "type", "pairs", "string.format", "table.insert"]).to_string();
                self.ind(ind);
                self.out.push_str(&format!("{}({})\n", f, e));
            }
            4 => {
                self.ind(ind);
                let c = if self.uni { "-- комментарий 😀 text\n" } else { "-- a plain comment\n" };
                self.out.push_str(c);
            }
            5 => {
                let u = if self.uni { " 😀 длинный 中" } else { "" };
                self.ind(ind);
                self.out.push_str(&format!("--[[ long{}\n", u));
                self.ind(ind);
                self.out.push_str(&format!("   more{} text\n", u));
                self.ind(ind);
                self.out.push_str("   comment ]]\n");
            }
            6 => {
                self.out.push('\n');
            }
            7 => {
                let n = self.known();
                let m = self.name();
                self.ind(ind);
                self.out.push_str(&format!("{}.{} = {}\n", n, m, self.rng.below(100)));
            }
            8 | 9 => {
                // local function with doc
                let f = self.name();
                let p1 = self.name();
                let p2 = self.name();
                if self.rng.chance(2, 3) {
                    self.ind(ind);
                    self.out.push_str(&format!("---@param {} number\n", p1));
                    self.ind(ind);
                    self.out.push_str(&format!("---@param {} string?\n", p2));
                    self.ind(ind);
                    self.out.push_str("---@return number\n");
                }
                self.ind(ind);
                self.out.push_str(&format!("local function {}({}, {})\n", f, p1, p2));
                self.names.push(f);
                let mark = self.names.len();
                self.names.push(p1.clone());
                self.names.push(p2);
                self.block(depth - 1, ind + 1);
                self.ind(ind + 1);
                self.out.push_str(&format!("return {}\n", p1));
                self.ind(ind);
                self.out.push_str("end\n");
                self.names.truncate(mark);
            }
            10 => {
                // class with fields and methods
                let c = format!("Cls{}", self.rng.below(50));
                self.ind(ind);
                self.out.push_str(&format!("---@class {}\n", c));
                self.ind(ind);
                self.out.push_str("---@field name string\n");
                self.ind(ind);
                self.out.push_str("---@field size number?\n");
                self.ind(ind);
                self.out.push_str(&format!("local {} = {{}}\n", c));
                self.names.push(c.clone());
                self.classes.push(c.clone());
                let m = self.name();
                self.ind(ind);
                self.out.push_str(&format!("function {}:{}(v)\n", c, m));
                self.block(depth - 1, ind + 1);
                self.ind(ind + 1);
                self.out.push_str("return self.name\n");
                self.ind(ind);
                self.out.push_str("end\n");
                self.ind(ind);
                self.out.push_str(&format!("function {}.new()\n", c));
                self.ind(ind + 1);
                self.out.push_str(&format!("return setmetatable({{}}, {{ __index = {} }})\n", c));
                self.ind(ind);
                self.out.push_str("end\n");
            }
            11 => {
                let c = self.expr(1, ind);
                self.ind(ind);
                self.out.push_str(&format!("if {} then\n", c));
                self.block(depth - 1, ind + 1);
                if self.rng.chance(1, 2) {
                    let c2 = self.expr(1, ind);
                    self.ind(ind);
                    self.out.push_str(&format!("elseif {} then\n", c2));
                    self.block(depth - 1, ind + 1);
                }
                if self.rng.chance(1, 2) {
                    self.ind(ind);
                    self.out.push_str("else\n");
                    self.block(depth - 1, ind + 1);
                }
                self.ind(ind);
                self.out.push_str("end\n");
            }
            12 => {
                let v = self.name();
                self.ind(ind);
                self.out.push_str(&format!("for {} = 1, {} do\n", v, self.rng.below(20)));
                self.names.push(v);
                self.block(depth - 1, ind + 1);
                self.names.pop();
                self.ind(ind);
                self.out.push_str("end\n");
            }
            13 => {
                let k = self.name();
                let v = self.name();
                let t = self.known();
                self.ind(ind);
                self.out.push_str(&format!("for {}, {} in pairs({}) do\n", k, v, t));
                self.names.push(k);
                self.names.push(v);
                self.block(depth - 1, ind + 1);
                self.names.pop();
                self.names.pop();
                self.ind(ind);
                self.out.push_str("end\n");
            }
            14 => {
                let c = self.expr(1, ind);
                self.ind(ind);
                self.out.push_str(&format!("while {} do\n", c));
                self.block(depth - 1, ind + 1);
                self.ind(ind + 1);
                self.out.push_str("break\n");
                self.ind(ind);
                self.out.push_str("end\n");
            }
            15 => {
                self.ind(ind);
                self.out.push_str("repeat\n");
                self.block(depth - 1, ind + 1);
                let c = self.expr(1, ind);
                self.ind(ind);
                self.out.push_str(&format!("until {}\n", c));
            }
            16 => {
                let r = if self.uni { "区域 😀" } else { "helpers" };
                self.ind(ind);
                self.out.push_str(&format!("--region {}\n", r));
                self.block(depth - 1, ind);
                self.ind(ind);
                self.out.push_str("--endregion\n");
            }
            17 => {
                self.ind(ind);
                self.out.push_str("do\n");
                self.block(depth - 1, ind + 1);
                self.ind(ind);
                self.out.push_str("end\n");
            }
            18 => {
                let n = self.name();
                let m = self.rng.pick(&["socket", "lib.util", "a.b.c", "json"]).to_string();
                self.ind(ind);
                self.out.push_str(&format!("local {} = require(\"{}\")\n", n, m));
                self.names.push(n);
            }
            19 => {
                let n = self.name();
                let t = self.table(depth.min(2), ind);
                self.ind(ind);
                self.out.push_str(&format!("local {} = {}\n", n, t));
                self.names.push(n);
            }
            20 => {
                // enum
                let e = format!("En{}", self.rng.below(50));
                self.ind(ind);
                self.out.push_str(&format!("---@enum {}\n", e));
                self.ind(ind);
                self.out.push_str(&format!("local {} = {{\n", e));
                self.ind(ind + 1);
                self.out.push_str("A = 1,\n");
                self.ind(ind + 1);
                self.out.push_str("B = 2,\n");
                self.ind(ind);
                self.out.push_str("}\n");
                self.names.push(e);
            }
            _ => {
                self.ind(ind);
                self.out.push_str("::continue::\n");
                self.ind(ind);
                self.out.push_str("goto continue\n");
            }
        }
    }
    fn block(&mut self, depth: usize, ind: usize) {
        let n = 1 + self.rng.below(3);
        for _ in 0..n {
            self.stat(depth, ind);
        }
    }
}

const SOUP: &[&str] = &[
    "local", "function", "end", "if", "then", "else", "for", "in", "do", "return", "(", ")", "{", "}", "[", "]", "=", "==", ",", ".", ":",
    "..", "...", "x", "y", "1", "\"s\"", "'", "\"", "[[", "]]", "--", "--[[", "---@", "---@class", "---@param", "@", "#", "\n", "\n", " ", "\t",
    "😀", "é", "::", "goto", "nil", "<", ">", "<const>", "~=", "//", "\\", "`",
];

pub fn gen_doc(rng: &mut Rng, mode: Mode, size: usize) -> String {
    match mode {
        Mode::Blank => {
            let k = rng.below(6);
            return match k {
                0 => String::new(),
                1 => "\n".into(),
                2 => "   ".into(),
                3 => "\n\n\n".into(),
                4 => "\r\n\r\n".into(),
                _ => "\t\n ".into(),
            };
        }
        Mode::Soup => {
            let n = 3 + rng.below(size * 6 + 4);
            let mut s = String::new();
            for _ in 0..n {
                s.push_str(*rng.pick(SOUP));
                if rng.chance(2, 3) {
                    s.push(' ');
                }
            }
            return s;
        }
        _ => {}
    }
    let uni = matches!(mode, Mode::Unicode) || (matches!(mode, Mode::Truncated | Mode::Unterminated | Mode::MixedEol) && rng.chance(1, 2));
    let mut g = G { rng, uni, out: String::new(), names: vec![], classes: vec![], budget: (size * 14 + 10) as i32 };
    let top = 2 + g.rng.below(size + 2);
    for _ in 0..top {
        g.stat(3, 0);
    }
    if g.rng.chance(1, 3) {
        let n = g.known();
        g.out.push_str(&format!("return {}\n", n));
    }
    let mut s = g.out;
    match mode {
        Mode::Crlf => s = s.replace('\n', "\r\n"),
        Mode::MixedEol => {
            let mut o = String::new();
            for c in s.chars() {
                if c == '\n' {
                    match rng.below(4) {
                        0 => o.push_str("\r\n"),
                        1 => o.push('\r'),
                        _ => o.push('\n'),
                    }
                } else {
                    o.push(c);
                }
            }
            s = o;
        }
        Mode::Truncated => {
            if !s.is_empty() {
                let mut cut = rng.below(s.len());
                while !s.is_char_boundary(cut) {
                    cut -= 1;
                }
                s.truncate(cut);
            }
        }
        Mode::Unterminated => {
            let tail = rng.pick(&["local s = \"unterminated", "local s = 'abc\\", "--[[ never closed\nmore", "local t = [[ long string\nstill", "---@class", "local x = {", "f(", "---@param", "--[==[ x ]]",
                                  "local m = require(\"", "local m = require('", "local m = require(\"lib.", "print(\"", "local p = \"./", "x.", "x:", "x[\"", "---@type ", "---@field", "---@", "--- `", "local t = { [\"", "for", "function", "local function f(", "return {", "goto", "::"]).to_string();
            if rng.chance(1, 2) {
                s.push_str(&tail);
            } else {
                // put it in the middle
                let mut cut = rng.below(s.len() + 1);
                while !s.is_char_boundary(cut) {
                    cut -= 1;
                }
                let rest = s.split_off(cut);
                s.push_str(&tail);
                s.push('\n');
                s.push_str(&rest);
            }
        }
        _ => {}
    }
    s
}

/// hand-written documents that always run first
pub fn fixed_docs() -> Vec<(&'static str, String)> {
    vec![
        ("empty", "".to_string()),
        ("one-newline", "\n".to_string()),
        ("ascii", "local x = 1\nprint(x)\n".to_string()),
        ("no-trailing-newline", "local x = 1\nprint(x)".to_string()),
        ("crlf", "local x = 1\r\nprint(x)\r\n".to_string()),
        ("lone-cr", "local a = 1\rlocal b = 2\r".to_string()),
        ("emoji", "local s = \"a😀b\" -- 😀😀\nprint(s) -- é中\n".to_string()),
        ("emoji-name", "local t = { [\"😀\"] = 1 }\nprint(t[\"😀\"])\n".to_string()),
        ("unterminated-string", "local s = \"abc\nlocal y = 2\n".to_string()),
        ("unterminated-long-comment", "local a = 1\n--[[ never closed\nlocal b = 2\n".to_string()),
        ("unterminated-long-string", "local a = [[ x\ny\n".to_string()),
        ("doc", "---@class Foo\n---@field name string\nlocal Foo = {}\n\n---@param a number\n---@return string\nfunction Foo:bar(a)\n    return self.name .. a\nend\n\nlocal f = Foo\nf:bar(1)\n".to_string()),
        ("nilcheck", "---@type string?\nlocal s\nlocal n = s:len()\n---@unknowntag\nlocal q = n\n".to_string()),
        ("call-hierarchy", "local function callee(a) return a end\nlocal function caller()\n    return callee(1) + callee(2)\nend\ncaller()\n".to_string()),
        ("region", "--region outer\nlocal a = 1\n--region inner\nlocal b = 2\n--endregion\n--endregion\n".to_string()),
        ("markdown-doc", "--- Title 😀\n--- ```lua\n--- local z = 1\n--- ```\n--- **bold** [link](http://x)\n---@param p string описание\nlocal function g(p) end\n".to_string()),
        ("only-comment", "-- just a comment".to_string()),
        ("bom", "\u{feff}local x = 1\n".to_string()),
        ("nul", "local a = 1\0 local b = 2\n".to_string()),
        ("color", "local c = \"#ff00ff\"\nlocal d = \"ff0000\"\n".to_string()),
        ("require-completion", "local u = require(\"lib.\")\nlocal p = require(\"\")\nlocal q = require(\"li\")\nlocal f = \"./lib/\"\n".to_string()),
        ("member-completion", "---@class Pt\n---@field x number\n---@field [\"a b\"] number\nlocal pt = {}\nfunction pt:move() end\nlocal n = pt.\nlocal m = pt:\npt.x.\nlocal arr = {}\narr.\n".to_string()),
        ("require-unterminated", "local u = require(\"".to_string()),
        ("require-unterminated-2", "local u = require('\nlocal v = 1\n".to_string()),
        // multi-line tokens with non-ASCII / astral text on their non-last lines (split path of the semantic-token builder)
        ("split-long-string-cjk", "local s = [[你好，世界\n第二行 — über\nend]]\nlocal t = 1\n".to_string()),
        ("split-long-string-astral-crlf", "local s = [[a😀b😀\r\n𝒳𝒳 é\r\nlast]]\r\nlocal t = 1\r\n".to_string()),
        ("split-long-string-cr", "local s = [==[中文😀\r— ß 😀😀\rz]==]\rlocal t = 1\r".to_string()),
        ("split-long-comment-astral", "--[[ 😀 комментарий\n   中 😀😀 é\n   конец ]]\nlocal x = 1\n--[==[ 𝒳\r\n𝒳𝒳 ]==]\r\n".to_string()),
        ("split-doc-codeblock-unicode", "--- описание 😀\n--- ```lua\n--- local z = \"😀中\" -- é\n--- ```\n---@param p string 名前 😀\nlocal function g(p) end\n".to_string()),
        ("split-string-escape-z", "local s = \"a😀\\z\n   中文\\z\n   end\"\nlocal u = 'é\\\n😀'\n".to_string()),
        ("signature", "---@param a number\n---@param b string\nlocal function sig(a, b) end\nsig(1, \nsig(\n".to_string()),
    ]
}
