//! C14 harness: rename and references agree with name resolution.
//!   c14 corr   --seed S --n N [--corpus DIR]  -> JSON lines: program (Coq term), text, for every local declaration the
//!                                               cells of the reference index and the rename edits of the real handler
//!   c14 search --seed S --n N [--corpus DIR]  -> JSON lines: violations (references / rename at every declaration and
//!                                               use of every local, edits applied and the program re-analysed), summary
//!   c14 one    --case-json '{"prog":..}'      -> replay
//! The real handler functions `handlers::references::references` and `handlers::rename::rename` are called in-process
//! (hook re-exports `emmylua_ls::verif_references` / `verif_rename`).
#[path = "../../../vh_analysis/src/scoping.rs"]
mod scoping;
use emmylua_code_analysis::{FileId, LuaDeclId, VirtualWorkspace};
use emmylua_ls::{verif_references, verif_rename};
use lsp_types::Position;
use rowan::TextSize;
use scoping::*;
use serde_json::{Value, json};
use std::collections::{BTreeMap, BTreeSet, HashSet};
use vh_common::{Args, Rng, guarded};

const FRESH: u32 = 9001;

fn fixed_programs() -> Vec<Block> {
    use Expr::{Idx, Name, Num};
    use Stat::{Assign, For, ForIn, Local, LocalFun, Repeat};
    let n = |x: u32| Name(x);
    let call = |f: Expr, a: Vec<Expr>| Stat::Call(f, a);
    let blk = |s: Vec<Stat>| Block { stats: s, ret: None };
    let efun = |ps: Vec<u32>, b: Block| Expr::Fun(ps, b);
    vec![
        // local a = 1 a = a + 1 f(a)
        blk(vec![Local(vec![0], vec![Num(1)]), Assign(vec![n(0)], vec![Expr::Bin(Box::new(n(0)), Box::new(Num(1)))]), call(n(3), vec![n(0)])]),
        // local a, a = 1, 2 f(a)
        blk(vec![Local(vec![0, 0], vec![Num(1), Num(2)]), call(n(3), vec![n(0)])]),
        // local a = 1 do local a = a f(a) end f(a)
        blk(vec![Local(vec![0], vec![Num(1)]), Stat::Do(blk(vec![Local(vec![0], vec![n(0)]), call(n(3), vec![n(0)])])), call(n(3), vec![n(0)])]),
        // local function f(a, b) return f(b, a) end f(1, 2)
        blk(vec![LocalFun(3, vec![0, 1], Block { stats: vec![], ret: Some(vec![Expr::Call(Box::new(n(3)), vec![n(1), n(0)])]) }), call(n(3), vec![Num(1), Num(2)])]),
        // for i = 1, 2 do f(i) end for a, b in f(a) do a = b end
        blk(vec![For(5, vec![Num(1), Num(2)], blk(vec![call(n(3), vec![n(5)])])), ForIn(vec![0, 1], vec![Expr::Call(Box::new(n(3)), vec![n(0)])], blk(vec![Assign(vec![n(0)], vec![n(1)])]))]),
        // repeat local a = f() until a
        blk(vec![Repeat(blk(vec![Local(vec![0], vec![Expr::Call(Box::new(n(3)), vec![])])]), n(0))]),
        // local f = function() end local b = f b() c.a = f  (aliases of a function value)
        blk(vec![
            Local(vec![3], vec![efun(vec![], Block::default())]),
            Local(vec![1], vec![n(3)]),
            call(n(1), vec![]),
            Assign(vec![Idx(Box::new(n(2)), 0)], vec![n(3)]),
        ]),
        // local a = 1 function a.b:c(a) return self, a end
        blk(vec![Local(vec![0], vec![Num(1)]), Stat::Fun(FuncName { root: 0, fields: vec![1], meth: Some(2) }, vec![0], Block { stats: vec![], ret: Some(vec![n(4), n(0)]) })]),
    ]
}

fn load_corpus(dir: &str) -> Vec<Block> {
    let mut out = Vec::new();
    if dir.is_empty() {
        return out;
    }
    let mut files: Vec<_> = match std::fs::read_dir(dir) {
        Ok(rd) => rd.filter_map(|e| e.ok()).map(|e| e.path()).filter(|p| p.extension().map(|x| x == "json").unwrap_or(false)).collect(),
        Err(_) => return out,
    };
    files.sort();
    for f in files {
        if let Ok(s) = std::fs::read_to_string(&f) {
            if let Ok(v) = serde_json::from_str::<Value>(&s) {
                let items = if v.is_array() { v.as_array().cloned().unwrap_or_default() } else { vec![v] };
                for it in items {
                    if it.get("prog").map(|p| !p.is_null()).unwrap_or(false) {
                        out.push(block_of_json(&it["prog"]));
                    }
                }
            }
        }
    }
    out
}

fn gen_case(rng: &mut Rng, i: usize) -> Block {
    let names = [2u32, 3, 3, 4, 5][rng.below(5)];
    let (depth, max_stats, budget) = match i % 3 {
        0 => (2, 4, 25),
        1 => (3, 5, 45),
        _ => (3, 6, 70),
    };
    gen_program(rng, names, depth, max_stats, budget)
}

struct Viol {
    sig: String,
    what: String,
}

fn pos_of(p: u32) -> Position {
    Position { line: 0, character: p }
}

/// (start, end) offsets of the locations / edits (single-line ASCII programs: character = byte offset)
/// locations in another file are reported at offsets >= 1_000_000 (there is only one file in the workspace)
fn references_at(ws: &VirtualWorkspace, fid: FileId, p: u32) -> Option<Vec<(u32, u32)>> {
    let own = ws.analysis.compilation.get_db().get_vfs().get_uri(&fid);
    let locs = verif_references(&ws.analysis, fid, pos_of(p), true)?;
    Some(
        locs.iter()
            .map(|l| {
                let foreign = if Some(&l.uri) == own.as_ref() { 0 } else { 1_000_000 };
                (foreign + l.range.start.character + 100000 * l.range.start.line, foreign + l.range.end.character + 100000 * l.range.end.line)
            })
            .collect(),
    )
}

fn rename_at(ws: &VirtualWorkspace, fid: FileId, p: u32, new_name: &str) -> Option<Vec<(u32, u32, String)>> {
    let own = ws.analysis.compilation.get_db().get_vfs().get_uri(&fid);
    let we = verif_rename(&ws.analysis, fid, pos_of(p), new_name.to_string())?;
    let mut out = Vec::new();
    if let Some(ch) = we.changes {
        for (uri, edits) in ch {
            let foreign = if Some(&uri) == own.as_ref() { 0 } else { 1_000_000 };
            for e in edits {
                out.push((foreign + e.range.start.character + 100000 * e.range.start.line, foreign + e.range.end.character + 100000 * e.range.end.line, e.new_text));
            }
        }
    }
    out.sort();
    Some(out)
}

fn apply_edits(text: &str, edits: &[(u32, u32, String)]) -> Option<String> {
    let mut es = edits.to_vec();
    es.sort();
    let mut out = String::new();
    let mut cur = 0usize;
    for (s, e, t) in es {
        let (s, e) = (s as usize, e as usize);
        if s < cur || e < s || e > text.len() {
            return None;
        }
        out.push_str(&text[cur..s]);
        out.push_str(&t);
        cur = e;
    }
    out.push_str(&text[cur..]);
    Some(out)
}

/// resolution structure by token ordinals: for every use, the ordinal of the declaration token it resolves to
/// (None = global; Some(usize::MAX - k) for an implicit self, identified by the k-th method)
fn structure(pr: &Printer) -> Vec<Option<usize>> {
    let mut self_idx = BTreeMap::new();
    let mut k = 0usize;
    for d in &pr.decls {
        if d.kind == DeclKind::SelfParam {
            self_idx.insert(d.pos, usize::MAX - 1 - k);
            k += 1;
        }
    }
    pr.uses
        .iter()
        .map(|u| {
            u.2.map(|dp| match pr.decls.iter().find(|d| d.pos == dp) {
                Some(d) if d.kind == DeclKind::SelfParam => self_idx[&dp],
                Some(d) => d.ord,
                None => usize::MAX,
            })
        })
        .collect()
}

/// the implementation's resolution structure of `text` by token ordinals, aligned with the printer's tokens
fn impl_structure(ws: &mut VirtualWorkspace, pr: &Printer) -> Result<Vec<Option<usize>>, String> {
    let (_fid, obs) = observe(ws, &pr.out);
    if obs.parse_errors > 0 || obs.uses.len() != pr.uses.len() {
        return Err(format!("renamed program does not parse as printed: {:?}", pr.out));
    }
    let mut self_idx = BTreeMap::new();
    let mut k = 0usize;
    for d in &pr.decls {
        if d.kind == DeclKind::SelfParam {
            self_idx.insert(d.pos, usize::MAX - 1 - k);
            k += 1;
        }
    }
    Ok(obs
        .uses
        .iter()
        .map(|u| {
            impl_res(&u.2).map(|dp| match pr.decls.iter().find(|d| d.pos == dp) {
                Some(d) if d.kind == DeclKind::SelfParam => self_idx[&dp],
                Some(d) => d.ord,
                None => usize::MAX,
            })
        })
        .collect())
}

/// all checks of property C14 on one program
fn check_program(ws: &mut VirtualWorkspace, ws2: &mut VirtualWorkspace, prog: &Block, stats: &mut Counters) -> Result<Vec<Viol>, String> {
    let pr = Printer::program(prog);
    let text = pr.out.clone();
    let (fid, obs) = observe(ws, &text);
    if obs.parse_errors > 0 {
        return Err(format!("printed program does not parse: {:?}", text));
    }
    let fresh = name_text(FRESH);
    let mut out: Vec<Viol> = Vec::new();
    let base_struct = structure(&pr);
    for d in &pr.decls {
        if d.kind == DeclKind::SelfParam {
            continue;
        }
        let len = name_text(d.name).len() as u32;
        // the declaration token and every use that Lua scoping resolves to it
        let mut expected: BTreeSet<u32> = BTreeSet::new();
        expected.insert(d.pos);
        let mut ords: HashSet<usize> = HashSet::new();
        ords.insert(d.ord);
        for (i, u) in pr.uses.iter().enumerate() {
            if u.2 == Some(d.pos) {
                expected.insert(u.0);
                ords.insert(pr.use_ord[i]);
            }
        }
        stats.decls += 1;
        let points: Vec<u32> = expected.iter().copied().collect();
        for &q in &points {
            stats.points += 1;
            // ---- references
            match references_at(ws, fid, q) {
                None => out.push(Viol { sig: "references-none".into(), what: format!("references at offset {} of `{}` returned nothing", q, text.trim_end()) }),
                Some(locs) => {
                    // locations that are not a name token of the declaration: when all of them are member targets of
                    // `t.x = <this value>` they are what enqueue_value_alias_references adds (the known alias finding)
                    let others: Vec<&(u32, u32)> = locs.iter().filter(|l| !(expected.contains(&l.0) && l.1 - l.0 == len)).collect();
                    let alias_locs = !others.is_empty()
                        && others.iter().all(|l| pr.alias_targets.iter().any(|(t, u)| *t == l.0 && expected.contains(u)));
                    let got: BTreeSet<u32> = if alias_locs {
                        locs.iter().filter(|l| expected.contains(&l.0) && l.1 - l.0 == len).map(|l| l.0).collect()
                    } else {
                        locs.iter().map(|l| l.0).collect()
                    };
                    let bad_len = !alias_locs && locs.iter().any(|l| expected.contains(&l.0) && l.1 - l.0 != len);
                    if got != expected || bad_len || alias_locs {
                        let extra: Vec<u32> = got.difference(&expected).copied().collect();
                        let missing: Vec<u32> = expected.difference(&got).copied().collect();
                        // which other declaration do the extra / all locations belong to?
                        let alias_only = alias_locs && missing.is_empty() && extra.is_empty();
                        let sig = if alias_only {
                            "references-follow-value-alias-into-member"
                        } else if missing.is_empty() && !extra.is_empty() {
                            "references-include-other-tokens"
                        } else if !missing.is_empty() && got.iter().all(|g| !expected.contains(g)) && !got.is_empty() {
                            "references-of-another-declaration"
                        } else if bad_len {
                            "references-wrong-range"
                        } else if got.is_empty() && expected.len() == 1 {
                            "references-of-unused-local-empty"
                        } else {
                            "references-differ"
                        };
                        out.push(Viol {
                            sig: sig.into(),
                            what: format!(
                                "references at offset {} (declaration at {}) = {:?} but the declaration and its uses are {:?} in `{}`",
                                q,
                                d.pos,
                                locs,
                                expected,
                                text.trim_end()
                            ),
                        });
                    }
                }
            }
            // ---- rename
            match rename_at(ws, fid, q, &fresh) {
                None => out.push(Viol { sig: "rename-none".into(), what: format!("rename at offset {} of `{}` returned nothing", q, text.trim_end()) }),
                Some(edits) => {
                    let got: BTreeSet<u32> = edits.iter().map(|e| e.0).collect();
                    let dup = got.len() != edits.len();
                    let wrong = edits.iter().any(|e| e.1 - e.0 != len || e.2 != fresh);
                    let overlap = {
                        let mut es = edits.clone();
                        es.sort();
                        es.windows(2).any(|w| w[0].1 > w[1].0)
                    };
                    if got != expected || dup || wrong || overlap {
                        let sig = if overlap || dup {
                            "rename-overlapping-edits"
                        } else if wrong {
                            "rename-wrong-edit"
                        } else if got.is_subset(&expected) {
                            "rename-misses-uses"
                        } else {
                            "rename-edits-other-tokens"
                        };
                        out.push(Viol {
                            sig: sig.into(),
                            what: format!(
                                "rename at offset {} (declaration at {}) edits {:?} but the declaration and its uses are {:?} in `{}`",
                                q,
                                d.pos,
                                edits.iter().map(|e| (e.0, e.1)).collect::<Vec<_>>(),
                                expected,
                                text.trim_end()
                            ),
                        });
                        continue;
                    }
                    // apply the edits once per declaration (they are the same at every point): the renamed program
                    if q == d.pos {
                        stats.renames_applied += 1;
                        let renamed = rename_tokens(prog, &ords, FRESH);
                        let pr2 = Printer::program(&renamed);
                        match apply_edits(&text, &edits) {
                            None => out.push(Viol { sig: "rename-overlapping-edits".into(), what: format!("edits of rename at {} cannot be applied to `{}`", q, text.trim_end()) }),
                            Some(t2) => {
                                if t2 != pr2.out {
                                    out.push(Viol { sig: "rename-result-differs".into(), what: format!("applying the edits of rename at {} to `{}` gives `{}`, expected `{}`", q, text.trim_end(), t2.trim_end(), pr2.out.trim_end()) });
                                } else {
                                    // resolution structure unchanged: by Lua scoping and as the analyzer sees the new text
                                    let s2 = structure(&pr2);
                                    if s2 != base_struct {
                                        out.push(Viol { sig: "rename-changes-resolution".into(), what: format!("renaming the declaration at {} to `{}` changes which declaration some use resolves to: `{}` -> `{}`", q, fresh, text.trim_end(), t2.trim_end()) });
                                    }
                                    match impl_structure(ws2, &pr2) {
                                        Err(e) => return Err(e),
                                        Ok(s3) => {
                                            if s3 != base_struct {
                                                out.push(Viol { sig: "rename-changes-analysed-resolution".into(), what: format!("after renaming the declaration at {} the analyzer resolves some use differently: `{}` -> `{}`", q, text.trim_end(), t2.trim_end()) });
                                            }
                                        }
                                    }
                                }
                            }
                        }
                    }
                }
            }
        }
    }
    Ok(out)
}

#[derive(Default)]
struct Counters {
    decls: usize,
    points: usize,
    renames_applied: usize,
}

fn corr_line(ws: &mut VirtualWorkspace, prog: &Block) -> Value {
    let pr = Printer::program(prog);
    let (fid, obs) = observe(ws, &pr.out);
    let db = ws.analysis.compilation.get_db();
    let fresh = name_text(FRESH);
    let mut decls = Vec::new();
    for d in &pr.decls {
        if d.kind == DeclKind::SelfParam {
            continue;
        }
        let id = LuaDeclId::new(fid, TextSize::from(d.pos));
        let cells: Vec<(u32, u32)> = db
            .get_reference_index()
            .get_decl_references(&fid, &id)
            .map(|r| r.cells.iter().map(|c| (u32::from(c.range.start()), u32::from(c.range.end()))).collect())
            .unwrap_or_default();
        let edits = rename_at(ws, fid, d.pos, &fresh).map(|es| es.iter().map(|e| json!([e.0, e.1, e.2])).collect::<Vec<_>>());
        decls.push(json!({"pos": d.pos, "name": d.name, "cells": cells, "rename": edits}));
    }
    json!({"coq": coq_block(prog), "prog": json_block(prog), "text": pr.out, "decls": decls, "errors": obs.parse_errors, "fresh": FRESH})
}

fn main() {
    let args = Args::parse();
    let seed = args.u64("seed", 1);
    let n = args.usize("n", 100);
    let corpus = args.str("corpus", "");
    let mut rng = Rng::new(seed ^ 0xC14);
    let mut ws = VirtualWorkspace::new();
    let mut ws2 = VirtualWorkspace::new();
    match args.cmd.as_str() {
        "corr" => {
            let mut progs = fixed_programs();
            progs.extend(load_corpus(&corpus));
            for i in 0..n {
                progs.push(gen_case(&mut rng, i));
            }
            for (i, p) in progs.iter().enumerate() {
                let _ = i;
                println!("{}", corr_line(&mut ws, p));
            }
        }
        "search" => {
            let mut progs = fixed_programs();
            progs.extend(load_corpus(&corpus));
            let nfixed = progs.len();
            for i in 0..n {
                progs.push(gen_case(&mut rng, i));
            }
            let mut by_sig: BTreeMap<String, Value> = BTreeMap::new();
            let mut counters = Counters::default();
            let mut distinct = HashSet::new();
            let mut harness_errors = 0usize;
            for (idx, p) in progs.iter().enumerate() {
                let pr = Printer::program(p);
                if pr.decls.iter().any(|d| d.kind != DeclKind::SelfParam) && pr.uses.iter().any(|u| u.2.is_some()) {
                    distinct.insert(pr.out.clone());
                }
                let r = match guarded(|| check_program(&mut ws, &mut ws2, p, &mut counters)) {
                    Ok(r) => r,
                    Err(e) => {
                        ws = VirtualWorkspace::new();
                        ws2 = VirtualWorkspace::new();
                        Ok(vec![Viol { sig: "handler-panicked".into(), what: format!("references/rename panicked: {} on `{}`", e, pr.out.trim_end()) }])
                    }
                };
                match r {
                    Err(e) => {
                        harness_errors += 1;
                        println!("{}", json!({"harness_error": e, "prog": json_block(p), "index": idx}));
                    }
                    Ok(vs) => {
                        for v in vs {
                            if by_sig.contains_key(&v.sig) {
                                continue;
                            }
                            let sig = v.sig.clone();
                            let mut dummy = Counters::default();
                            let small = shrink(p, &mut |c: &Block| match guarded(|| check_program(&mut ws, &mut ws2, c, &mut dummy)) {
                                Ok(Ok(vs)) => vs.iter().any(|x| x.sig == sig),
                                _ => false,
                            });
                            let what = match check_program(&mut ws, &mut ws2, &small, &mut dummy) {
                                Ok(vs) => vs.into_iter().find(|x| x.sig == sig).map(|x| x.what).unwrap_or(v.what.clone()),
                                Err(_) => v.what.clone(),
                            };
                            let text = Printer::program(&small).out;
                            by_sig.insert(v.sig.clone(), json!({"signature": v.sig, "what": what, "text": text, "prog": json_block(&small), "fixed_case": idx < nfixed}));
                        }
                    }
                }
            }
            for v in by_sig.values() {
                println!("{}", v);
            }
            println!(
                "{}",
                json!({"summary": {"cases": progs.len(), "distinct_nontrivial": distinct.len(), "local_declarations": counters.decls,
                                   "request_points": counters.points, "renames_applied_and_reanalysed": counters.renames_applied, "harness_errors": harness_errors}})
            );
        }
        "one" => {
            let v: Value = serde_json::from_str(&args.str("case-json", "{}")).unwrap();
            let p = block_of_json(&v["prog"]);
            println!("{}", corr_line(&mut ws, &p));
            let mut c = Counters::default();
            match check_program(&mut ws, &mut ws2, &p, &mut c) {
                Ok(vs) => {
                    for x in vs {
                        println!("{}", json!({"signature": x.sig, "what": x.what, "text": Printer::program(&p).out, "prog": json_block(&p)}));
                    }
                }
                Err(e) => println!("{}", json!({"harness_error": e})),
            }
        }
        _ => {
            eprintln!("usage: c14 corr|search|one");
            std::process::exit(2);
        }
    }
    std::process::exit(0);
}
