//! C26 harness: structural validity of the results of the REAL in-process server.
//!   c26 search --seed S --docs N --maxpos K --size Z [--std DIR] [--corpus DIR]
//!        JSON lines {"signature","what",<case>} for results that violate the property oracle (evaluated here, in
//!        Rust, independently of the Coq checker); final {"summary":{...}}
//!   c26 obs    --seed S --docs N --maxpos K --size Z
//!        JSON lines, one per document: raw observations for the VERIFIED CHECKER (coq/theories/C26/Corr.v)
//!   c26 build  --seed S --n N
//!        JSON lines: inputs and outputs of the real SemanticBuilder::push_data/build (hook
//!        emmylua_ls::verif_semantic_push_and_build) for the model correspondence
//!   c26 one    --text-json '"..."' [--multiline 0|1]
#[path = "../c25_drv.rs"]
mod drv;
#[path = "../c25_gen.rs"]
mod gen_;

use drv::{Outcome, Server, lsp_pos};
use emmylua_parser::{LuaParser, LuaTokenKind, ParserConfig};
use serde_json::{Value, json};
use std::collections::{BTreeMap, HashMap, HashSet};
use std::time::Duration;
use vh_common::{Args, Rng};

type Pos = (u32, u32);
type Rg = (Pos, Pos);

/// the document as the validity oracle sees it: UTF-16 length of every line; the CR of a CRLF pair counts as
/// content (the server indexes it that way, and it keeps the oracle lenient rather than strict)
struct DocInfo {
    lens: Vec<u32>,
}

impl DocInfo {
    fn new(text: &str) -> DocInfo {
        let b = text.as_bytes();
        let mut lens = Vec::new();
        let mut cur = 0u32;
        for (i, c) in text.char_indices() {
            if c == '\n' || (c == '\r' && b.get(i + 1) != Some(&b'\n')) {
                lens.push(cur);
                cur = 0;
            } else {
                cur += c.len_utf16() as u32;
            }
        }
        lens.push(cur);
        DocInfo { lens }
    }
    fn pos_ok(&self, p: Pos) -> bool {
        (p.0 as usize) < self.lens.len() && p.1 <= self.lens[p.0 as usize]
    }
    fn range_ok(&self, r: Rg) -> bool {
        self.pos_ok(r.0) && self.pos_ok(r.1) && r.0 <= r.1
    }
}

fn get_pos(v: &Value) -> Option<Pos> {
    Some((v.get("line")?.as_u64()? as u32, v.get("character")?.as_u64()? as u32))
}
fn get_range(v: &Value) -> Option<Rg> {
    Some((get_pos(v.get("start")?)?, get_pos(v.get("end")?)?))
}
fn contains(outer: Rg, inner: Rg) -> bool {
    outer.0 <= inner.0 && inner.1 <= outer.1
}

/// every (uri, range-or-position, json path) inside an LSP result
fn collect_ranges(v: &Value, uri: &str, req_uri: &str, path: &str, out: &mut Vec<(String, Rg, String)>) {
    match v {
        Value::Array(a) => {
            for x in a {
                collect_ranges(x, uri, req_uri, path, out);
            }
        }
        Value::Object(o) => {
            if let Some(r) = get_range(v) {
                out.push((uri.to_string(), r, path.to_string()));
                return;
            }
            let mut ctx = uri.to_string();
            if let Some(u) = o.get("uri").and_then(|u| u.as_str()) {
                ctx = u.to_string();
            }
            if let Some(u) = o.get("targetUri").and_then(|u| u.as_str()) {
                ctx = u.to_string();
            }
            if let Some(u) = o.get("textDocument").and_then(|t| t.get("uri")).and_then(|u| u.as_str()) {
                ctx = u.to_string();
            }
            // CallHierarchyIncomingCall: fromRanges are relative to the caller `from`
            let from_uri = o.get("from").and_then(|f| f.get("uri")).and_then(|u| u.as_str()).map(|s| s.to_string());
            for (k, x) in o {
                if k == "fromRanges" {
                    if let Some(fu) = &from_uri {
                        collect_ranges(x, fu, req_uri, &format!("{}.{}", path, k), out);
                        continue;
                    }
                }
                if k == "data" || k == "command" || k == "arguments" {
                    continue;
                }
                if k == "changes" && x.is_object() {
                    for (u, edits) in x.as_object().unwrap() {
                        collect_ranges(edits, u, req_uri, &format!("{}.changes", path), out);
                    }
                    continue;
                }
                if k == "position" {
                    if let Some(p) = get_pos(x) {
                        out.push((ctx.clone(), (p, p), format!("{}.position", path)));
                        continue;
                    }
                }
                let c = if k == "originSelectionRange" { req_uri } else { ctx.as_str() };
                collect_ranges(x, c, req_uri, &format!("{}.{}", path, k), out);
            }
        }
        _ => {}
    }
}

struct Tok {
    line: u32,
    col: u32,
    len: u32,
    typ: u32,
    mods: u32,
}

fn decode_tokens(data: &[u64]) -> Vec<Tok> {
    let mut out = Vec::new();
    let (mut line, mut col) = (0u64, 0u64);
    for ch in data.chunks(5) {
        if ch.len() < 5 {
            break;
        }
        if ch[0] != 0 {
            line += ch[0];
            col = ch[1];
        } else {
            col += ch[1];
        }
        out.push(Tok { line: line.min(u32::MAX as u64) as u32, col: col.min(u32::MAX as u64) as u32, len: ch[2] as u32, typ: ch[3] as u32, mods: ch[4] as u32 });
    }
    out
}

struct Ctx {
    viol: Vec<Value>,
    sig_seen: HashMap<String, usize>,
    checked: BTreeMap<String, u64>,
    unverifiable: u64,
    noresult: u64,
    texts: HashMap<String, String>,
    /// every range/position any result returned for the current document (for the verified checker)
    cur_uri: String,
    doc_ranges: Vec<Rg>,
}

impl Ctx {
    fn v(&mut self, sig: &str, what: String, doc: &str, text: &str, extra: Value) {
        let n = self.sig_seen.entry(sig.to_string()).or_default();
        *n += 1;
        if *n > 3 {
            return;
        }
        self.viol.push(json!({"signature": sig, "what": format!("{} [document {}]", what, doc), "doc": doc, "text": text, "detail": extra}));
    }
    fn count(&mut self, k: &str) {
        *self.checked.entry(k.to_string()).or_default() += 1;
    }
    fn info_for(&mut self, uri: &str) -> Option<DocInfo> {
        if let Some(t) = self.texts.get(uri) {
            return Some(DocInfo::new(t));
        }
        let path = uri.strip_prefix("file://")?;
        let path = path.replace("%20", " ");
        let t = std::fs::read_to_string(&path).ok()?;
        let d = DocInfo::new(&t);
        self.texts.insert(uri.to_string(), t);
        Some(d)
    }
    /// generic part of the property: every returned location/range lies inside its document
    fn check_ranges(&mut self, method: &str, result: &Value, req_uri: &str, doc: &str, text: &str) {
        let mut rs = Vec::new();
        collect_ranges(result, req_uri, req_uri, "", &mut rs);
        for (uri, r, path) in rs {
            if uri == self.cur_uri {
                self.doc_ranges.push(r);
            }
            match self.info_for(&uri) {
                None => self.unverifiable += 1,
                Some(info) => {
                    self.count("range-in-document");
                    if !info.range_ok(r) {
                        let why = if r.0 > r.1 { "start-after-end" } else { "out-of-document" };
                        if r == ((0, 0), (info.lens.len() as u32, 0)) {
                            // the "whole document" idiom of LuaDocument::get_document_lsp_range: ends one line past the last line
                            self.v("whole-document-range-ends-at-line-count", format!("{} returned the whole-document range {:?} at {} whose end line {} does not exist ({} lines)", method, r, path, r.1.0, info.lens.len()), doc, text, json!({"method": method}));
                            continue;
                        }
                        self.v(&format!("range-{}|{}|{}", why, method, path), format!("{} returned range {:?} at {} that is {} (uri {})", method, r, path, why, uri.rsplit('/').next().unwrap_or("")), doc, text, json!({"range": [r.0.0, r.0.1, r.1.0, r.1.1]}));
                    }
                }
            }
        }
    }
}

fn legend_sizes(init: &Value) -> (u32, u32) {
    let l = &init["capabilities"]["semanticTokensProvider"]["legend"];
    (l["tokenTypes"].as_array().map(|a| a.len()).unwrap_or(0) as u32, l["tokenModifiers"].as_array().map(|a| a.len()).unwrap_or(0) as u32)
}

fn check_tokens(cx: &mut Ctx, data: &[u64], legend: (u32, u32), info: &DocInfo, multiline: bool, doc: &str, text: &str) {
    let toks = decode_tokens(data);
    let tag = if multiline { "ml" } else { "sl" };
    if data.len() % 5 != 0 {
        cx.v("token-data-not-multiple-of-5", format!("semantic token data has length {}", data.len()), doc, text, json!({}));
    }
    let mut prev: Option<&Tok> = None;
    for t in &toks {
        cx.count("semantic-token");
        if t.typ >= legend.0 || (legend.1 < 32 && (t.mods >> legend.1) != 0) {
            cx.v("token-out-of-legend", format!("token type {} / modifiers {:#b} outside the advertised legend ({} types, {} modifiers)", t.typ, t.mods, legend.0, legend.1), doc, text, json!({}));
        }
        let line_ok = (t.line as usize) < info.lens.len();
        if !line_ok || t.col > info.lens[t.line as usize] {
            cx.v(&format!("token-start-out-of-document|{}", tag), format!("token at ({}, {}) starts outside the document", t.line, t.col), doc, text, json!({}));
        } else if !multiline && t.col as u64 + t.len as u64 > info.lens[t.line as usize] as u64 {
            let sig = if t.len == 9999 { format!("token-past-line-end|len9999|{}", tag) } else { format!("token-past-line-end|{}", tag) };
            cx.v(&sig, format!("token at ({}, {}) length {} extends past the end of its line (line length {})", t.line, t.col, t.len, info.lens[t.line as usize]), doc, text, json!({"line": t.line, "col": t.col, "len": t.len}));
        }
        if let Some(p) = prev {
            if (p.line, p.col) > (t.line, t.col) {
                cx.v("token-unordered", format!("token at ({}, {}) after ({}, {})", t.line, t.col, p.line, p.col), doc, text, json!({}));
            } else if p.line == t.line && p.col as u64 + p.len as u64 > t.col as u64 {
                let sig = if p.len == 9999 { format!("token-overlap|len9999|{}", tag) } else if (p.line, p.col) == (t.line, t.col) { format!("token-overlap|same-start|{}", tag) } else { format!("token-overlap|{}", tag) };
                cx.v(&sig, format!("token at ({}, {}) length {} overlaps the next token at ({}, {})", p.line, p.col, p.len, t.line, t.col), doc, text, json!({"line": p.line, "col": p.col, "len": p.len, "next_col": t.col}));
            }
        }
        prev = Some(t);
    }
}

fn check_symbols(cx: &mut Ctx, v: &Value, parent: Option<Rg>, info: &DocInfo, doc: &str, text: &str) {
    if let Some(a) = v.as_array() {
        for s in a {
            let (Some(r), Some(sel)) = (s.get("range").and_then(get_range), s.get("selectionRange").and_then(get_range)) else {
                // SymbolInformation (flat) form: location only
                continue;
            };
            cx.count("document-symbol");
            if !info.range_ok(r) || !info.range_ok(sel) {
                cx.v("symbol-range-out-of-document", format!("symbol {} has range {:?} / selectionRange {:?} outside the document", s["name"], r, sel), doc, text, json!({}));
            }
            if !contains(r, sel) {
                cx.v("symbol-selection-outside-range", format!("symbol {}: selectionRange {:?} not inside range {:?}", s["name"], sel, r), doc, text, json!({"name": s["name"]}));
            }
            if let Some(p) = parent {
                if !contains(p, r) {
                    cx.v("symbol-child-outside-parent", format!("symbol {}: range {:?} not inside its parent's range {:?}", s["name"], r, p), doc, text, json!({"name": s["name"]}));
                }
            }
            if let Some(ch) = s.get("children") {
                check_symbols(cx, ch, Some(r), info, doc, text);
            }
        }
    }
}

fn check_folds(cx: &mut Ctx, v: &Value, info: &DocInfo, doc: &str, text: &str) {
    if let Some(a) = v.as_array() {
        for f in a {
            cx.count("folding-range");
            let sl = f["startLine"].as_u64().unwrap_or(0) as u32;
            let el = f["endLine"].as_u64().unwrap_or(0) as u32;
            let sc = f.get("startCharacter").and_then(|x| x.as_u64()).map(|x| x as u32);
            let ec = f.get("endCharacter").and_then(|x| x.as_u64()).map(|x| x as u32);
            let start = (sl, sc.unwrap_or(0));
            let end = (el, ec.unwrap_or(u32::MAX));
            if start > end || sl > el {
                cx.v("fold-start-after-end", format!("folding range starts at {:?} after its end {:?}", start, (el, ec)), doc, text, json!({}));
            }
            let n = info.lens.len() as u32;
            if sl >= n || el >= n || sc.map(|c| c > info.lens[sl as usize]).unwrap_or(false) || ec.map(|c| c > info.lens[el as usize]).unwrap_or(false) {
                cx.v("fold-out-of-document", format!("folding range {:?}..{:?} outside the document ({} lines)", (sl, sc), (el, ec), n), doc, text, json!({}));
            }
        }
    }
}

fn selection_chain(v: &Value) -> Vec<Rg> {
    let mut out = Vec::new();
    let mut cur = v;
    loop {
        match cur.get("range").and_then(get_range) {
            Some(r) => out.push(r),
            None => break,
        }
        match cur.get("parent") {
            Some(p) if p.is_object() => cur = p,
            _ => break,
        }
    }
    out
}

fn check_selection(cx: &mut Ctx, chain: &[Rg], at: Pos, info: &DocInfo, doc: &str, text: &str) {
    cx.count("selection-range-chain");
    for (i, r) in chain.iter().enumerate() {
        if !info.range_ok(*r) {
            cx.v("selection-out-of-document", format!("selection range {:?} outside the document", r), doc, text, json!({}));
        }
        if i + 1 < chain.len() {
            let p = chain[i + 1];
            if !contains(p, *r) {
                cx.v("selection-parent-not-containing", format!("selection range at {:?}: parent {:?} does not contain {:?}", at, p, r), doc, text, json!({"at": [at.0, at.1]}));
            } else if p == *r {
                cx.v("selection-not-strictly-growing", format!("selection range at {:?}: parent equals child {:?}", at, r), doc, text, json!({"at": [at.0, at.1]}));
            }
        }
    }
}

/// main edit of a completion item: (range list (1 for Edit, 2 for InsertReplace))
fn completion_main_edit(item: &Value) -> Vec<Rg> {
    let mut out = Vec::new();
    if let Some(te) = item.get("textEdit") {
        if let Some(r) = te.get("range").and_then(get_range) {
            out.push(r);
        }
        if let Some(r) = te.get("insert").and_then(get_range) {
            out.push(r);
        }
        if let Some(r) = te.get("replace").and_then(get_range) {
            out.push(r);
        }
    }
    out
}

fn check_completion(cx: &mut Ctx, result: &Value, cursor: Pos, info: &DocInfo, doc: &str, text: &str) {
    let items = if let Some(a) = result.as_array() { a.clone() } else { result.get("items").and_then(|i| i.as_array()).cloned().unwrap_or_default() };
    for it in &items {
        for r in completion_main_edit(it) {
            cx.count("completion-main-edit");
            if !info.range_ok(r) {
                cx.v("completion-edit-out-of-document", format!("completion item {} edit range {:?} outside the document", it["label"], r), doc, text, json!({"cursor": [cursor.0, cursor.1]}));
            }
            if r.0.0 != r.1.0 {
                cx.v("completion-edit-multiline", format!("completion item {} main edit {:?} spans lines (cursor {:?})", it["label"], r, cursor), doc, text, json!({"cursor": [cursor.0, cursor.1]}));
            } else if !(r.0 <= cursor && cursor <= r.1) {
                cx.v("completion-edit-not-containing-cursor", format!("completion item {} main edit {:?} does not contain the cursor {:?}", it["label"], r, cursor), doc, text, json!({"cursor": [cursor.0, cursor.1]}));
            }
        }
    }
}

/// per-file edit lists of a WorkspaceEdit
fn workspace_edits(v: &Value) -> Vec<(String, Vec<Rg>)> {
    let mut out = Vec::new();
    if let Some(ch) = v.get("changes").and_then(|c| c.as_object()) {
        for (u, edits) in ch {
            let rs: Vec<Rg> = edits.as_array().map(|a| a.iter().filter_map(|e| e.get("range").and_then(get_range)).collect()).unwrap_or_default();
            out.push((u.clone(), rs));
        }
    }
    if let Some(dc) = v.get("documentChanges").and_then(|c| c.as_array()) {
        for d in dc {
            if let (Some(u), Some(edits)) = (d.get("textDocument").and_then(|t| t.get("uri")).and_then(|u| u.as_str()), d.get("edits").and_then(|e| e.as_array())) {
                out.push((u.to_string(), edits.iter().filter_map(|e| e.get("range").and_then(get_range)).collect()));
            }
        }
    }
    out
}

fn edits_overlap(rs: &[Rg]) -> Option<(Rg, Rg)> {
    let mut s: Vec<Rg> = rs.to_vec();
    s.sort();
    for w in s.windows(2) {
        // two edits overlap when the second starts before the first ends; two insertions at the same position
        // (empty ranges) or an insertion at the start of a replacement are allowed by the protocol
        if w[1].0 < w[0].1 {
            return Some((w[0], w[1]));
        }
        if w[0] == w[1] && w[0].0 != w[0].1 {
            return Some((w[0], w[1]));
        }
    }
    None
}

fn check_workspace_edit(cx: &mut Ctx, method: &str, v: &Value, doc: &str, text: &str, at: Value) {
    for (uri, rs) in workspace_edits(v) {
        cx.count("workspace-edit-file");
        if let Some((a, b)) = edits_overlap(&rs) {
            cx.v(&format!("edits-overlap|{}", method), format!("{}: edits {:?} and {:?} for {} overlap", method, a, b, uri.rsplit('/').next().unwrap_or("")), doc, text, json!({"at": at}));
        }
    }
}

/// collect every WorkspaceEdit inside a result (code actions carry them in `edit`)
fn find_workspace_edits<'a>(v: &'a Value, out: &mut Vec<&'a Value>) {
    match v {
        Value::Array(a) => a.iter().for_each(|x| find_workspace_edits(x, out)),
        Value::Object(o) => {
            if o.contains_key("changes") || o.contains_key("documentChanges") {
                out.push(v);
            }
            for (k, x) in o {
                if k != "changes" && k != "documentChanges" {
                    find_workspace_edits(x, out);
                }
            }
        }
        _ => {}
    }
}

/// The candidate ranges the selection-range handler feeds to push_growing_range for a position: the token at the
/// offset (right-biased) and all its ancestors — computed on a tree parsed by the real Vfs with the default
/// configuration (the server's workspace has no .emmyrc).  None for tokens inside a doc description (the handler
/// then uses the private markdown ranges) and when the document was normalised by the Vfs.
struct SelCands {
    vfs: emmylua_code_analysis::Vfs,
    id: Option<emmylua_code_analysis::FileId>,
}

impl SelCands {
    fn new(text: &str) -> SelCands {
        use emmylua_code_analysis::{Emmyrc, Vfs, VirtualUrlGenerator};
        let mut vfs = Vfs::new();
        vfs.update_config(Emmyrc::default().into());
        let vg = VirtualUrlGenerator::new();
        let uri = vg.new_uri("c26sel.lua");
        let id = vfs.set_file_content(&uri, Some(text.to_string()));
        let ok = vfs.get_document(&id).map(|d| d.get_text() == text).unwrap_or(false);
        SelCands { vfs, id: if ok { Some(id) } else { None } }
    }
    fn candidates(&self, p: Pos) -> Option<Vec<[u32; 2]>> {
        use emmylua_parser::{LuaAstNode, LuaDocDescription};
        let id = self.id?;
        let doc = self.vfs.get_document(&id)?;
        let tree = self.vfs.get_syntax_tree(&id)?;
        let root = tree.get_red_root();
        let offset = doc.get_offset(p.0 as usize, p.1 as usize)?;
        if offset > root.text_range().end() {
            return None;
        }
        let token = match root.token_at_offset(offset) {
            rowan::TokenAtOffset::Single(t) => t,
            rowan::TokenAtOffset::Between(_, r) => r,
            rowan::TokenAtOffset::None => return None,
        };
        if token.parent().and_then(LuaDocDescription::cast).is_some() {
            return None;
        }
        let mut out = vec![[u32::from(token.text_range().start()), u32::from(token.text_range().end())]];
        for a in token.parent_ancestors() {
            out.push([u32::from(a.text_range().start()), u32::from(a.text_range().end())]);
        }
        Some(out)
    }
}

struct Points {
    names: Vec<Pos>,
    completion: Vec<Pos>,
    any: Vec<Pos>,
}

fn points(text: &str, rng: &mut Rng, maxpos: usize) -> Points {
    let tree = LuaParser::parse(text, ParserConfig::default());
    let mut names = Vec::new();
    let mut completion = Vec::new();
    let mut any = Vec::new();
    for el in tree.get_red_root().descendants_with_tokens() {
        if let Some(t) = el.as_token() {
            let r = t.text_range();
            let (s, e) = (u32::from(r.start()) as usize, u32::from(r.end()) as usize);
            if !text.is_char_boundary(s) || !text.is_char_boundary(e) {
                continue;
            }
            let kind: LuaTokenKind = t.kind().into();
            any.push(lsp_pos(text, s));
            match kind {
                LuaTokenKind::TkName => {
                    names.push(lsp_pos(text, s));
                    completion.push(lsp_pos(text, e));
                    if e > s + 1 && text.is_char_boundary(s + 1) {
                        completion.push(lsp_pos(text, s + 1));
                    }
                }
                LuaTokenKind::TkDot | LuaTokenKind::TkColon | LuaTokenKind::TkLeftParen | LuaTokenKind::TkComma | LuaTokenKind::TkAssign => completion.push(lsp_pos(text, e)),
                LuaTokenKind::TkString | LuaTokenKind::TkLongString => {
                    if e > s + 1 && text.is_char_boundary(s + 1) {
                        completion.push(lsp_pos(text, s + 1));
                    }
                    if text.is_char_boundary(e.saturating_sub(1)) {
                        completion.push(lsp_pos(text, e.saturating_sub(1)));
                    }
                }
                LuaTokenKind::TkDocStart | LuaTokenKind::TkNormalStart | LuaTokenKind::TkDocDetail | LuaTokenKind::TkEndOfLine | LuaTokenKind::TkWhitespace => completion.push(lsp_pos(text, e)),
                _ => {}
            }
        }
    }
    any.push(lsp_pos(text, text.len()));
    let mut pick = |v: &mut Vec<Pos>, n: usize| {
        v.sort();
        v.dedup();
        if v.len() > n {
            let mut out = Vec::new();
            let mut seen = HashSet::new();
            while out.len() < n {
                let p = v[rng.below(v.len())];
                if seen.insert(p) {
                    out.push(p);
                }
            }
            out.sort();
            *v = out;
        }
    };
    pick(&mut names, maxpos);
    pick(&mut completion, maxpos);
    pick(&mut any, maxpos);
    Points { names, completion, any }
}

fn req_cx(cx: &mut Ctx, srv: &mut Server, method: &str, params: Value) -> Option<Value> {
    match srv.request(method, params, Duration::from_secs(60)) {
        Outcome::Ok(v) => Some(v),
        _ => {
            // no result (error response / handler crash): that is property C25's business; counted here
            cx.noresult += 1;
            None
        }
    }
}

fn tokens_of(v: &Value) -> Vec<u64> {
    v.get("data").and_then(|d| d.as_array()).map(|a| a.iter().filter_map(|x| x.as_u64()).collect()).unwrap_or_default()
}

/// run every structure-returning request on one document; when `obs` is given, raw observations are stored there
fn run_doc(cx: &mut Ctx, sl: &mut Server, ml: &mut Server, idx: usize, doc: &str, text: &str, rng: &mut Rng, maxpos: usize, obs: Option<&mut serde_json::Map<String, Value>>) {
    let name = format!("doc{}.lua", idx % 4);
    let uri = sl.open(&name, text);
    let uri_ml = ml.open(&name, text);
    cx.texts.insert(uri.clone(), text.to_string());
    cx.texts.insert(uri_ml.clone(), text.to_string());
    cx.cur_uri = uri.clone();
    cx.doc_ranges.clear();
    let cands = if obs.is_some() { Some(SelCands::new(text)) } else { None };
    let info = DocInfo::new(text);
    let td = json!({"uri": uri});
    let mut o = serde_json::Map::new();
    // ---- semantic tokens, both client kinds
    let legend = legend_sizes(&sl.init_result);
    if let Some(v) = req_cx(cx, sl, "textDocument/semanticTokens/full", json!({"textDocument": td})) {
        let d = tokens_of(&v);
        check_tokens(cx, &d, legend, &info, false, doc, text);
        o.insert("tokens_sl".into(), json!(d));
    }
    if let Some(v) = req_cx(cx, ml, "textDocument/semanticTokens/full", json!({"textDocument": {"uri": uri_ml}})) {
        let d = tokens_of(&v);
        check_tokens(cx, &d, legend_sizes(&ml.init_result), &info, true, doc, text);
        o.insert("tokens_ml".into(), json!(d));
    }
    o.insert("legend".into(), json!([legend.0, legend.1]));
    // ---- document symbols
    if let Some(v) = req_cx(cx, sl, "textDocument/documentSymbol", json!({"textDocument": td})) {
        check_symbols(cx, &v, None, &info, doc, text);
        cx.check_ranges("textDocument/documentSymbol", &v, &uri, doc, text);
        o.insert("symbols".into(), v);
    }
    // ---- folding ranges
    if let Some(v) = req_cx(cx, sl, "textDocument/foldingRange", json!({"textDocument": td})) {
        check_folds(cx, &v, &info, doc, text);
        o.insert("folds".into(), v);
    }
    // ---- whole-document requests whose results carry ranges
    for m in ["textDocument/codeLens", "textDocument/documentLink", "textDocument/documentColor", "textDocument/diagnostic", "textDocument/formatting"] {
        let params = match m {
            "textDocument/formatting" => json!({"textDocument": td, "options": {"tabSize": 4, "insertSpaces": true}}),
            _ => json!({"textDocument": td}),
        };
        if let Some(v) = req_cx(cx, sl, m, params) {
            cx.check_ranges(m, &v, &uri, doc, text);
            if m == "textDocument/formatting" {
                if let Some(a) = v.as_array() {
                    let rs: Vec<Rg> = a.iter().filter_map(|e| e.get("range").and_then(get_range)).collect();
                    cx.count("formatting-edits");
                    if let Some((a, b)) = edits_overlap(&rs) {
                        cx.v("edits-overlap|textDocument/formatting", format!("formatting edits {:?} and {:?} overlap", a, b), doc, text, json!({}));
                    }
                }
            }
        }
    }
    let nl = info.lens.len() as u32;
    let whole = json!({"start": {"line": 0, "character": 0}, "end": {"line": nl - 1, "character": info.lens[nl as usize - 1]}});
    for m in ["textDocument/inlayHint", "textDocument/inlineValue", "textDocument/rangeFormatting"] {
        let params = match m {
            "textDocument/inlineValue" => json!({"textDocument": td, "range": whole, "context": {"frameId": 1, "stoppedLocation": whole}}),
            "textDocument/rangeFormatting" => json!({"textDocument": td, "range": whole, "options": {"tabSize": 4, "insertSpaces": true}}),
            _ => json!({"textDocument": td, "range": whole}),
        };
        if let Some(v) = req_cx(cx, sl, m, params) {
            cx.check_ranges(m, &v, &uri, doc, text);
        }
    }
    let pts = points(text, rng, maxpos);
    // ---- selection ranges
    let mut sels = Vec::new();
    for p in &pts.any {
        if let Some(v) = req_cx(cx, sl, "textDocument/selectionRange", json!({"textDocument": td, "positions": [{"line": p.0, "character": p.1}]})) {
            if let Some(first) = v.get(0) {
                let chain = selection_chain(first);
                check_selection(cx, &chain, *p, &info, doc, text);
                cx.check_ranges("textDocument/selectionRange", &json!(chain.iter().map(|r| json!({"start": {"line": r.0.0, "character": r.0.1}, "end": {"line": r.1.0, "character": r.1.1}})).collect::<Vec<_>>()), &uri, doc, text);
                let cs = cands.as_ref().and_then(|c| c.candidates(*p)).map(|v| json!(v)).unwrap_or(Value::Null);
                sels.push(json!([p.0, p.1, chain.iter().map(|r| json!([r.0.0, r.0.1, r.1.0, r.1.1])).collect::<Vec<_>>(), cs]));
            }
        }
    }
    o.insert("selections".into(), json!(sels));
    // ---- completion
    let mut comps = Vec::new();
    for p in &pts.completion {
        if let Some(v) = req_cx(cx, sl, "textDocument/completion", json!({"textDocument": td, "position": {"line": p.0, "character": p.1}, "context": {"triggerKind": 1}})) {
            check_completion(cx, &v, *p, &info, doc, text);
            cx.check_ranges("textDocument/completion", &v, &uri, doc, text);
            let items = if let Some(a) = v.as_array() { a.clone() } else { v.get("items").and_then(|i| i.as_array()).cloned().unwrap_or_default() };
            let mut edits: Vec<Value> = Vec::new();
            let mut seen = HashSet::new();
            for it in &items {
                for r in completion_main_edit(it) {
                    if seen.insert(r) {
                        edits.push(json!([r.0.0, r.0.1, r.1.0, r.1.1]));
                    }
                }
            }
            if !edits.is_empty() {
                comps.push(json!([p.0, p.1, edits]));
            }
        }
    }
    o.insert("completions".into(), json!(comps));
    // ---- rename / code action workspace edits; position requests whose results carry locations
    let mut edit_sets: Vec<Value> = Vec::new();
    for p in &pts.names {
        let pj = json!({"line": p.0, "character": p.1});
        if let Some(v) = req_cx(cx, sl, "textDocument/rename", json!({"textDocument": td, "position": pj, "newName": "renamed_1"})) {
            if !v.is_null() {
                check_workspace_edit(cx, "textDocument/rename", &v, doc, text, json!([p.0, p.1]));
                cx.check_ranges("textDocument/rename", &v, &uri, doc, text);
                for (u, rs) in workspace_edits(&v) {
                    if u == uri {
                        edit_sets.push(json!(rs.iter().map(|r| json!([r.0.0, r.0.1, r.1.0, r.1.1])).collect::<Vec<_>>()));
                    }
                }
            }
        }
        for m in ["textDocument/hover", "textDocument/definition", "textDocument/implementation", "textDocument/references", "textDocument/documentHighlight",
                  "textDocument/prepareRename", "textDocument/prepareCallHierarchy", "textDocument/signatureHelp"] {
            let params = if m == "textDocument/references" { json!({"textDocument": td, "position": pj, "context": {"includeDeclaration": true}}) } else { json!({"textDocument": td, "position": pj}) };
            if let Some(v) = req_cx(cx, sl, m, params) {
                cx.check_ranges(m, &v, &uri, doc, text);
                if m == "textDocument/prepareCallHierarchy" {
                    if let Some(a) = v.as_array() {
                        for it in a {
                            if let (Some(r), Some(s)) = (it.get("range").and_then(get_range), it.get("selectionRange").and_then(get_range)) {
                                cx.count("call-hierarchy-item");
                                if !contains(r, s) {
                                    cx.v("call-hierarchy-selection-outside-range", format!("call hierarchy item {}: selectionRange {:?} not inside range {:?}", it["name"], s, r), doc, text, json!({}));
                                }
                            }
                            if let Some(v2) = req_cx(cx, sl, "callHierarchy/incomingCalls", json!({"item": it})) {
                                cx.check_ranges("callHierarchy/incomingCalls", &v2, &uri, doc, text);
                            }
                        }
                    }
                }
            }
        }
    }
    // code actions: diagnostics pulled from the server itself, then asked back
    if let Some(v) = req_cx(cx, sl, "textDocument/diagnostic", json!({"textDocument": td})) {
        let items = v.get("items").and_then(|i| i.as_array()).cloned().unwrap_or_default();
        for d in items.iter().take(maxpos) {
            if let Some(r) = d.get("range") {
                if let Some(v2) = req_cx(cx, sl, "textDocument/codeAction", json!({"textDocument": td, "range": r, "context": {"diagnostics": [d]}})) {
                    cx.check_ranges("textDocument/codeAction", &v2, &uri, doc, text);
                    let mut wes = Vec::new();
                    find_workspace_edits(&v2, &mut wes);
                    for we in wes {
                        check_workspace_edit(cx, "textDocument/codeAction", we, doc, text, r.clone());
                        for (u, rs) in workspace_edits(we) {
                            if u == uri {
                                edit_sets.push(json!(rs.iter().map(|r| json!([r.0.0, r.0.1, r.1.0, r.1.1])).collect::<Vec<_>>()));
                            }
                        }
                    }
                }
            }
        }
    }
    o.insert("edit_sets".into(), json!(edit_sets));
    {
        let mut rs = cx.doc_ranges.clone();
        rs.sort();
        rs.dedup();
        o.insert("ranges".into(), json!(rs.iter().map(|r| json!([r.0.0, r.0.1, r.1.0, r.1.1])).collect::<Vec<_>>()));
    }
    if let Some(out) = obs {
        out.insert("doc".into(), json!(doc));
        out.insert("t".into(), json!(text.chars().map(|c| c as u32).collect::<Vec<_>>()));
        for (k, v) in o {
            out.insert(k, v);
        }
    }
}

fn documents(rng: &mut Rng, n: usize, size: usize, stddir: &str, corpus: &str) -> Vec<(String, String)> {
    let mut docs: Vec<(String, String)> = Vec::new();
    if !corpus.is_empty() {
        if let Ok(rd) = std::fs::read_dir(corpus) {
            let mut ps: Vec<_> = rd.filter_map(|e| e.ok()).map(|e| e.path()).collect();
            ps.sort();
            for p in ps {
                if let Ok(s) = std::fs::read_to_string(&p) {
                    if let Ok(j) = serde_json::from_str::<Value>(&s) {
                        if let Some(t) = j.get("text").and_then(|t| t.as_str()) {
                            docs.push((format!("corpus:{}", p.file_stem().unwrap().to_string_lossy()), t.to_string()));
                        }
                    }
                }
            }
        }
    }
    for (n, t) in gen_::fixed_docs() {
        docs.push((format!("fixed:{}", n), t));
    }
    if !stddir.is_empty() {
        if let Ok(rd) = std::fs::read_dir(stddir) {
            let mut ps: Vec<_> = rd.filter_map(|e| e.ok()).map(|e| e.path()).filter(|p| p.extension().map(|e| e == "lua").unwrap_or(false)).collect();
            ps.sort();
            for p in ps {
                if let Ok(s) = std::fs::read_to_string(&p) {
                    docs.push((format!("std:{}", p.file_name().unwrap().to_string_lossy()), s));
                }
            }
        }
    }
    for i in 0..n {
        let mode = gen_::MODES[i % gen_::MODES.len()];
        docs.push((format!("gen:{}:{}", gen_::mode_name(mode), i), gen_::gen_doc(rng, mode, size)));
    }
    docs
}

fn caps(multiline: bool) -> Value {
    json!({"textDocument": {"semanticTokens": {"multilineTokenSupport": multiline, "requests": {"full": true}, "tokenTypes": [], "tokenModifiers": [], "formats": ["relative"]},
                            "documentSymbol": {"hierarchicalDocumentSymbolSupport": true},
                            "diagnostic": {"dynamicRegistration": false},
                            "completion": {"completionItem": {"snippetSupport": true, "insertReplaceSupport": true}}}})
}

fn main() {
    let args = Args::parse();
    let seed = args.u64("seed", 1);
    let mut rng = Rng::new(seed ^ 0xC26);
    match args.cmd.as_str() {
        "search" | "obs" => {
            let is_obs = args.cmd == "obs";
            let n = args.usize("docs", 20);
            let maxpos = args.usize("maxpos", 12);
            let size = args.usize("size", 4);
            let docs = documents(&mut rng, n, size, &args.str("std", ""), &args.str("corpus", ""));
            let lib = vec![("lib/util.lua".to_string(), "local M = {}\n---@param s string\n---@return string\nfunction M.trim(s) return s end\nreturn M\n".to_string())];
            let mut sl = Server::start("c26sl", caps(false), &lib);
            let mut ml = Server::start("c26ml", caps(true), &lib);
            let mut cx = Ctx { viol: vec![], sig_seen: HashMap::new(), checked: BTreeMap::new(), unverifiable: 0, noresult: 0, texts: HashMap::new(), cur_uri: String::new(), doc_ranges: Vec::new() };
            let mut kinds: BTreeMap<String, u64> = BTreeMap::new();
            let mut distinct: HashSet<u64> = HashSet::new();
            let maxchars = args.usize("maxchars", 1_000_000);
            let mut obs_left = args.usize("obs", 0);
            let mut ndocs = 0;
            for (i, (name, text)) in docs.iter().enumerate() {
                if is_obs && text.chars().count() > maxchars {
                    continue;
                }
                ndocs += 1;
                let k = if name.starts_with("gen:") { name.split(':').take(2).collect::<Vec<_>>().join(":") } else { name.split(':').next().unwrap().to_string() };
                *kinds.entry(k).or_default() += 1;
                use std::hash::{Hash, Hasher};
                let mut h = std::collections::hash_map::DefaultHasher::new();
                text.hash(&mut h);
                if text.lines().count() > 1 {
                    distinct.insert(h.finish());
                }
                let mp = if name.starts_with("std:") { maxpos / 2 + 1 } else { maxpos };
                let emit = is_obs || (obs_left > 0 && text.chars().count() <= maxchars);
                if emit {
                    obs_left = obs_left.saturating_sub(1);
                    let mut o = serde_json::Map::new();
                    run_doc(&mut cx, &mut sl, &mut ml, i, name, text, &mut rng, mp, Some(&mut o));
                    println!("{}", json!({"obs": Value::Object(o)}));
                } else {
                    run_doc(&mut cx, &mut sl, &mut ml, i, name, text, &mut rng, mp, None);
                }
            }
            if !is_obs {
                for v in &cx.viol {
                    println!("{}", v);
                }
                let hits: BTreeMap<String, usize> = cx.sig_seen.iter().map(|(k, v)| (k.clone(), *v)).collect();
                println!("{}", json!({"summary": {"documents": ndocs, "requests": sl.requests + ml.requests, "distinct_nontrivial": distinct.len(),
                    "documents_by_kind": kinds, "checked_items": cx.checked, "ranges_in_unreadable_documents": cx.unverifiable,
                    "violation_counts_by_signature": hits, "panics_recorded": drv::panic_count(), "requests_without_result": cx.noresult,
                    "panic_messages": drv::PANICS.lock().map(|p| p.iter().cloned().collect::<std::collections::BTreeSet<_>>()).unwrap_or_default()}}));
            }
            sl.cleanup();
            ml.cleanup();
            std::process::exit(0);
        }
        "build" => {
            // correspondence of the semantic-token encoder: the REAL push_data/build through the hook
            use emmylua_code_analysis::{Emmyrc, Vfs, VirtualUrlGenerator};
            let n = args.usize("n", 200);
            let alphabet: Vec<char> = vec!['a', 'b', ' ', '\n', '\n', '\r', 'é', '😀', '-', '中'];
            // deterministic split cases first: a multi-line token whose non-last lines hold non-ASCII / astral text,
            // LF, CRLF and lone CR line ends, client without multilineTokenSupport (and with, for contrast)
            let fixed_texts = ["local s = [[你好，世界\n第二行 — über\nend]]\nlocal t = 1\n",
                               "local s = [[a😀b😀\r\n𝒳𝒳 é\r\nlast]]\r\nlocal t = 1\r\n",
                               "local s = [==[中文😀\r— ß 😀😀\rz]==]\rlocal t = 1\r",
                               "--[[ 😀 комментарий\n   中 😀😀 é\n   конец ]]\nlocal x = 1\n"];
            let mut fixed_cases: Vec<(String, bool, Vec<(u32, u32, u32, u32)>)> = Vec::new();
            for t in fixed_texts {
                let a = t.find('[').unwrap_or(0) as u32;
                let b = (t.rfind(']').unwrap_or(0) + 1) as u32;
                let a0 = if t.starts_with("--") { 0 } else { a };
                for ml in [false, true] {
                    // the whole multi-line token, plus a nested single-line token on its second line
                    let second = (t.char_indices().find(|(_, c)| *c == '\n' || *c == '\r').map(|(i, _)| i).unwrap_or(0) + 1) as u32;
                    let mut second = second as usize;
                    while !t.is_char_boundary(second) || t.as_bytes().get(second) == Some(&b'\n') {
                        second += 1;
                    }
                    let mut e2 = second + 1;
                    while !t.is_char_boundary(e2) {
                        e2 += 1;
                    }
                    fixed_cases.push((t.to_string(), ml, vec![(a0, b, 18, 0), (second as u32, e2 as u32, 15, 1)]));
                }
            }
            for i in 0..(n + fixed_cases.len()) {
                if i < fixed_cases.len() {
                    let (text, ml, pushes) = fixed_cases[i].clone();
                    let mut vfs = Vfs::new();
                    vfs.update_config(Emmyrc::default().into());
                    let vg = VirtualUrlGenerator::new();
                    let uri = vg.new_uri("c26.lua");
                    let id = vfs.set_file_content(&uri, Some(text.clone()));
                    if let Some(doc) = vfs.get_document(&id) {
                        if doc.get_text() == text {
                            let out = vh_common::guarded(|| emmylua_ls::verif_semantic_push_and_build(&doc, ml, &pushes));
                            let outv = match out {
                                Ok(v) => json!(v.iter().map(|t| t.to_vec()).collect::<Vec<_>>()),
                                Err(_) => json!("P"),
                            };
                            println!("{}", json!({"t": text.chars().map(|c| c as u32).collect::<Vec<_>>(), "ml": ml, "fixed": true,
                                "pushes": pushes.iter().map(|p| vec![p.0, p.1, p.2, p.3]).collect::<Vec<_>>(), "out": outv}));
                        }
                    }
                    continue;
                }
                let len = 1 + rng.below(args.usize("maxlen", 30));
                let mode = rng.below(4);
                let text: String = (0..len).map(|_| match mode {
                    0 => *rng.pick(&['a', 'b', '\n', ' ']),
                    1 => *rng.pick(&['a', '\r', '\n', 'b', 'c']),
                    _ => *rng.pick(&alphabet),
                }).collect();
                let bs: Vec<usize> = (0..=text.len()).filter(|o| text.is_char_boundary(*o)).collect();
                let np = 1 + rng.below(8);
                let mut pushes: Vec<(u32, u32, u32, u32)> = Vec::new();
                for _ in 0..np {
                    let a = bs[rng.below(bs.len())];
                    let span = rng.below(4);
                    let bi = bs.iter().position(|x| *x == a).unwrap();
                    let b = if rng.chance(1, 5) { bs[rng.range(bi, bs.len() - 1)] } else { bs[(bi + span).min(bs.len() - 1)] };
                    pushes.push((a as u32, b as u32, rng.below(24) as u32, rng.below(1024) as u32));
                }
                if rng.chance(1, 6) && !pushes.is_empty() {
                    // the same start twice (de-duplicated by start offset)
                    let p0 = pushes[0];
                    pushes.push((p0.0, (p0.1 + 1).min(text.len() as u32).max(p0.0), 1, 0));
                    if !text.is_char_boundary(pushes.last().unwrap().1 as usize) {
                        pushes.pop();
                    }
                }
                let ml = i % 3 == 2;
                let mut vfs = Vfs::new();
                vfs.update_config(Emmyrc::default().into());
                let vg = VirtualUrlGenerator::new();
                let uri = vg.new_uri("c26.lua");
                let id = vfs.set_file_content(&uri, Some(text.clone()));
                let Some(doc) = vfs.get_document(&id) else { continue };
                if doc.get_text() != text {
                    continue;
                }
                let out = vh_common::guarded(|| emmylua_ls::verif_semantic_push_and_build(&doc, ml, &pushes));
                let outv = match out {
                    Ok(v) => json!(v.iter().map(|t| t.to_vec()).collect::<Vec<_>>()),
                    Err(_) => json!("P"),
                };
                println!("{}", json!({"t": text.chars().map(|c| c as u32).collect::<Vec<_>>(), "ml": ml,
                    "pushes": pushes.iter().map(|p| vec![p.0, p.1, p.2, p.3]).collect::<Vec<_>>(), "out": outv}));
            }
            std::process::exit(0);
        }
        "probe" => {
            let text: String = serde_json::from_str(&args.str("text-json", "\"\"")).unwrap_or_default();
            let lib = vec![("lib/util.lua".to_string(), "local M = {}\nreturn M\n".to_string())];
            let mut sl = Server::start("c26probe", caps(false), &lib);
            let uri = sl.open("probe.lua", &text);
            let method = args.str("method", "textDocument/completion");
            let r = sl.request(&method, json!({"textDocument": {"uri": uri}, "position": {"line": args.u64("line", 0), "character": args.u64("character", 0)}, "context": {"triggerKind": 1}}), Duration::from_secs(30));
            println!("{:?}", r);
            sl.cleanup();
            std::process::exit(0);
        }
        "one" => {
            let text: String = serde_json::from_str(&args.str("text-json", "\"\"")).unwrap_or_default();
            let lib: Vec<(String, String)> = vec![];
            let mut sl = Server::start("c26one_sl", caps(false), &lib);
            let mut ml = Server::start("c26one_ml", caps(true), &lib);
            let mut cx = Ctx { viol: vec![], sig_seen: HashMap::new(), checked: BTreeMap::new(), unverifiable: 0, noresult: 0, texts: HashMap::new(), cur_uri: String::new(), doc_ranges: Vec::new() };
            run_doc(&mut cx, &mut sl, &mut ml, 0, "one", &text, &mut rng, args.usize("maxpos", 40), None);
            println!("{}", json!({"replay": "c26 one"}));
            for v in &cx.viol {
                println!("{}", v);
            }
            sl.cleanup();
            ml.cleanup();
            std::process::exit(0);
        }
        _ => {
            eprintln!("usage: c26 search|obs|build|one ...");
            std::process::exit(2);
        }
    }
}
