//! C29 harness: after a reload, open files keep the editor's text (real in-process server).
//!   c29 corr|search --seed S --n N --dir D [--files K] [--corpus F]
//!        corr   -> JSON lines {"docs":[..],"hist":[..],"obs":[..]}            (one per history)
//!        search -> JSON lines {"signature","what","case"} for violations + {"summary":{..}}
//!   c29 one --case-json '{"docs":[..],"hist":[..]}' --dir D [--repeat R]
//! docs: [{"kind":"D"|"V"}]   D: workspace file that is on disk (disk text = text 0), V: workspace uri not on disk
//! hist: ["open",doc,k] ["change",doc,k] ["close",doc] ["reload"] ["sleep",ms] ["hold"] ["release"]
//!       "reload" = a `.emmyrc.json` changed event: the server reloads the workspace after its 2 s debounce
//!       "hold"   = wait for the reload's `window/workDoneProgress/create` request (sent after the open-files
//!                  snapshot was taken and before init_analysis takes the analysis write lock) and do NOT answer
//!                  it yet; the following notifications are therefore handled inside that window (wire order);
//!       "release" = answer the held request
//! obs : per doc {"open": k|null, "analysed": k|null|999999}  taken at quiescence through the hook verif/docState
//! Every history uses fresh uris; all histories of a run go to ONE server.
#[path = "../memserver.rs"]
mod memserver;

use lsp_server::{Message, RequestId, Response};
use memserver::*;
use serde_json::{Value, json};
use std::collections::BTreeMap;
use std::io::Write;
use std::path::PathBuf;
use std::time::{Duration, Instant};
use vh_common::{Args, Rng};

fn text_of(k: u64) -> String {
    format!("local t{} = {}\nreturn t{}\n", k, k, k)
}
fn id_of(s: &str) -> u64 {
    s.strip_prefix("local t").and_then(|r| r.split(' ').next()).and_then(|n| n.parse().ok()).unwrap_or(999_999)
}

struct Ctx {
    srv: MemServer,
    root: PathBuf,
    pool_d: Vec<String>,
    fresh: u64,
    next_id: i32,
    version: i64,
    responses: Vec<Response>,
    /// wait for the next LoadWorkspace progress-create request and keep it unanswered
    want_hold: bool,
    held: Option<RequestId>,
    holds_hit: u64,
    holds_missed: u64,
}

/// receive one message: answers server->client requests (except a held progress-create request)
fn pump(cx: &mut Ctx, timeout: Duration) -> bool {
    match cx.srv.client.receiver.recv_timeout(timeout) {
        Ok(Message::Response(r)) => {
            cx.responses.push(r);
            true
        }
        Ok(Message::Request(r)) => {
            if cx.want_hold && cx.held.is_none() && r.method == "window/workDoneProgress/create" && r.params["token"] == json!(0) {
                cx.held = Some(r.id);
                cx.want_hold = false;
            } else {
                let _ = cx.srv.client.sender.send(Message::Response(Response::new_ok(r.id, Value::Null)));
            }
            true
        }
        Ok(Message::Notification(_)) => true,
        Err(_) => false,
    }
}

fn pump_for(cx: &mut Ctx, d: Duration) {
    let t0 = Instant::now();
    while t0.elapsed() < d {
        let left = d.checked_sub(t0.elapsed()).unwrap_or(Duration::from_millis(1));
        pump(cx, left.min(Duration::from_millis(20)));
    }
}

/// pump until nothing arrived for `quiet` (at most `max`)
fn pump_quiet(cx: &mut Ctx, quiet: Duration, max: Duration) {
    let t0 = Instant::now();
    let mut last = Instant::now();
    while t0.elapsed() < max && last.elapsed() < quiet {
        if pump(cx, Duration::from_millis(10)) {
            last = Instant::now();
        }
    }
}

fn caps() -> Value {
    // work-done progress: the reload asks the client to create its progress token between the open-files
    // snapshot and init_analysis, which lets a history place notifications inside that window
    json!({"workspace": {"configuration": false, "didChangeWatchedFiles": {"dynamicRegistration": true}}, "textDocument": {},
           "window": {"workDoneProgress": true}})
}

fn start(args: &Args, need_d: usize) -> Ctx {
    let dir = PathBuf::from(args.str("dir", std::env::temp_dir().to_str().unwrap()));
    unsafe { std::env::set_var("VH_TMP", &dir) };
    let root = fresh_dir("c29ws");
    // ballast so that a reload takes a noticeable time
    let ballast = args.usize("files", 150);
    for f in 0..ballast {
        let mut s = format!("---@class B{f}\nlocal B{f} = {{}}\n");
        for i in 0..30 {
            s.push_str(&format!("function B{f}.f{i}(a, b)\n  local x = a + {i}\n  return x * b\nend\n"));
        }
        s.push_str(&format!("return B{f}\n"));
        std::fs::write(root.join(format!("ballast_{}.lua", f)), s).unwrap();
    }
    let mut pool_d = Vec::new();
    for i in 0..need_d {
        let p = root.join(format!("disk_{}.lua", i));
        std::fs::write(&p, text_of(0)).unwrap();
        pool_d.push(path_to_uri(&p));
    }
    std::fs::write(root.join(".emmyrc.json"), "{\n  \"diagnostics\": {\"enable\": true}\n}\n").unwrap();
    let mut srv = MemServer::start(&root, caps());
    assert!(srv.wait_ready(1), "server did not become ready");
    srv.drain(Duration::from_millis(300), Duration::from_secs(5));
    srv.take_inbox();
    Ctx { srv, root, pool_d, fresh: 0, next_id: 10, version: 1, responses: Vec::new(), want_hold: false, held: None, holds_hit: 0, holds_missed: 0 }
}

fn probe(cx: &mut Ctx, uris: &[String]) -> Option<Vec<Value>> {
    cx.next_id += 1;
    let id = RequestId::from(cx.next_id);
    cx.srv.send_req(id.clone(), "verif/docState", json!({"uris": uris}));
    let t0 = Instant::now();
    loop {
        if let Some(pos) = cx.responses.iter().position(|r| r.id == id) {
            let r = cx.responses.remove(pos);
            return r.result.and_then(|v| v.as_array().cloned());
        }
        if t0.elapsed() > Duration::from_secs(30) {
            return None;
        }
        pump(cx, Duration::from_millis(20));
    }
}

fn gen_history(rng: &mut Rng) -> (Vec<Value>, Vec<Value>) {
    let nd = rng.range(1, 4);
    let docs: Vec<Value> = (0..nd).map(|_| json!({"kind": if rng.chance(3, 5) { "D" } else { "V" }})).collect();
    let mut hist = Vec::new();
    let mut k = 1u64;
    let mut edit = |rng: &mut Rng, hist: &mut Vec<Value>, k: &mut u64| {
        let d = rng.below(nd);
        match rng.below(5) {
            0 | 1 => hist.push(json!(["open", d, *k])),
            2 | 3 => hist.push(json!(["change", d, *k])),
            _ => hist.push(json!(["close", d])),
        }
        *k += 1;
    };
    if rng.chance(2, 5) {
        // edits of ALREADY OPEN documents placed between the reload's snapshot and init_analysis
        for d in 0..nd {
            hist.push(json!(["open", d, k]));
            k += 1;
        }
        hist.push(json!(["sleep", rng.range(20, 120)]));
        hist.push(json!(["reload"]));
        hist.push(json!(["hold"]));
        for _ in 0..rng.range(1, 4) {
            let d = rng.below(nd);
            if rng.chance(4, 5) {
                hist.push(json!(["change", d, k]));
            } else {
                hist.push(json!(["close", d]));
            }
            k += 1;
        }
        hist.push(json!(["release"]));
        for _ in 0..rng.range(0, 3) {
            edit(rng, &mut hist, &mut k);
        }
        return (docs, hist);
    }
    // a few edits before the reload request
    for _ in 0..rng.range(0, 4) {
        edit(rng, &mut hist, &mut k);
    }
    hist.push(json!(["reload"]));
    if rng.chance(1, 4) {
        hist.push(json!(["sleep", rng.range(100, 900)]));
        hist.push(json!(["reload"]));
    }
    // aim at the reload (2 s debounce), then edits with small gaps while it runs
    hist.push(json!(["sleep", rng.range(1850, 2150)]));
    for _ in 0..rng.range(2, 12) {
        edit(rng, &mut hist, &mut k);
        if rng.chance(2, 3) {
            hist.push(json!(["sleep", rng.range(1, 60)]));
        }
    }
    (docs, hist)
}

/// run one history on fresh uris; returns the observations at quiescence
fn run_history(cx: &mut Ctx, docs: &[Value], hist: &[Value]) -> Vec<Value> {
    let mut uris = Vec::new();
    for d in docs {
        cx.fresh += 1;
        if d["kind"].as_str() == Some("D") {
            uris.push(cx.pool_d.pop().expect("on-disk pool exhausted"));
        } else {
            uris.push(format!("{}/virt_{}.lua", cx.srv.root_uri, cx.fresh));
        }
    }
    let mut last_reload: Option<Instant> = None;
    for h in hist {
        let op = h[0].as_str().unwrap_or("");
        let u = h[1].as_u64().map(|i| uris[(i as usize) % uris.len()].clone());
        cx.version += 1;
        match op {
            "open" => cx.srv.send_notif("textDocument/didOpen", json!({"textDocument": {"uri": u.unwrap(), "languageId": "lua", "version": cx.version, "text": text_of(h[2].as_u64().unwrap_or(1))}})),
            "change" => cx.srv.send_notif("textDocument/didChange", json!({"textDocument": {"uri": u.unwrap(), "version": cx.version}, "contentChanges": [{"text": text_of(h[2].as_u64().unwrap_or(1))}]})),
            "close" => cx.srv.send_notif("textDocument/didClose", json!({"textDocument": {"uri": u.unwrap()}})),
            "reload" => {
                cx.srv.send_notif("workspace/didChangeWatchedFiles", json!({"changes": [{"uri": format!("{}/.emmyrc.json", cx.srv.root_uri), "type": 2}]}));
                last_reload = Some(Instant::now());
            }
            "sleep" => pump_for(cx, Duration::from_millis(h[1].as_u64().unwrap_or(1))),
            "hold" => {
                cx.want_hold = true;
                let t0 = Instant::now();
                while cx.held.is_none() && t0.elapsed() < Duration::from_secs(8) {
                    pump(cx, Duration::from_millis(20));
                }
                if cx.held.is_some() {
                    cx.holds_hit += 1;
                } else {
                    cx.holds_missed += 1;
                    cx.want_hold = false;
                }
            }
            "release" => {
                if let Some(id) = cx.held.take() {
                    let _ = cx.srv.client.sender.send(Message::Response(Response::new_ok(id, Value::Null)));
                }
            }
            _ => {}
        }
    }
    // quiescence: the debounce (2 s) + the reload itself, then silence
    if let Some(id) = cx.held.take() {
        let _ = cx.srv.client.sender.send(Message::Response(Response::new_ok(id, Value::Null)));
    }
    if let Some(t) = last_reload {
        while t.elapsed() < Duration::from_millis(2400) {
            pump_for(cx, Duration::from_millis(50));
        }
    }
    pump_quiet(cx, Duration::from_millis(700), Duration::from_secs(20));
    let f = |v: &Value| match v {
        Value::String(s) => json!(id_of(s)),
        _ => Value::Null,
    };
    // "once everything settles": the end of the reload's version loop is not observable, so an observation
    // that does not yet match is re-taken for up to 20 s (a loaded machine can delay the reload task for
    // seconds); only a state that stays wrong is reported
    let t_obs = Instant::now();
    let mut obs: Vec<Value>;
    loop {
        let st = probe(cx, &uris).unwrap_or_default();
        obs = (0..uris.len()).map(|i| {
            let p = st.get(i).cloned().unwrap_or(Value::Null);
            json!({"open": f(&p["open"]), "analysed": f(&p["analysed"])})
        }).collect();
        if oracle(docs, hist, &obs).is_empty() || t_obs.elapsed() > Duration::from_secs(20) {
            break;
        }
        pump_for(cx, Duration::from_millis(500));
    }
    // leave nothing open behind (the next history uses other uris)
    for u in &uris {
        cx.srv.send_notif("textDocument/didClose", json!({"textDocument": {"uri": u}}));
    }
    cx.responses.clear();
    obs
}

/// the property oracle, evaluated on the implementation's observations alone
fn oracle(docs: &[Value], hist: &[Value], obs: &[Value]) -> Vec<(String, String)> {
    let mut editor: BTreeMap<usize, Option<u64>> = BTreeMap::new();
    for h in hist {
        let d = h[1].as_u64().unwrap_or(0) as usize % docs.len().max(1);
        match h[0].as_str().unwrap_or("") {
            "open" | "change" => {
                editor.insert(d, Some(h[2].as_u64().unwrap_or(1)));
            }
            "close" => {
                editor.insert(d, None);
            }
            _ => {}
        }
    }
    let mut out = Vec::new();
    for (i, d) in docs.iter().enumerate() {
        let ed = editor.get(&i).cloned().unwrap_or(None);
        let o = &obs[i];
        let on_disk = d["kind"].as_str() == Some("D");
        if o["open"].as_u64() != ed {
            out.push(("editor-text-wrong".to_string(), format!("doc {}: workspace manager holds {} but the last notification says {:?}", i, o["open"], ed)));
        }
        match ed {
            Some(k) => {
                if o["analysed"].as_u64() != Some(k) {
                    out.push(("open-stale".to_string(), format!("doc {} is open with editor text {} but the analysis holds {}", i, k, o["analysed"])));
                }
            }
            None => {
                if on_disk && o["analysed"].as_u64() != Some(0) {
                    out.push(("closed-not-disk".to_string(), format!("doc {} is closed and on disk (text 0) but the analysis holds {}", i, o["analysed"])));
                }
                if !on_disk && !o["analysed"].is_null() {
                    out.push(("closed-not-absent".to_string(), format!("doc {} is closed and not on disk but the analysis still holds {}", i, o["analysed"])));
                }
            }
        }
    }
    out
}

fn corpus_cases(path: &str) -> Vec<(Vec<Value>, Vec<Value>)> {
    let mut v = Vec::new();
    if !path.is_empty() {
        if let Ok(txt) = std::fs::read_to_string(path) {
            for l in txt.lines().filter(|l| l.trim_start().starts_with('{')) {
                if let Ok(c) = serde_json::from_str::<Value>(l) {
                    if let (Some(d), Some(h)) = (c["docs"].as_array(), c["hist"].as_array()) {
                        v.push((d.clone(), h.clone()));
                    }
                }
            }
        }
    }
    v
}

fn main() {
    let args = Args::parse();
    let stdout = std::io::stdout();
    let mut out = stdout.lock();
    match args.cmd.as_str() {
        "corr" | "search" => {
            let mut rng = Rng::new(args.u64("seed", 1) ^ 0xC29);
            let n = args.usize("n", 6);
            let mut cases = corpus_cases(&args.str("corpus", ""));
            let ncorpus = cases.len();
            for _ in 0..n {
                cases.push(gen_history(&mut rng));
            }
            let need: usize = cases.iter().map(|(d, _)| d.iter().filter(|x| x["kind"] == "D").count()).sum();
            let mut cx = start(&args, need + 2);
            let mut dist: BTreeMap<String, u64> = BTreeMap::new();
            let mut distinct = std::collections::HashSet::new();
            let mut nviol = 0;
            for (docs, hist) in &cases {
                for h in hist {
                    *dist.entry(h[0].as_str().unwrap_or("?").to_string()).or_insert(0) += 1;
                }
                let obs = run_history(&mut cx, docs, hist);
                distinct.insert(serde_json::to_string(&(docs, hist)).unwrap());
                if args.cmd == "corr" {
                    writeln!(out, "{}", json!({"docs": docs, "hist": hist, "obs": obs})).unwrap();
                } else {
                    for (sig, what) in oracle(docs, hist, &obs) {
                        nviol += 1;
                        writeln!(out, "{}", json!({"signature": sig, "what": what, "case": {"docs": docs, "hist": hist, "obs": obs}})).unwrap();
                    }
                }
            }
            writeln!(out, "{}", json!({"summary": {"histories": cases.len(), "corpus": ncorpus, "distinct_nontrivial": distinct.len(), "ops": dist, "violations": nviol,
                "snapshot_window_holds_hit": cx.holds_hit, "snapshot_window_holds_missed": cx.holds_missed}})).unwrap();
            let _ = std::fs::remove_dir_all(&cx.root);
            out.flush().unwrap();
            std::process::exit(0);
        }
        "one" => {
            let case: Value = serde_json::from_str(&args.str("case-json", "{}")).expect("case-json");
            let docs = case["docs"].as_array().cloned().unwrap_or_default();
            let hist = case["hist"].as_array().cloned().unwrap_or_default();
            let rep = args.usize("repeat", 3);
            let need = docs.iter().filter(|x| x["kind"] == "D").count() * rep;
            let mut cx = start(&args, need + 2);
            for _ in 0..rep {
                let obs = run_history(&mut cx, &docs, &hist);
                writeln!(out, "{}", json!({"docs": docs, "hist": hist, "obs": obs})).unwrap();
                for (sig, what) in oracle(&docs, &hist, &obs) {
                    writeln!(out, "{}", json!({"signature": sig, "what": what, "case": {"docs": docs, "hist": hist, "obs": obs}})).unwrap();
                }
            }
            let _ = std::fs::remove_dir_all(&cx.root);
            out.flush().unwrap();
            std::process::exit(0);
        }
        _ => {
            eprintln!("usage: c29 corr|search|one ...");
            std::process::exit(2);
        }
    }
}
