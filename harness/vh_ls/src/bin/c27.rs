//! C27 harness: document notifications take effect in message order.
//!   c27 corr   --seed S --n N --dir D [--corpus F]  -> JSON lines {"docs":[…], "hist":[…], "obs":[…]}
//!   c27 search --seed S --n N --dir D [--corpus F]  -> JSON lines {"signature","what","case"} + {"summary":…}
//!   c27 one    --case-json '{"docs":[…],"hist":[…]}' --dir D [--repeat R]
//! All histories of a run go to ONE real in-process server (hook verif_serve); every history uses fresh uris.
//!
//! docs: [{"kind": "V"|"D"|"O"|"X"}]   V: in the workspace, not on disk; D: in the workspace, on disk;
//!                                      O: outside the workspace, on disk; X: outside, not on disk
//! hist: ["open", doc, text] | ["change", doc, text] | ["change0", doc] (empty contentChanges) | ["close", doc]
//!       | ["save", doc] | ["trace"]            (text = a small integer naming the text `local t<k> = <k>`)
//!       | ["reload"]   a `.emmyrc.json` changed event: the server reloads the workspace after its 2 s debounce
//!       | ["hold"]     wait until that reload has taken its open-files snapshot and asks the client for its progress
//!                      token (sent between the snapshot and the re-index), and keep the request unanswered
//!       | ["release"]  answer the held request: the reload re-indexes and runs its version loop
//!       | ["sleep", ms]
//! obs : per doc  {"open": k|null, "vfs": k|null, "sym": [names]|null, "init_vfs": k|null}
//!       text 0 is the on-disk content.
#[path = "../memserver.rs"]
mod memserver;

use lsp_server::RequestId;
use memserver::*;
use serde_json::{Value, json};
use std::collections::{BTreeMap, HashSet};
use std::io::Write;
use std::path::PathBuf;
use std::time::{Duration, Instant};
use vh_common::{Args, Rng};

fn text_of(k: u64) -> String {
    format!("local t{} = {}\n", k, k)
}
/// inverse of text_of; texts that are not of that shape map to 999999
fn id_of(s: &str) -> u64 {
    s.strip_prefix("local t").and_then(|r| r.split(' ').next()).and_then(|n| n.parse().ok()).unwrap_or(999_999)
}

struct Ctx {
    srv: MemServer,
    out_dir: PathBuf,
    pool_d: Vec<String>, // unused on-disk workspace uris
    pool_o: Vec<String>, // unused on-disk outside uris
    fresh: u64,
    next_id: i32,
    holds_hit: u64,
    holds_missed: u64,
}

fn start(args: &Args, need: usize) -> Ctx {
    let dir = PathBuf::from(args.str("dir", std::env::temp_dir().to_str().unwrap()));
    unsafe { std::env::set_var("VH_TMP", &dir) };
    let root = fresh_dir("c27ws");
    let out_dir = fresh_dir("c27out");
    let mut pool_d = Vec::new();
    let mut pool_o = Vec::new();
    for i in 0..need {
        let p = root.join(format!("disk_{}.lua", i));
        std::fs::write(&p, text_of(0)).unwrap();
        pool_d.push(path_to_uri(&p));
        if i < need / 2 + 2 {
            let q = out_dir.join(format!("out_{}.lua", i));
            std::fs::write(&q, text_of(0)).unwrap();
            pool_o.push(path_to_uri(&q));
        }
    }
    std::fs::write(root.join(".emmyrc.json"), "{\n  \"diagnostics\": {\"enable\": true}\n}\n").unwrap();
    let mut srv = MemServer::start(&root, MemServer::reload_caps());
    assert!(srv.wait_ready(1), "server did not become ready");
    srv.drain(Duration::from_millis(300), Duration::from_secs(5));
    srv.take_inbox();
    Ctx { srv, out_dir, pool_d, pool_o, fresh: 0, next_id: 10, holds_hit: 0, holds_missed: 0 }
}

fn alloc_uri(cx: &mut Ctx, kind: &str) -> String {
    cx.fresh += 1;
    match kind {
        "D" => cx.pool_d.pop().expect("on-disk pool exhausted"),
        "O" => cx.pool_o.pop().expect("outside pool exhausted"),
        "V" => format!("{}/virt_{}.lua", cx.srv.root_uri, cx.fresh),
        _ => format!("{}/nofile_{}.lua", path_to_uri(&cx.out_dir), cx.fresh),
    }
}

fn probe(cx: &mut Ctx, uris: &[String]) -> Option<Vec<Value>> {
    cx.next_id += 1;
    let id = RequestId::from(cx.next_id);
    cx.srv.send_req(id.clone(), "verif/docState", json!({"uris": uris}));
    let r = cx.srv.wait_response(&id, Duration::from_secs(20))?;
    r.result.and_then(|v| v.as_array().cloned())
}

fn symbols(cx: &mut Ctx, uri: &str) -> Value {
    cx.next_id += 1;
    let id = RequestId::from(cx.next_id);
    cx.srv.send_req(id.clone(), "textDocument/documentSymbol", json!({"textDocument": {"uri": uri}}));
    match cx.srv.wait_response(&id, Duration::from_secs(20)) {
        Some(r) => match r.result {
            Some(Value::Array(a)) => {
                let mut names: Vec<String> = Vec::new();
                fn walk(v: &Value, out: &mut Vec<String>) {
                    if let Some(n) = v.get("name").and_then(Value::as_str) {
                        out.push(n.to_string());
                    }
                    if let Some(Value::Array(c)) = v.get("children") {
                        for x in c {
                            walk(x, out);
                        }
                    }
                }
                for x in &a {
                    walk(x, &mut names);
                }
                // the top-level symbol is the file itself; keep only t<k> names
                let mut ts: Vec<String> = names.into_iter().filter(|n| n.starts_with('t') && n[1..].chars().all(|c| c.is_ascii_digit()) && n.len() > 1).collect();
                ts.sort();
                json!(ts)
            }
            _ => Value::Null,
        },
        None => json!("no-response"),
    }
}

fn state_of(p: &Value) -> (Value, Value) {
    let f = |v: &Value| match v {
        Value::String(s) => json!(id_of(s)),
        _ => Value::Null,
    };
    (f(&p["open"]), f(&p["analysed"]))
}

fn observe(cx: &mut Ctx, uris: &[String], fin: &[Value], init: &[Value]) -> Vec<Value> {
    let mut obs = Vec::new();
    for (i, u) in uris.iter().enumerate() {
        let (open, vfs) = fin.get(i).map(state_of).unwrap_or((Value::Null, Value::Null));
        let (_, init_vfs) = init.get(i).map(state_of).unwrap_or((Value::Null, Value::Null));
        let sym = symbols(cx, u);
        obs.push(json!({"open": open, "vfs": vfs, "sym": sym, "init_vfs": init_vfs}));
    }
    obs
}

/// run one history on fresh uris; returns the observation list
fn run_history(cx: &mut Ctx, docs: &[Value], hist: &[Value]) -> Vec<Value> {
    let uris: Vec<String> = docs.iter().map(|d| alloc_uri(cx, d["kind"].as_str().unwrap_or("V"))).collect();
    let init = probe(cx, &uris).unwrap_or_default();
    let mut version = 1;
    let mut last_reload: Option<Instant> = None;
    for h in hist {
        let op = h[0].as_str().unwrap_or("");
        let u = h[1].as_u64().map(|i| uris[(i as usize) % uris.len()].clone());
        version += 1;
        match op {
            "open" => cx.srv.send_notif("textDocument/didOpen", json!({"textDocument": {"uri": u.unwrap(), "languageId": "lua", "version": version, "text": text_of(h[2].as_u64().unwrap_or(1))}})),
            "change" => cx.srv.send_notif("textDocument/didChange", json!({"textDocument": {"uri": u.unwrap(), "version": version}, "contentChanges": [{"text": text_of(h[2].as_u64().unwrap_or(1))}]})),
            "change0" => cx.srv.send_notif("textDocument/didChange", json!({"textDocument": {"uri": u.unwrap(), "version": version}, "contentChanges": []})),
            "close" => cx.srv.send_notif("textDocument/didClose", json!({"textDocument": {"uri": u.unwrap()}})),
            "save" => cx.srv.send_notif("textDocument/didSave", json!({"textDocument": {"uri": u.unwrap()}})),
            "reload" => {
                cx.srv.send_notif("workspace/didChangeWatchedFiles", json!({"changes": [{"uri": format!("{}/.emmyrc.json", cx.srv.root_uri), "type": 2}]}));
                last_reload = Some(Instant::now());
            }
            "hold" => {
                if cx.srv.hold(Duration::from_secs(10)) {
                    cx.holds_hit += 1;
                } else {
                    cx.holds_missed += 1;
                }
            }
            "release" => cx.srv.release(),
            "sleep" => cx.srv.drain(Duration::from_millis(h[1].as_u64().unwrap_or(1)), Duration::from_millis(h[1].as_u64().unwrap_or(1))),
            _ => cx.srv.send_notif("$/setTrace", json!({"value": "off"})),
        }
    }
    cx.srv.release();
    if let Some(t) = last_reload {
        // the debounce (2 s), the reload itself and its version loop; then silence
        while t.elapsed() < Duration::from_millis(2400) {
            cx.srv.drain(Duration::from_millis(50), Duration::from_millis(50));
        }
        cx.srv.drain(Duration::from_millis(700), Duration::from_secs(20));
    }
    // quiescence: the probe is answered inline on the main loop, i.e. after every inline notification; spawned
    // notification tasks may still be running, so poll until two consecutive probes agree
    let t0 = Instant::now();
    let mut last: Option<Vec<Value>> = None;
    let mut stable = 0;
    let mut fin = Vec::new();
    while t0.elapsed() < Duration::from_secs(5) {
        let p = probe(cx, &uris).unwrap_or_default();
        if Some(&p) == last.as_ref() {
            stable += 1;
            if stable >= 2 {
                fin = p;
                break;
            }
        } else {
            stable = 0;
        }
        fin = p.clone();
        last = Some(p);
        std::thread::sleep(Duration::from_millis(40));
    }
    let mut obs = observe(cx, &uris, &fin, &init);
    if last_reload.is_some() {
        // the end of the reload's version loop is not observable: an observation that does not match yet is
        // re-taken for up to 15 s (a loaded machine can delay the reload task); only a state that stays wrong counts
        let t_obs = Instant::now();
        while !violations(docs, hist, &obs).is_empty() && t_obs.elapsed() < Duration::from_secs(15) {
            cx.srv.drain(Duration::from_millis(500), Duration::from_millis(500));
            let p = probe(cx, &uris).unwrap_or_default();
            obs = observe(cx, &uris, &p, &init);
        }
    }
    // leave the documents closed so that later histories do not see open documents pile up
    for u in &uris {
        cx.srv.send_notif("textDocument/didClose", json!({"textDocument": {"uri": u}}));
    }
    cx.srv.drain(Duration::from_millis(5), Duration::from_millis(30));
    cx.srv.take_inbox();
    // on-disk uris are recycled (the next history observes its own initial state)
    for (u, d) in uris.iter().zip(docs) {
        match d["kind"].as_str() {
            Some("D") => cx.pool_d.insert(0, u.clone()),
            Some("O") => cx.pool_o.insert(0, u.clone()),
            _ => {}
        }
    }
    obs
}

fn gen_history(rng: &mut Rng) -> (Vec<Value>, Vec<Value>) {
    let ndocs = 1 + rng.below(3);
    let mut docs = Vec::new();
    for _ in 0..ndocs {
        let k = match rng.below(10) {
            0..=4 => "V",
            5..=7 => "D",
            8 => "O",
            _ => "X",
        };
        docs.push(json!({"kind": k}));
    }
    let n = 2 + rng.below(9);
    let mut hist = Vec::new();
    let mut opened = vec![false; ndocs];
    let mut text = 0u64;
    for _ in 0..n {
        let d = rng.below(ndocs);
        let roll = rng.below(100);
        // mostly protocol-conformant (open before change/close), sometimes not
        let conformant = rng.chance(9, 10);
        let op = if !opened[d] && conformant {
            "open"
        } else if roll < 45 {
            "change"
        } else if roll < 65 {
            "close"
        } else if roll < 80 {
            "open"
        } else if roll < 86 {
            "change0"
        } else if roll < 94 {
            "save"
        } else {
            "trace"
        };
        match op {
            "open" => {
                text += 1;
                opened[d] = true;
                hist.push(json!(["open", d, text]));
            }
            "change" => {
                text += 1;
                hist.push(json!(["change", d, text]));
            }
            "close" => {
                opened[d] = false;
                hist.push(json!(["close", d]));
            }
            "change0" => hist.push(json!(["change0", d])),
            "save" => hist.push(json!(["save", d])),
            _ => hist.push(json!(["trace"])),
        }
    }
    (docs, hist)
}

/// a history around a workspace reload: documents are opened, the reload is triggered, and while the client holds
/// the reload's progress request back (i.e. between the reload's open-files snapshot and its re-index) more
/// notifications arrive — mostly edits of ALREADY OPEN documents
fn gen_reload_history(rng: &mut Rng) -> (Vec<Value>, Vec<Value>) {
    let ndocs = 1 + rng.below(2);
    let docs: Vec<Value> = (0..ndocs).map(|_| json!({"kind": if rng.chance(2, 3) { "V" } else { "D" }})).collect();
    let mut hist = Vec::new();
    let mut text = 0u64;
    let mut opened = vec![false; ndocs];
    for d in 0..ndocs {
        if d == 0 || rng.chance(2, 3) {
            text += 1;
            hist.push(json!(["open", d, text]));
            opened[d] = true;
            if rng.chance(1, 3) {
                text += 1;
                hist.push(json!(["change", d, text]));
            }
        }
    }
    hist.push(json!(["reload"]));
    let held = rng.chance(4, 5);
    if held {
        hist.push(json!(["hold"]));
    } else {
        hist.push(json!(["sleep", 1900 + rng.below(300)]));
    }
    for _ in 0..(1 + rng.below(3)) {
        let d = rng.below(ndocs);
        let roll = rng.below(10);
        if opened[d] && roll < 7 {
            text += 1;
            hist.push(json!(["change", d, text]));
        } else if opened[d] && roll < 8 {
            hist.push(json!(["close", d]));
            opened[d] = false;
        } else {
            text += 1;
            hist.push(json!(["open", d, text]));
            opened[d] = true;
        }
    }
    if held {
        hist.push(json!(["release"]));
    }
    if rng.chance(1, 3) {
        let d = rng.below(ndocs);
        if opened[d] {
            text += 1;
            hist.push(json!(["change", d, text]));
        }
    }
    (docs, hist)
}

/// the property oracle (implementation only): last notification about each document decides
fn violations(docs: &[Value], hist: &[Value], obs: &[Value]) -> Vec<(String, String)> {
    let mut out = Vec::new();
    let with_reload = hist.iter().any(|h| h[0] == "reload");
    for (i, d) in docs.iter().enumerate() {
        let kind = d["kind"].as_str().unwrap_or("V");
        let ws = kind == "V" || kind == "D";
        let disk = kind == "D" || kind == "O";
        // last and second-to-last notification about doc i that carries an effect
        let mut last: Option<(&str, Option<u64>)> = None;
        let mut prev: Option<&str> = None;
        for h in hist {
            let op = h[0].as_str().unwrap_or("");
            if h[1].as_u64() != Some(i as u64) {
                continue;
            }
            match op {
                "open" | "change" => {
                    prev = last.map(|x| x.0);
                    last = Some((op, h[2].as_u64()));
                }
                "close" => {
                    prev = last.map(|x| x.0);
                    last = Some(("close", None));
                }
                _ => {}
            }
        }
        let Some((lop, lt)) = last else { continue };
        let o = &obs[i];
        let chain = format!("{}-then-{}{}", prev.unwrap_or("start"), lop, if with_reload { "+reload" } else { "" });
        match lt {
            Some(t) => {
                if o["open"].as_u64() != Some(t) {
                    out.push((format!("editor-text-not-last:{}", chain), format!("doc {} ({}): editor text {} but the last notification carried text {}", i, kind, o["open"], t)));
                }
                if ws {
                    if o["vfs"].as_u64() != Some(t) {
                        out.push((format!("analysed-text-not-last:{}", chain), format!("doc {} ({}): analysed text {} but the last notification ({}) carried text {}", i, kind, o["vfs"], lop, t)));
                    }
                    let want = json!([format!("t{}", t)]);
                    if o["sym"] != want {
                        out.push((format!("symbols-not-last:{}", chain), format!("doc {} ({}): documentSymbol shows {} but the last notification ({}) carried text t{}", i, kind, o["sym"], lop, t)));
                    }
                }
            }
            None => {
                if !o["open"].is_null() {
                    out.push((format!("closed-doc-still-open:{}", chain), format!("doc {} ({}): closed last but the editor text {} is still held", i, kind, o["open"])));
                }
                if ws && !disk && !o["vfs"].is_null() {
                    out.push((format!("closed-doc-still-analysed:{}", chain), format!("doc {} ({}): closed last, not on disk, but still analysed with text {}", i, kind, o["vfs"])));
                }
            }
        }
    }
    out
}

fn shape(docs: &[Value], hist: &[Value]) -> String {
    // structural key: doc kinds + op/doc sequence (text numbers are determined by position)
    let mut s = String::new();
    for d in docs {
        s.push_str(d["kind"].as_str().unwrap_or("?"));
    }
    s.push('|');
    for h in hist {
        s.push_str(&format!("{}{};", h[0].as_str().unwrap_or(""), h[1]));
    }
    s
}

fn nontrivial(hist: &[Value]) -> bool {
    // at least two effectful notifications about the same document
    let mut cnt: BTreeMap<u64, usize> = BTreeMap::new();
    for h in hist {
        if matches!(h[0].as_str(), Some("open") | Some("change") | Some("close")) {
            *cnt.entry(h[1].as_u64().unwrap_or(0)).or_insert(0) += 1;
        }
    }
    cnt.values().any(|c| *c >= 2)
}

fn corpus(args: &Args) -> Vec<(Vec<Value>, Vec<Value>)> {
    let mut out = Vec::new();
    if let Some(f) = args.kv.get("corpus") {
        if let Ok(s) = std::fs::read_to_string(f) {
            if let Ok(Value::Array(a)) = serde_json::from_str::<Value>(&s) {
                for c in a {
                    if let (Some(d), Some(h)) = (c.get("docs").and_then(Value::as_array), c.get("hist").and_then(Value::as_array)) {
                        out.push((d.clone(), h.clone()));
                    }
                }
            }
        }
    }
    out
}

fn main() {
    let args = Args::parse();
    let seed = args.u64("seed", 1);
    let n = args.usize("n", 60);
    match args.cmd.as_str() {
        "corr" | "search" => {
            let search = args.cmd == "search";
            let corp = corpus(&args);
            let repeat_corpus = if search { args.usize("corpus-repeat", 5) } else { 1 };
            let total = n + corp.iter().map(|c| if c.1.iter().any(|h| h[0] == "reload") { 1 } else { repeat_corpus }).sum::<usize>();
            let mut cx = start(&args, 24);
            let mut rng = Rng::new(seed ^ if search { 0x5EA2C7 } else { 0xC027 });
            let mut seen = HashSet::new();
            let mut distinct_nontrivial = 0usize;
            let mut ops: BTreeMap<String, usize> = BTreeMap::new();
            let mut kinds: BTreeMap<String, usize> = BTreeMap::new();
            let mut viol = 0usize;
            let mut cases = 0usize;
            let mut ops_reload = 0usize;
            let max_viol = args.usize("max-viol", 40);
            let n_reload = args.usize("reloads", 5);
            let mut reloads_done = 0usize;
            let mut stopped_early = false;
            let mut sig_count: BTreeMap<String, usize> = BTreeMap::new();
            let mut queue: Vec<(Vec<Value>, Vec<Value>)> = Vec::new();
            for c in &corp {
                // histories with a reload take seconds each: not repeated
                let rep = if c.1.iter().any(|h| h[0] == "reload") { 1 } else { repeat_corpus };
                for _ in 0..rep {
                    queue.push(c.clone());
                }
            }
            while cases < total {
                let (docs, hist) = if cases < queue.len() {
                    queue[cases].clone()
                } else if reloads_done < n_reload {
                    reloads_done += 1;
                    gen_reload_history(&mut rng)
                } else {
                    gen_history(&mut rng)
                };
                cases += 1;
                let obs = run_history(&mut cx, &docs, &hist);
                for h in &hist {
                    *ops.entry(h[0].as_str().unwrap_or("").to_string()).or_insert(0) += 1;
                }
                if hist.iter().any(|h| h[0] == "reload") {
                    ops_reload += 1;
                }
                for d in &docs {
                    *kinds.entry(d["kind"].as_str().unwrap_or("").to_string()).or_insert(0) += 1;
                }
                if seen.insert(shape(&docs, &hist)) && nontrivial(&hist) {
                    distinct_nontrivial += 1;
                }
                if search {
                    for (sig, what) in violations(&docs, &hist, &obs) {
                        viol += 1;
                        let fam = sig.split(':').next().unwrap_or("").to_string();
                        let seen_sig = sig_count.entry(fam).or_insert(0usize);
                        *seen_sig += 1;
                        // shrink (only the first few of a kind): drop notifications one at a time while the same
                        // signature reproduces
                        let mut cur = hist.clone();
                        let mut i = 0;
                        let mut budget = if *seen_sig <= 2 && !hist.iter().any(|h| h[0] == "reload") { 12 } else { 0 };
                        while i < cur.len() && budget > 0 && cur.len() > 1 {
                            let mut cand = cur.clone();
                            cand.remove(i);
                            budget -= 1;
                            let mut hit = false;
                            for _ in 0..2 {
                                let o2 = run_history(&mut cx, &docs, &cand);
                                if violations(&docs, &cand, &o2).iter().any(|(s, _)| s.split(':').next() == sig.split(':').next()) {
                                    hit = true;
                                    break;
                                }
                            }
                            if hit {
                                cur = cand;
                            } else {
                                i += 1;
                            }
                        }
                        // recompute the signature on the shrunk history
                        let (sig2, what2) = if cur.len() < hist.len() {
                            let o3 = run_history(&mut cx, &docs, &cur);
                            let v3 = violations(&docs, &cur, &o3);
                            v3.into_iter().find(|(s, _)| s.split(':').next() == sig.split(':').next()).unwrap_or((sig.clone(), what.clone()))
                        } else {
                            (sig.clone(), what.clone())
                        };
                        println!("{}", json!({"signature": sig2, "what": what2, "case": {"docs": docs, "hist": cur, "original_hist": hist}}));
                    }
                    if viol >= max_viol {
                        stopped_early = true;
                        break;
                    }
                } else {
                    println!("{}", json!({"docs": docs, "hist": hist, "obs": obs}));
                }
            }
            println!("{}", json!({"summary": {"cases": cases, "distinct_nontrivial": distinct_nontrivial, "ops": ops, "doc_kinds": kinds, "violations": viol, "stopped_early_after_max_violations": stopped_early, "reload_histories": ops_reload, "snapshot_window_holds_hit": cx.holds_hit, "snapshot_window_holds_missed": cx.holds_missed}}));
            std::io::stdout().flush().unwrap();
            std::process::exit(0);
        }
        "one" => {
            let case: Value = serde_json::from_str(&args.str("case-json", "{}")).unwrap();
            let docs = case["docs"].as_array().cloned().unwrap_or_default();
            let hist = case["hist"].as_array().cloned().unwrap_or_default();
            let repeat = args.usize("repeat", 10);
            let mut cx = start(&args, 24);
            for _ in 0..repeat {
                let obs = run_history(&mut cx, &docs, &hist);
                println!("{}", json!({"docs": docs, "hist": hist, "obs": obs}));
                for (sig, what) in violations(&docs, &hist, &obs) {
                    println!("{}", json!({"signature": sig, "what": what, "case": {"docs": docs, "hist": hist}}));
                }
            }
            std::io::stdout().flush().unwrap();
            std::process::exit(0);
        }
        _ => {
            eprintln!("usage: c27 corr|search|one …");
            std::process::exit(2);
        }
    }
}
