//! C30 harness: published diagnostics converge to the current content (real in-process server, push mode).
//!   c30 corr|search --seed S --n N --dir D [--interval MS] [--corpus F]
//!        corr   -> JSON lines {"docs":[..],"hist":[..],"obs":[..]}
//!        search -> JSON lines {"signature","what","case"} + {"summary":{..}}
//!   c30 one --case-json '{"docs":[..],"hist":[..]}' --dir D [--repeat R]
//! docs: [{"kind":"D"|"V"}]  (D on disk with text 0, V workspace uri not on disk)
//! hist: ["open",doc,k] ["change",doc,k] ["close",doc] ["delete",doc] (watched-files DELETED event)
//!       ["touch",doc] (watched-files CHANGED event) ["sleep",ms] ["reload"]
//!       ["openbig",doc,k] (didOpen of a 2000-line buffer whose diagnosis takes a measurable time D, calibrated
//!       at start-up) ["sleepcal",num,den] (sleep interval + D*num/den: lands inside that diagnosis)
//! obs : per doc {"open": k|null, "analysed": k|null, "published": n|null (number of items of the LAST
//!       publishDiagnostics for the uri, null = never published), "fresh": n|null (items of a
//!       textDocument/diagnostic pull now = a fresh diagnosis of the current content; null = file unknown),
//!       "same": bool (last published == fresh, compared item by item), "npub": number of publishes seen}
//! The diagnostic debounce interval is set in the workspace's .emmyrc.json (default 120 ms here) so that
//! generated gaps of 0..2*interval produce overlapping and non-overlapping debounce windows.
#[path = "../memserver.rs"]
mod memserver;

use lsp_server::{Message, RequestId, Response};
use memserver::*;
use serde_json::{Value, json};
use std::collections::{BTreeMap, HashMap};
use std::io::Write;
use std::path::PathBuf;
use std::time::{Duration, Instant};
use vh_common::{Args, Rng};

/// texts whose diagnostics depend on k (names appear in the messages)
fn text_of(k: u64) -> String {
    match k % 4 {
        0 => format!("local t{k} = {k}\nreturn t{k}\n"),
        1 => format!("local t{k} = undefined_global_{k}\nreturn t{k}\n"),
        2 => format!("local t{k} = = {k}\nreturn t{k}\n"),
        _ => format!("---@type string\nlocal t{k} = {k}\nlocal unused_{k} = undefined_other_{k}\nreturn t{k}\n"),
    }
}
/// a big buffer (first line as in text_of, so id_of works) with one undefined global per line
fn big_text(k: u64) -> String {
    let mut s = format!("local t{k} = {k}\n");
    for i in 0..2000 {
        s.push_str(&format!("local v{i}_{k} = undefined_global_{i}_{k}\n"));
    }
    s.push_str(&format!("return t{k}\n"));
    s
}
fn id_of(s: &str) -> u64 {
    let r = s.strip_prefix("---@type string\n").unwrap_or(s);
    r.strip_prefix("local t").and_then(|r| r.split(' ').next()).and_then(|n| n.parse().ok()).unwrap_or(999_999)
}

struct Ctx {
    srv: MemServer,
    root: PathBuf,
    pool_d: Vec<String>,
    fresh: u64,
    next_id: i32,
    version: i64,
    interval: u64,
    /// calibrated diagnosis time of a big buffer (ms)
    big_ms: u64,
    /// uri -> (number of publishes, last published items)
    published: HashMap<String, (u64, Vec<Value>)>,
    responses: Vec<Response>,
    last_msg: Instant,
}

fn caps() -> Value {
    // no textDocument.diagnostic capability: the server pushes diagnostics
    json!({"workspace": {"configuration": false, "didChangeWatchedFiles": {"dynamicRegistration": true}}, "textDocument": {}})
}

fn pump(cx: &mut Ctx, timeout: Duration) -> bool {
    match cx.srv.client.receiver.recv_timeout(timeout) {
        Ok(Message::Response(r)) => {
            cx.responses.push(r);
            cx.last_msg = Instant::now();
            true
        }
        Ok(Message::Request(r)) => {
            let _ = cx.srv.client.sender.send(Message::Response(Response::new_ok(r.id, Value::Null)));
            true
        }
        Ok(Message::Notification(n)) => {
            if n.method == "textDocument/publishDiagnostics" {
                let uri = n.params["uri"].as_str().unwrap_or("").to_string();
                let items = n.params["diagnostics"].as_array().cloned().unwrap_or_default();
                let e = cx.published.entry(uri).or_insert((0, Vec::new()));
                e.0 += 1;
                e.1 = items;
                cx.last_msg = Instant::now();
            }
            true
        }
        Err(_) => false,
    }
}

fn pump_for(cx: &mut Ctx, d: Duration) {
    let t0 = Instant::now();
    while t0.elapsed() < d {
        let left = d.checked_sub(t0.elapsed()).unwrap_or(Duration::from_millis(1));
        pump(cx, left.min(Duration::from_millis(20)));
    }
}

fn request(cx: &mut Ctx, method: &str, params: Value, timeout: Duration) -> Option<Response> {
    cx.next_id += 1;
    let id = RequestId::from(cx.next_id);
    cx.srv.send_req(id.clone(), method, params);
    let t0 = Instant::now();
    loop {
        if let Some(pos) = cx.responses.iter().position(|r| r.id == id) {
            return Some(cx.responses.remove(pos));
        }
        if t0.elapsed() > timeout {
            return None;
        }
        pump(cx, Duration::from_millis(20));
    }
}

fn start(args: &Args, need_d: usize) -> Ctx {
    let dir = PathBuf::from(args.str("dir", std::env::temp_dir().to_str().unwrap()));
    unsafe { std::env::set_var("VH_TMP", &dir) };
    let root = fresh_dir("c30ws");
    let interval = args.u64("interval", 120);
    let mut pool_d = Vec::new();
    for i in 0..need_d {
        let p = root.join(format!("disk_{}.lua", i));
        std::fs::write(&p, text_of(0)).unwrap();
        pool_d.push(path_to_uri(&p));
    }
    std::fs::write(root.join(".emmyrc.json"), format!("{{\n  \"diagnostics\": {{\"enable\": true, \"diagnosticInterval\": {}}}\n}}\n", interval)).unwrap();
    let mut srv = MemServer::start(&root, caps());
    assert!(srv.wait_ready(1), "server did not become ready");
    srv.take_inbox();
    let mut cx = Ctx { srv, root, pool_d, fresh: 0, next_id: 10, version: 1, interval, big_ms: 0, published: HashMap::new(), responses: Vec::new(), last_msg: Instant::now() };
    // the initial workspace diagnostics
    pump_for(&mut cx, Duration::from_millis(1500));
    // calibration: how long does the diagnosis of a big unsaved buffer take?
    let u = format!("{}/calib_big.lua", cx.srv.root_uri);
    cx.srv.send_notif("textDocument/didOpen", json!({"textDocument": {"uri": u, "languageId": "lua", "version": 1, "text": big_text(1)}}));
    let _ = request(&mut cx, "verif/task", json!({"mode": "ok", "ms": 0}), Duration::from_secs(60)); // the inline didOpen has been applied
    let t_applied = Instant::now();
    while cx.published.get(&u).map(|p| p.1.len()).unwrap_or(0) == 0 && t_applied.elapsed() < Duration::from_secs(60) {
        pump(&mut cx, Duration::from_millis(10));
    }
    cx.big_ms = (t_applied.elapsed().as_millis() as u64).saturating_sub(interval);
    cx.srv.send_notif("textDocument/didClose", json!({"textDocument": {"uri": u}}));
    pump_for(&mut cx, Duration::from_millis(300));
    cx
}

fn canon(items: &[Value]) -> Vec<String> {
    let mut v: Vec<String> = items.iter().map(|d| {
        serde_json::to_string(&json!([d["range"], d["severity"], d["code"], d["message"]])).unwrap()
    }).collect();
    v.sort();
    v
}

fn gen_history(rng: &mut Rng, interval: u64) -> (Vec<Value>, Vec<Value>) {
    let nd = rng.range(1, 3);
    let docs: Vec<Value> = (0..nd).map(|_| json!({"kind": if rng.chance(1, 2) { "D" } else { "V" }})).collect();
    let mut hist = Vec::new();
    let mut k = 1u64;
    if rng.chance(1, 8) {
        // close an unsaved big buffer while its diagnosis is in flight
        let docs = vec![json!({"kind": "V"})];
        let hist = vec![json!(["openbig", 0, 1]), json!(["sleepcal", rng.range(2, 6), 8]), json!(["close", 0])];
        return (docs, hist);
    }
    let with_reload = rng.chance(1, 6);
    for step in 0..rng.range(3, 14) {
        let d = rng.below(nd);
        match rng.below(12) {
            0 | 1 => hist.push(json!(["open", d, k])),
            2 | 3 | 4 | 5 | 6 => hist.push(json!(["change", d, k])),
            7 => hist.push(json!(["close", d])),
            8 => hist.push(json!(["delete", d])),
            9 => hist.push(json!(["touch", d])),
            _ => hist.push(json!(["change", d, k])),
        }
        k += 1;
        // gaps around the debounce interval: 0, well inside, just around, beyond
        let gap = match rng.below(6) {
            0 => 0,
            1 => rng.range(1, 20) as u64,
            2 => rng.range((interval / 2) as usize, interval as usize) as u64,
            3 => rng.range((interval - 10) as usize, (interval + 25) as usize) as u64,
            4 => rng.range(interval as usize, (2 * interval) as usize) as u64,
            _ => rng.range(1, (interval / 3) as usize) as u64,
        };
        if gap > 0 {
            hist.push(json!(["sleep", gap]));
        }
        if with_reload && step == 2 {
            hist.push(json!(["reload"]));
        }
    }
    (docs, hist)
}

fn observe(cx: &mut Ctx, uris: &[String]) -> Vec<Value> {
    let st = request(cx, "verif/docState", json!({"uris": uris}), Duration::from_secs(30))
        .and_then(|r| r.result).and_then(|v| v.as_array().cloned()).unwrap_or_default();
    let f = |v: &Value| match v {
        Value::String(s) => json!(id_of(s)),
        _ => Value::Null,
    };
    let mut obs = Vec::new();
    for (i, u) in uris.iter().enumerate() {
        let p = st.get(i).cloned().unwrap_or(Value::Null);
        let known = !p["analysed"].is_null();
        let fresh: Option<Vec<Value>> = if known {
            request(cx, "textDocument/diagnostic", json!({"textDocument": {"uri": u}}), Duration::from_secs(30))
                .and_then(|r| r.result).and_then(|v| v["items"].as_array().cloned())
        } else {
            None
        };
        let publ = cx.published.get(u).cloned();
        let same = match (&publ, &fresh) {
            (Some((_, p)), Some(f)) => canon(p) == canon(f),
            _ => false,
        };
        obs.push(json!({"open": f(&p["open"]), "analysed": f(&p["analysed"]),
            "published": publ.as_ref().map(|x| x.1.len()), "fresh": fresh.as_ref().map(|x| x.len()),
            "same": same, "npub": publ.as_ref().map(|x| x.0).unwrap_or(0)}));
    }
    obs
}

fn run_history(cx: &mut Ctx, docs: &[Value], hist: &[Value]) -> Vec<Value> {
    let mut uris = Vec::new();
    for d in docs {
        cx.fresh += 1;
        if d["kind"].as_str() == Some("D") {
            uris.push(cx.pool_d.pop().expect("on-disk pool exhausted"));
        } else {
            uris.push(format!("{}/virt_{}.lua", cx.srv.root_uri, cx.fresh));
        }
    }
    let mut reload = false;
    for h in hist {
        let op = h[0].as_str().unwrap_or("");
        let u = h[1].as_u64().map(|i| uris[(i as usize) % uris.len()].clone());
        cx.version += 1;
        match op {
            "open" => cx.srv.send_notif("textDocument/didOpen", json!({"textDocument": {"uri": u.unwrap(), "languageId": "lua", "version": cx.version, "text": text_of(h[2].as_u64().unwrap_or(1))}})),
            "change" => cx.srv.send_notif("textDocument/didChange", json!({"textDocument": {"uri": u.unwrap(), "version": cx.version}, "contentChanges": [{"text": text_of(h[2].as_u64().unwrap_or(1))}]})),
            "close" => cx.srv.send_notif("textDocument/didClose", json!({"textDocument": {"uri": u.unwrap()}})),
            "delete" => cx.srv.send_notif("workspace/didChangeWatchedFiles", json!({"changes": [{"uri": u.unwrap(), "type": 3}]})),
            "touch" => cx.srv.send_notif("workspace/didChangeWatchedFiles", json!({"changes": [{"uri": u.unwrap(), "type": 2}]})),
            "reload" => {
                cx.srv.send_notif("workspace/didChangeWatchedFiles", json!({"changes": [{"uri": format!("{}/.emmyrc.json", cx.srv.root_uri), "type": 2}]}));
                reload = true;
            }
            "sleep" => pump_for(cx, Duration::from_millis(h[1].as_u64().unwrap_or(1))),
            "openbig" => {
                cx.srv.send_notif("textDocument/didOpen", json!({"textDocument": {"uri": u.unwrap(), "languageId": "lua", "version": cx.version, "text": big_text(h[2].as_u64().unwrap_or(1))}}));
                // wait until the inline didOpen has been applied, so that the next sleep is relative to it
                let _ = request(cx, "verif/task", json!({"mode": "ok", "ms": 0}), Duration::from_secs(60));
            }
            "sleepcal" => {
                let ms = cx.interval + cx.big_ms * h[1].as_u64().unwrap_or(1) / h[2].as_u64().unwrap_or(2).max(1);
                pump_for(cx, Duration::from_millis(ms));
            }
            _ => {}
        }
    }
    if hist.iter().any(|h| h[0] == "openbig") {
        pump_for(cx, Duration::from_millis(cx.big_ms + 200));
    }
    // quiescence: no edits pending, the debounce intervals have passed, nothing arrives any more
    let settle = Duration::from_millis(3 * cx.interval + 300);
    if reload {
        pump_for(cx, Duration::from_millis(2600));
    }
    pump_for(cx, settle);
    let t0 = Instant::now();
    while cx.last_msg.elapsed() < settle && t0.elapsed() < Duration::from_secs(20) {
        pump(cx, Duration::from_millis(20));
    }
    // "once the debounce intervals have passed": an observation that does not yet match is re-taken for up to
    // 15 s (a loaded machine delays the tasks); only a state that stays wrong is reported
    let t_obs = Instant::now();
    let mut obs;
    loop {
        obs = observe(cx, &uris);
        if oracle(&obs).is_empty() || t_obs.elapsed() > Duration::from_secs(15) {
            break;
        }
        pump_for(cx, Duration::from_millis(500));
    }
    for u in &uris {
        cx.srv.send_notif("textDocument/didClose", json!({"textDocument": {"uri": u}}));
    }
    pump_for(cx, Duration::from_millis(50));
    obs
}

/// the property oracle on the implementation's observations
fn oracle(obs: &[Value]) -> Vec<(String, String)> {
    let mut out = Vec::new();
    for (i, o) in obs.iter().enumerate() {
        let open_ws = !o["open"].is_null();
        let known = !o["analysed"].is_null();
        if open_ws && known {
            // open workspace file: last published == fresh diagnosis of the current content
            if o["open"] != o["analysed"] {
                continue; // the content is not the editor's: C27/C29's subject, not this property's
            }
            if o["published"].is_null() {
                if o["fresh"].as_u64().unwrap_or(0) > 0 {
                    out.push(("never-published".to_string(), format!("doc {}: open with text {} whose fresh diagnosis has {} items, but nothing was ever published", i, o["open"], o["fresh"])));
                }
            } else if !o["same"].as_bool().unwrap_or(false) {
                out.push(("stale-published".to_string(), format!("doc {}: open with text {}: last published set ({} items) differs from a fresh diagnosis ({} items)", i, o["open"], o["published"], o["fresh"])));
            }
        }
        if !known && o["published"].as_u64().unwrap_or(0) > 0 {
            out.push(("removed-not-cleared".to_string(), format!("doc {}: removed from the analysis but the last published set still has {} items", i, o["published"])));
        }
    }
    out
}

fn corpus_cases(path: &str) -> Vec<(Vec<Value>, Vec<Value>)> {
    let mut v = Vec::new();
    if !path.is_empty() {
        if let Ok(txt) = std::fs::read_to_string(path) {
            for l in txt.lines().filter(|l| l.trim_start().starts_with('{')) {
                if let Ok(c) = serde_json::from_str::<Value>(l) {
                    if let (Some(d), Some(h)) = (c["docs"].as_array(), c["hist"].as_array()) {
                        v.push((d.clone(), h.clone()));
                    }
                }
            }
        }
    }
    v
}

fn main() {
    let args = Args::parse();
    let stdout = std::io::stdout();
    let mut out = stdout.lock();
    match args.cmd.as_str() {
        "corr" | "search" => {
            let mut rng = Rng::new(args.u64("seed", 1) ^ 0xC30);
            let n = args.usize("n", 20);
            let interval = args.u64("interval", 120);
            let mut cases = corpus_cases(&args.str("corpus", ""));
            let ncorpus = cases.len();
            for _ in 0..n {
                cases.push(gen_history(&mut rng, interval));
            }
            let need: usize = cases.iter().map(|(d, _)| d.iter().filter(|x| x["kind"] == "D").count()).sum();
            let mut cx = start(&args, need + 2);
            let mut dist: BTreeMap<String, u64> = BTreeMap::new();
            let mut distinct = std::collections::HashSet::new();
            let (mut nviol, mut npub, mut overlapping) = (0u64, 0u64, 0u64);
            for (docs, hist) in &cases {
                let mut prev_edit = false;
                for h in hist {
                    let op = h[0].as_str().unwrap_or("?");
                    *dist.entry(op.to_string()).or_insert(0) += 1;
                    if op == "sleep" {
                        if h[1].as_u64().unwrap_or(0) >= interval {
                            prev_edit = false;
                        }
                    } else {
                        if prev_edit {
                            overlapping += 1;
                        }
                        prev_edit = true;
                    }
                }
                let obs = run_history(&mut cx, docs, hist);
                npub += obs.iter().map(|o| o["npub"].as_u64().unwrap_or(0)).sum::<u64>();
                distinct.insert(serde_json::to_string(&(docs, hist)).unwrap());
                if args.cmd == "corr" {
                    writeln!(out, "{}", json!({"docs": docs, "hist": hist, "obs": obs})).unwrap();
                } else {
                    for (sig, what) in oracle(&obs) {
                        nviol += 1;
                        writeln!(out, "{}", json!({"signature": sig, "what": what, "case": {"docs": docs, "hist": hist, "obs": obs}})).unwrap();
                    }
                }
            }
            writeln!(out, "{}", json!({"summary": {"histories": cases.len(), "corpus": ncorpus, "distinct_nontrivial": distinct.len(), "ops": dist,
                "publishes_observed": npub, "edits_inside_a_pending_debounce_window": overlapping, "interval_ms": interval, "big_buffer_diagnosis_ms": cx.big_ms, "violations": nviol}})).unwrap();
            let _ = std::fs::remove_dir_all(&cx.root);
            out.flush().unwrap();
            std::process::exit(0);
        }
        "one" => {
            let case: Value = serde_json::from_str(&args.str("case-json", "{}")).expect("case-json");
            let docs = case["docs"].as_array().cloned().unwrap_or_default();
            let hist = case["hist"].as_array().cloned().unwrap_or_default();
            let rep = args.usize("repeat", 3);
            let need = docs.iter().filter(|x| x["kind"] == "D").count() * rep;
            let mut cx = start(&args, need + 2);
            for _ in 0..rep {
                let obs = run_history(&mut cx, &docs, &hist);
                writeln!(out, "{}", json!({"docs": docs, "hist": hist, "obs": obs})).unwrap();
                for (sig, what) in oracle(&obs) {
                    writeln!(out, "{}", json!({"signature": sig, "what": what, "case": {"docs": docs, "hist": hist, "obs": obs}})).unwrap();
                }
            }
            let _ = std::fs::remove_dir_all(&cx.root);
            out.flush().unwrap();
            std::process::exit(0);
        }
        _ => {
            eprintln!("usage: c30 corr|search|one ...");
            std::process::exit(2);
        }
    }
}
