//! C25 harness: every position-taking request of the REAL in-process server, for any position/range.
//!   c25 search --seed S --docs N --maxpos K --size Z [--corpus DIR]
//!        JSON lines {"signature","what",<case>} for requests that got no response (handler task panicked / hung)
//!        or after which the server stopped answering; final {"summary":{...}}
//!   c25 corr   --seed S --docs N --maxpos K
//!        JSON lines {"t":[code points],"obs":[[line,col,"N"] | [line,col,sl,sc,el,ec]...]}:
//!        innermost selectionRange for (line,col), for the Coq model (C22 get_offset) to check
//!   c25 one    --text-json '"..."' --method M --line L --character C [--line2 L2 --character2 C2]
#[path = "../c25_drv.rs"]
mod drv;
#[path = "../c25_gen.rs"]
mod gen_;

use drv::{Outcome, Server, line_table, lsp_pos};
use emmylua_parser::{LuaParser, ParserConfig};
use serde_json::{Value, json};
use std::collections::{BTreeMap, BTreeSet, HashMap, HashSet};
use std::time::Duration;
use vh_common::{Args, Rng};

const POS_METHODS: &[&str] = &[
    "textDocument/hover",
    "textDocument/definition",
    "textDocument/implementation",
    "textDocument/references",
    "textDocument/rename",
    "textDocument/prepareRename",
    "textDocument/completion",
    "textDocument/signatureHelp",
    "textDocument/documentHighlight",
    "textDocument/selectionRange",
    "textDocument/prepareCallHierarchy",
    "textDocument/onTypeFormatting",
];
const RANGE_METHODS: &[&str] = &[
    "textDocument/inlineValue",
    "textDocument/codeAction",
    "textDocument/inlayHint",
    "textDocument/rangeFormatting",
    "textDocument/colorPresentation",
];

fn pos_json(p: (u32, u32)) -> Value {
    json!({"line": p.0, "character": p.1})
}

fn params_for(method: &str, uri: &str, p: (u32, u32), q: (u32, u32)) -> Value {
    let td = json!({"uri": uri});
    let range = json!({"start": pos_json(p), "end": pos_json(q)});
    match method {
        "textDocument/references" => json!({"textDocument": td, "position": pos_json(p), "context": {"includeDeclaration": true}}),
        "textDocument/rename" => json!({"textDocument": td, "position": pos_json(p), "newName": "renamed_1"}),
        "textDocument/selectionRange" => json!({"textDocument": td, "positions": [pos_json(p), pos_json(q)]}),
        "textDocument/onTypeFormatting" => json!({"textDocument": td, "position": pos_json(p), "ch": "\n", "options": {"tabSize": 4, "insertSpaces": true}}),
        "textDocument/completion" => json!({"textDocument": td, "position": pos_json(p), "context": {"triggerKind": 1}}),
        "textDocument/inlineValue" => json!({"textDocument": td, "range": range, "context": {"frameId": 1, "stoppedLocation": range}}),
        "textDocument/codeAction" => {
            let diag = |code: &str| json!({"range": range, "severity": 2, "code": code, "source": "EmmyLua", "message": "m"});
            json!({"textDocument": td, "range": range, "context": {"diagnostics": [
                diag("need-check-nil"), diag("unknown-doc-tag"), diag("preferred-local-alias"), diag("undefined-global"), diag("syntax-error"), diag("unused")]}})
        }
        "textDocument/inlayHint" => json!({"textDocument": td, "range": range}),
        "textDocument/rangeFormatting" => json!({"textDocument": td, "range": range, "options": {"tabSize": 4, "insertSpaces": true}}),
        "textDocument/colorPresentation" => json!({"textDocument": td, "range": range, "color": {"red": 1.0, "green": 0.0, "blue": 0.5, "alpha": 1.0}}),
        _ => json!({"textDocument": td, "position": pos_json(p)}),
    }
}

/// positions of one document with their class
fn positions(text: &str, rng: &mut Rng, maxpos: usize) -> Vec<((u32, u32), &'static str)> {
    let mut special: Vec<((u32, u32), &'static str)> = Vec::new();
    let lines = line_table(text);
    let nl = lines.len() as u32;
    // token boundaries (start and end of every token of the real parser's tree)
    let tree = LuaParser::parse(text, ParserConfig::default());
    let mut offs: BTreeSet<usize> = BTreeSet::new();
    for el in tree.get_red_root().descendants_with_tokens() {
        if let Some(t) = el.as_token() {
            let r = t.text_range();
            offs.insert(u32::from(r.start()) as usize);
            offs.insert(u32::from(r.end()) as usize);
        }
    }
    offs.insert(0);
    offs.insert(text.len());
    let mut boundary: Vec<(u32, u32)> = offs.iter().filter(|o| text.is_char_boundary(**o)).map(|o| lsp_pos(text, *o)).collect();
    boundary.dedup();
    // inside surrogate pairs
    for (i, c) in text.char_indices() {
        if c.len_utf16() == 2 {
            let (l, k) = lsp_pos(text, i);
            special.push(((l, k + 1), "in-surrogate"));
        }
    }
    if special.len() > 6 {
        let mut keep = Vec::new();
        for _ in 0..6 {
            keep.push(special[rng.below(special.len())]);
        }
        special = keep;
    }
    // past the end of a line
    let mut ls: Vec<u32> = vec![0, nl - 1];
    if nl > 2 {
        ls.push(rng.below(nl as usize) as u32);
    }
    ls.dedup();
    for l in ls {
        let len = lines[l as usize].2;
        for extra in [1u32, 2, 100, 65535] {
            special.push(((l, len.saturating_add(extra)), "past-eol"));
        }
        special.push(((l, u32::MAX), "past-eol"));
    }
    // past the end of the document
    for l in [nl, nl + 1, nl + 1000, u32::MAX - 1, u32::MAX] {
        for c in [0u32, 1, u32::MAX] {
            special.push(((l, c), "past-eof"));
        }
    }
    let mut out: Vec<((u32, u32), &'static str)> = Vec::new();
    let budget_b = maxpos.saturating_sub(special.len().min(maxpos / 2)).max(4);
    if boundary.len() <= budget_b {
        out.extend(boundary.iter().map(|p| (*p, "token-boundary")));
    } else {
        let mut seen = HashSet::new();
        // always the first and last boundary
        for p in [boundary[0], boundary[boundary.len() - 1]] {
            if seen.insert(p) {
                out.push((p, "token-boundary"));
            }
        }
        let mut guard = 0;
        while out.len() < budget_b && guard < budget_b * 20 {
            guard += 1;
            let p = boundary[rng.below(boundary.len())];
            if seen.insert(p) {
                out.push((p, "token-boundary"));
            }
        }
    }
    let room = maxpos.saturating_sub(out.len()).max(8);
    if special.len() > room {
        // keep a spread of every class
        let mut keep = Vec::new();
        let step = special.len() as f64 / room as f64;
        let mut x = 0.0;
        while (x as usize) < special.len() && keep.len() < room {
            keep.push(special[x as usize]);
            x += step;
        }
        special = keep;
    }
    out.extend(special);
    out
}

struct Search {
    srv: Server,
    viol: Vec<Value>,
    sig_count: HashMap<String, usize>,
    tags: BTreeMap<String, BTreeMap<String, u64>>,
    classes: BTreeMap<String, u64>,
    requests: u64,
    timeout: Duration,
}

impl Search {
    fn send(&mut self, doc: &str, text: &str, uri: &str, method: &str, p: (u32, u32), q: (u32, u32), class: &str) {
        // stop hammering a class of failure that is already recorded three times
        let skip_key = format!("{}|{}", method, class);
        if self.sig_count.get(&skip_key).copied().unwrap_or(0) >= 3 {
            return;
        }
        let out = self.srv.request(method, params_for(method, uri, p, q), self.timeout);
        self.requests += 1;
        *self.tags.entry(method.to_string()).or_default().entry(out.tag().to_string()).or_default() += 1;
        *self.classes.entry(class.to_string()).or_default() += 1;
        let (kind, detail) = match &out {
            Outcome::Panic(m) => ("panic", m.clone()),
            Outcome::Timeout => ("timeout", String::new()),
            _ => return,
        };
        if kind == "timeout" {
            // only hangs are expensive to repeat; crashes answer at once (InternalError) and are all recorded
            *self.sig_count.entry(skip_key).or_default() += 1;
        }
        let loc = detail.rsplit(" @ ").next().unwrap_or("").to_string();
        let signature = format!("no-response|{}|{}|{}", method, class, if kind == "panic" { loc } else { "hang".to_string() });
        self.viol.push(json!({
            "signature": signature,
            "what": format!("{} got no response ({}{}) for position {:?}..{:?} [{}] in document {}", method, kind,
                            if detail.is_empty() { String::new() } else { format!(": {}", detail) }, p, q, class, doc),
            "doc": doc, "text": text, "method": method, "line": p.0, "character": p.1, "line2": q.0, "character2": q.1, "class": class,
        }));
    }

    fn run_doc(&mut self, idx: usize, doc: &str, text: &str, rng: &mut Rng, maxpos: usize) -> bool {
        let name = format!("doc{}.lua", idx % 4);
        let uri = self.srv.open(&name, text);
        let ps = positions(text, rng, maxpos);
        for (i, (p, class)) in ps.iter().enumerate() {
            let q = ps[(i + 1) % ps.len()].0;
            for m in POS_METHODS {
                self.send(doc, text, &uri, m, *p, q, class);
            }
        }
        // ranges: (p,p), (p,next), whole document, reversed, out-of-range end
        let mut ranges: Vec<((u32, u32), (u32, u32), &'static str)> = Vec::new();
        let nl = line_table(text).len() as u32;
        ranges.push(((0, 0), (nl, 0), "range-whole"));
        ranges.push(((0, 0), (u32::MAX, u32::MAX), "range-end-past-eof"));
        ranges.push(((u32::MAX, 0), (u32::MAX, 0), "range-past-eof"));
        let nr = (maxpos / 2).max(4);
        for _ in 0..nr {
            let (a, ca) = ps[rng.below(ps.len())];
            let (b, cb) = ps[rng.below(ps.len())];
            let oob = ca != "token-boundary" || cb != "token-boundary";
            if a == b {
                ranges.push((a, b, if oob { "range-empty-oob" } else { "range-empty" }));
            } else if a < b {
                ranges.push((a, b, if oob { "range-oob" } else { "range" }));
                ranges.push((b, a, if oob { "range-reversed-oob" } else { "range-reversed" }));
            } else {
                ranges.push((b, a, if oob { "range-oob" } else { "range" }));
            }
        }
        for (a, b, class) in ranges {
            for m in RANGE_METHODS {
                self.send(doc, text, &uri, m, a, b, class);
            }
        }
        if !self.srv.alive() {
            self.viol.push(json!({"signature": "server-dead", "what": format!("server stopped answering after document {}", doc), "doc": doc, "text": text}));
            return false;
        }
        true
    }
}

fn load_corpus(dir: &str) -> Vec<(String, String)> {
    let mut v = Vec::new();
    if let Ok(rd) = std::fs::read_dir(dir) {
        let mut names: Vec<_> = rd.filter_map(|e| e.ok()).map(|e| e.path()).collect();
        names.sort();
        for p in names {
            if p.extension().map(|e| e == "json").unwrap_or(false) {
                if let Ok(s) = std::fs::read_to_string(&p) {
                    if let Ok(j) = serde_json::from_str::<Value>(&s) {
                        if let Some(t) = j.get("text").and_then(|t| t.as_str()) {
                            v.push((format!("corpus:{}", p.file_stem().unwrap().to_string_lossy()), t.to_string()));
                        }
                    }
                }
            }
        }
    }
    v
}

fn documents(rng: &mut Rng, n: usize, size: usize, corpus: &str) -> Vec<(String, String)> {
    let mut docs: Vec<(String, String)> = Vec::new();
    if !corpus.is_empty() {
        docs.extend(load_corpus(corpus));
    }
    for (n, t) in gen_::fixed_docs() {
        docs.push((format!("fixed:{}", n), t));
    }
    let mut i = 0usize;
    while docs.len() < n.max(docs.len()) && i < n {
        let mode = gen_::MODES[i % gen_::MODES.len()];
        let t = gen_::gen_doc(rng, mode, size);
        docs.push((format!("gen:{}:{}", gen_::mode_name(mode), i), t));
        i += 1;
    }
    docs
}

fn main() {
    let args = Args::parse();
    let seed = args.u64("seed", 1);
    let mut rng = Rng::new(seed ^ 0xC25);
    match args.cmd.as_str() {
        "search" => {
            let n = args.usize("docs", 30);
            let maxpos = args.usize("maxpos", 40);
            let size = args.usize("size", 4);
            let corpus = args.str("corpus", "");
            let docs = documents(&mut rng, n, size, &corpus);
            let lib = vec![("lib/util.lua".to_string(), "local M = {}\n---@param s string\n---@return string\nfunction M.trim(s) return s end\nreturn M\n".to_string())];
            let srv = Server::start("c25", json!({}), &lib);
            let mut s = Search { srv, viol: vec![], sig_count: HashMap::new(), tags: BTreeMap::new(), classes: BTreeMap::new(), requests: 0,
                                 timeout: Duration::from_secs(args.u64("timeout", 120)) };
            let mut distinct: HashSet<u64> = HashSet::new();
            let mut modes: BTreeMap<String, u64> = BTreeMap::new();
            let mut ndocs = 0;
            for (i, (name, text)) in docs.iter().enumerate() {
                ndocs += 1;
                let kind = name.split(':').take(2).collect::<Vec<_>>().join(":");
                *modes.entry(if name.starts_with("gen:") { kind } else { name.split(':').next().unwrap().to_string() }).or_default() += 1;
                use std::hash::{Hash, Hasher};
                let mut h = std::collections::hash_map::DefaultHasher::new();
                text.hash(&mut h);
                if text.contains('\n') || !text.is_ascii() {
                    distinct.insert(h.finish());
                }
                if !s.run_doc(i, name, text, &mut rng, maxpos) {
                    break;
                }
            }
            let mut per_sig: HashMap<String, usize> = HashMap::new();
            for v in &s.viol {
                let n = per_sig.entry(v["signature"].as_str().unwrap_or("").to_string()).or_default();
                *n += 1;
                if *n <= 3 {
                    println!("{}", v);
                }
            }
            println!("{}", json!({"summary": {"documents": ndocs, "requests": s.requests, "distinct_nontrivial": distinct.len(),
                "documents_by_kind": modes, "responses_by_method": s.tags, "requests_by_position_class": s.classes, "violations_by_signature": per_sig.iter().collect::<BTreeMap<_, _>>(),
                "panics_recorded": drv::panic_count(), "panic_messages": drv::PANICS.lock().map(|p| p.iter().cloned().collect::<std::collections::BTreeSet<_>>()).unwrap_or_default()}}));
            s.srv.cleanup();
            std::process::exit(0);
        }
        "corr" => {
            let n = args.usize("docs", 20);
            let maxpos = args.usize("maxpos", 30);
            let size = args.usize("size", 2);
            let docs = documents(&mut rng, n, size, "");
            let mut srv = Server::start("c25corr", json!({}), &[]);
            for (i, (name, text)) in docs.iter().enumerate() {
                if text.chars().count() > 700 {
                    continue;
                }
                let uri = srv.open(&format!("corr{}.lua", i % 4), text);
                let ps = positions(text, &mut rng, maxpos);
                let mut obs = Vec::new();
                for (p, _) in ps {
                    let r = srv.request("textDocument/selectionRange", json!({"textDocument": {"uri": uri}, "positions": [pos_json(p)]}), Duration::from_secs(30));
                    match r {
                        Outcome::Ok(v) => {
                            if let Some(rg) = v.get(0).and_then(|x| x.get("range")) {
                                obs.push(json!([p.0, p.1, rg["start"]["line"], rg["start"]["character"], rg["end"]["line"], rg["end"]["character"]]));
                            } else {
                                obs.push(json!([p.0, p.1, "N"]));
                            }
                        }
                        other => obs.push(json!([p.0, p.1, other.tag()])),
                    }
                }
                let cps: Vec<u32> = text.chars().map(|c| c as u32).collect();
                println!("{}", json!({"doc": name, "t": cps, "obs": obs}));
            }
            srv.cleanup();
            std::process::exit(0);
        }
        "methods" => {
            println!("{}", json!({"position": POS_METHODS, "range": RANGE_METHODS}));
            std::process::exit(0);
        }
        "one" => {
            let text: String = serde_json::from_str(&args.str("text-json", "\"\"")).unwrap_or_default();
            let method = args.str("method", "textDocument/hover");
            let p = (args.u64("line", 0) as u32, args.u64("character", 0) as u32);
            let q = (args.u64("line2", p.0 as u64) as u32, args.u64("character2", p.1 as u64) as u32);
            let lib = vec![("lib/util.lua".to_string(), "local M = {}\n---@param s string\n---@return string\nfunction M.trim(s) return s end\nreturn M\n".to_string())];
            let mut srv = Server::start("c25one", json!({}), &lib);
            let uri = srv.open("one.lua", &text);
            let out = srv.request(&method, params_for(&method, &uri, p, q), Duration::from_secs(30));
            let alive = srv.alive();
            let detail = match &out {
                Outcome::Panic(m) => m.clone(),
                Outcome::Ok(v) | Outcome::Err(v) => {
                    let s = v.to_string();
                    s.chars().take(300).collect()
                }
                Outcome::Timeout => String::new(),
            };
            println!("{}", json!({"method": method, "outcome": out.tag(), "detail": detail, "alive": alive, "responded": out.responded()}));
            srv.cleanup();
            std::process::exit(0);
        }
        _ => {
            eprintln!("usage: c25 search|corr|one ...");
            std::process::exit(2);
        }
    }
}
