//! C24 harness: every client request gets exactly one response.
//!   c24 corr   --seed S --n N --dir D [--methods F]  -> JSON lines {"msgs":[…], "obs":{id:[class…]}, "probe":bool}
//!   c24 search --seed S --n N --dir D [--methods F]  -> JSON lines {"signature","what","case"} + {"summary":…}
//!   c24 one    --case-json '{…"msgs":[…]}' --dir D   -> replay one case (same output as search)
//!   c24 stdio  --bin <emmylua_ls> --dir D            -> handshake cases against the stdio binary
//! All in-process cases of one run go to ONE real server instance (memory connection, hook verif_serve).
//!
//! message encoding (field "k"):
//!   req     {id, m, pv: "valid"|"bad"|"absent"}   a registered method
//!   unknown {id, m}                               a method that is not registered
//!   task    {id, mode: "ok"|"none"|"panic", ms}   hook request `verif/task` through ServerContext::task
//!   cancel  {id}                                  `$/cancelRequest`
//!   cancelbad                                     `$/cancelRequest` with undeserialisable params
//!   notif   {m, pv}                               a notification (didOpen/didChange/didClose/didSave/setTrace/unknown)
//!   resp    {id}                                  a stray client response
//! ids are JSON numbers or strings.
#[path = "../memserver.rs"]
mod memserver;

use lsp_server::{Message, RequestId, Response};
use memserver::*;
use serde_json::{Value, json};
use std::collections::{BTreeMap, HashSet};
use std::io::{BufRead, BufReader, Read, Write};
use std::time::{Duration, Instant};
use vh_common::{Args, Rng};

const DOC: &str = "---@class Foo\n---@field x number\nlocal Foo = {}\n\n---@param a number\n---@param b number\n---@return number\nfunction Foo:bar(a, b)\n    return a + b\nend\n\nlocal t = Foo\nlocal r = t:bar(1, 2)\nprint(t.x, r, \"#ff0000\")\n";

/// methods registered in request_handler.rs (fallback when --methods is not given; the plugin always
/// passes the regenerated list)
const BUILTIN_METHODS: &[&str] = &[
    "textDocument/hover", "textDocument/documentSymbol", "textDocument/foldingRange", "textDocument/documentColor",
    "textDocument/colorPresentation", "textDocument/documentLink", "documentLink/resolve", "emmy/annotator",
    "emmy/gutter", "emmy/gutter/detail", "emmy/syntaxTree", "textDocument/selectionRange", "textDocument/completion",
    "completionItem/resolve", "textDocument/inlayHint", "inlayHint/resolve", "textDocument/definition",
    "textDocument/implementation", "textDocument/references", "textDocument/rename", "textDocument/prepareRename",
    "textDocument/codeLens", "codeLens/resolve", "textDocument/signatureHelp", "textDocument/documentHighlight",
    "textDocument/semanticTokens/full", "workspace/executeCommand", "textDocument/codeAction", "textDocument/inlineValue",
    "workspace/symbol", "textDocument/formatting", "textDocument/rangeFormatting", "textDocument/onTypeFormatting",
    "textDocument/prepareCallHierarchy", "callHierarchy/incomingCalls", "callHierarchy/outgoingCalls",
    "textDocument/diagnostic", "workspace/diagnostic",
];

fn pos(rng: &mut Rng) -> Value {
    // mostly inside the document, sometimes far outside
    if rng.chance(1, 8) {
        json!({"line": rng.below(40), "character": rng.below(200)})
    } else {
        json!({"line": rng.below(14), "character": rng.below(24)})
    }
}
fn range(rng: &mut Rng) -> Value {
    let a = rng.below(14);
    let b = a + rng.below(4);
    json!({"start": {"line": a, "character": rng.below(10)}, "end": {"line": b, "character": rng.below(30)}})
}

/// valid params for a registered method; second component false when there is no specific template
fn valid_params(method: &str, uri: &str, rng: &mut Rng) -> (Value, bool) {
    let td = json!({"uri": uri});
    let tdpp = json!({"textDocument": td, "position": pos(rng)});
    let fmt_opts = json!({"tabSize": 4, "insertSpaces": true});
    let item = json!({"name": "bar", "kind": 12, "uri": uri, "range": range(rng), "selectionRange": {"start": {"line": 7, "character": 13}, "end": {"line": 7, "character": 16}}});
    let v = match method {
        "textDocument/hover" | "textDocument/definition" | "textDocument/implementation" | "textDocument/prepareRename"
        | "textDocument/signatureHelp" | "textDocument/documentHighlight" | "textDocument/prepareCallHierarchy"
        | "textDocument/completion" => tdpp,
        "textDocument/documentSymbol" | "textDocument/foldingRange" | "textDocument/documentColor" | "textDocument/documentLink"
        | "textDocument/codeLens" | "textDocument/semanticTokens/full" | "textDocument/diagnostic" => json!({"textDocument": td}),
        "textDocument/colorPresentation" => json!({"textDocument": td, "color": {"red": 1.0, "green": 0.0, "blue": 0.0, "alpha": 1.0}, "range": range(rng)}),
        "documentLink/resolve" => json!({"range": range(rng)}),
        "emmy/annotator" | "emmy/gutter" | "emmy/syntaxTree" => json!({"uri": uri}),
        "emmy/gutter/detail" => json!({"data": "x"}),
        "textDocument/selectionRange" => json!({"textDocument": td, "positions": [pos(rng), pos(rng)]}),
        "completionItem/resolve" => json!({"label": "bar"}),
        "textDocument/inlayHint" => json!({"textDocument": td, "range": range(rng)}),
        "inlayHint/resolve" => json!({"position": pos(rng), "label": "x"}),
        "textDocument/references" => json!({"textDocument": td, "position": pos(rng), "context": {"includeDeclaration": true}}),
        "textDocument/rename" => json!({"textDocument": td, "position": pos(rng), "newName": "zz"}),
        "codeLens/resolve" => json!({"range": range(rng)}),
        "workspace/executeCommand" => json!({"command": "verif.no.such.command", "arguments": []}),
        "textDocument/codeAction" => json!({"textDocument": td, "range": range(rng), "context": {"diagnostics": []}}),
        "textDocument/inlineValue" => json!({"textDocument": td, "range": range(rng), "context": {"frameId": 0, "stoppedLocation": range(rng)}}),
        "workspace/symbol" => json!({"query": "Fo"}),
        "textDocument/formatting" => json!({"textDocument": td, "options": fmt_opts}),
        "textDocument/rangeFormatting" => json!({"textDocument": td, "range": range(rng), "options": fmt_opts}),
        "textDocument/onTypeFormatting" => json!({"textDocument": td, "position": pos(rng), "ch": "\n", "options": fmt_opts}),
        "callHierarchy/incomingCalls" | "callHierarchy/outgoingCalls" => json!({"item": item}),
        "workspace/diagnostic" => json!({"previousResultIds": []}),
        _ => {
            // unknown to the harness (a method added to the table later): a generic superset object
            return (json!({"textDocument": td, "position": pos(rng), "range": range(rng), "uri": uri, "query": "", "options": fmt_opts,
                           "context": {"includeDeclaration": true, "diagnostics": [], "frameId": 0, "stoppedLocation": range(rng), "triggerKind": 1}}), false);
        }
    };
    (v, true)
}

/// params that do not deserialise into the method's params type
fn bad_params(rng: &mut Rng) -> Value {
    match rng.below(5) {
        0 => json!({"textDocument": 5}),
        1 => json!(5),
        2 => json!("str"),
        3 => json!({"textDocument": {"uri": 7}, "uri": 7, "data": 7, "label": 7, "range": 7, "command": 7, "query": 7, "item": 7, "previousResultIds": 7}),
        _ => json!({"uri": [], "data": [], "label": [], "range": "r", "command": {}, "query": {}, "item": [], "previousResultIds": {}, "textDocument": []}),
    }
}

fn rid(v: &Value) -> RequestId {
    match v {
        Value::String(s) => RequestId::from(s.clone()),
        Value::Number(n) => RequestId::from(n.as_i64().unwrap_or(0) as i32),
        _ => RequestId::from(0),
    }
}

struct Ctx {
    srv: MemServer,
    uri: String,
    methods: Vec<String>,
    next_id: i64,
    no_template: HashSet<String>,
    /// every response ever received, by request id (ids are unique across the cases of a run): a response
    /// that arrives late is still credited to the request it answers
    all_obs: BTreeMap<String, Vec<String>>,
    /// every request id ever sent by a case
    issued: HashSet<String>,
}

fn gen_case(cx: &mut Ctx, rng: &mut Rng, stream: usize) -> Vec<Value> {
    let n = 1 + rng.below(if stream == 0 { 4 } else { 12 });
    let mut msgs: Vec<Value> = Vec::new();
    let mut used: Vec<Value> = Vec::new();
    let mut fresh = |cx: &mut Ctx, rng: &mut Rng, used: &mut Vec<Value>| -> Value {
        if !used.is_empty() && rng.chance(1, 25) {
            return rng.pick(used).clone(); // duplicate id inside the case
        }
        cx.next_id += 1;
        let v = if rng.chance(1, 6) { json!(format!("s{}", cx.next_id)) } else { json!(cx.next_id) };
        used.push(v.clone());
        v
    };
    for _ in 0..n {
        let roll = rng.below(100);
        let m = if roll < 48 {
            let id = fresh(cx, rng, &mut used);
            let method = rng.pick(&cx.methods).clone();
            let pv = match rng.below(20) {
                0..=10 => "valid",
                11..=15 => "bad",
                _ => "absent",
            };
            json!({"k": "req", "id": id, "m": method, "pv": pv})
        } else if roll < 56 {
            let id = fresh(cx, rng, &mut used);
            let m = *rng.pick(&["no/such", "textDocument/nope", "$/unknownRequest", "initialize", "textDocument/didOpen", ""]);
            json!({"k": "unknown", "id": id, "m": m})
        } else if roll < 70 {
            let id = fresh(cx, rng, &mut used);
            let mode = *rng.pick(&["ok", "ok", "none", "panic"]);
            let ms = *rng.pick(&[0u64, 0, 5, 40, 120]);
            json!({"k": "task", "id": id, "mode": mode, "ms": ms})
        } else if roll < 84 {
            // cancel an earlier id, a later one, or one that never exists
            let id = if !used.is_empty() && rng.chance(7, 10) {
                rng.pick(&used).clone()
            } else if rng.chance(1, 2) {
                json!(cx.next_id + 1 + rng.below(3) as i64)
            } else {
                json!(format!("never{}", rng.below(5)))
            };
            json!({"k": "cancel", "id": id})
        } else if roll < 86 {
            json!({"k": "cancelbad"})
        } else if roll < 97 {
            let m = *rng.pick(&["textDocument/didChange", "textDocument/didSave", "$/setTrace", "textDocument/didOpen",
                                "textDocument/didClose", "workspace/didChangeConfiguration", "no/suchNotification", "initialized"]);
            let pv = *rng.pick(&["valid", "valid", "bad", "absent"]);
            json!({"k": "notif", "m": m, "pv": pv})
        } else {
            json!({"k": "resp", "id": rng.below(1000) + 100000})
        };
        msgs.push(m);
    }
    msgs
}

fn notif_params(m: &str, pv: &str, uri: &str, side_uri: &str, rng: &mut Rng) -> Value {
    if pv == "absent" {
        return Value::Null;
    }
    if pv == "bad" {
        return bad_params(rng);
    }
    match m {
        // the main document is never changed (requests refer to it); notifications go to a side document
        "textDocument/didOpen" => json!({"textDocument": {"uri": side_uri, "languageId": "lua", "version": 1, "text": "local side = 1\n"}}),
        "textDocument/didChange" => json!({"textDocument": {"uri": side_uri, "version": 2}, "contentChanges": [{"text": "local side = 2\n"}]}),
        "textDocument/didClose" | "textDocument/didSave" => json!({"textDocument": {"uri": side_uri}}),
        "$/setTrace" => json!({"value": "off"}),
        "workspace/didChangeConfiguration" => json!({"settings": {}}),
        _ => json!({"x": uri}),
    }
}

/// send the messages of a case, collect the responses per request id
fn run_case(cx: &mut Ctx, msgs: &[Value], rng: &mut Rng, wait_missing: Duration) -> (BTreeMap<String, Vec<String>>, bool) {
    let uri = cx.uri.clone();
    let side = format!("{}/side.lua", cx.srv.root_uri);
    let mut expected: Vec<RequestId> = Vec::new();
    let mut max_ms = 0u64;
    for m in msgs {
        match m["k"].as_str().unwrap_or("") {
            "req" => {
                let id = rid(&m["id"]);
                let method = m["m"].as_str().unwrap_or("").to_string();
                let params = match m["pv"].as_str().unwrap_or("valid") {
                    "valid" => {
                        let (p, templ) = valid_params(&method, &uri, rng);
                        if !templ {
                            cx.no_template.insert(method.clone());
                        }
                        p
                    }
                    "bad" => bad_params(rng),
                    _ => Value::Null,
                };
                cx.srv.send_req(id.clone(), &method, params);
                expected.push(id);
            }
            "unknown" => {
                let id = rid(&m["id"]);
                cx.srv.send_req(id.clone(), m["m"].as_str().unwrap_or(""), json!({"textDocument": {"uri": uri}}));
                expected.push(id);
            }
            "task" => {
                let id = rid(&m["id"]);
                let ms = m["ms"].as_u64().unwrap_or(0);
                max_ms = max_ms.max(ms);
                cx.srv.send_req(id.clone(), "verif/task", json!({"mode": m["mode"], "ms": ms}));
                expected.push(id);
            }
            "cancel" => cx.srv.send_notif("$/cancelRequest", json!({"id": m["id"]})),
            "cancelbad" => cx.srv.send_notif("$/cancelRequest", json!({"id": {"x": 1}})),
            "notif" => {
                let meth = m["m"].as_str().unwrap_or("");
                let p = notif_params(meth, m["pv"].as_str().unwrap_or("valid"), &uri, &side, rng);
                cx.srv.send_notif(meth, p);
            }
            "resp" => cx.srv.send(Message::Response(Response::new_ok(rid(&m["id"]), Value::Null))),
            _ => {}
        }
    }
    // the probe: the server must still answer a later request
    cx.next_id += 1;
    let probe = RequestId::from(cx.next_id as i32);
    cx.srv.send_req(probe.clone(), "textDocument/documentSymbol", json!({"textDocument": {"uri": uri}}));
    let probe_ok = cx.srv.wait_response(&probe, Duration::from_secs(20)).is_some();
    // wait until every expected id has as many responses as requests, or the deadline passes
    let mut want: BTreeMap<String, usize> = BTreeMap::new();
    for id in &expected {
        *want.entry(id_json(id).to_string()).or_insert(0) += 1;
        cx.issued.insert(id_json(id).to_string());
    }
    let deadline = Instant::now() + wait_missing + Duration::from_millis(max_ms);
    loop {
        absorb(cx);
        if complete(cx, &want) || Instant::now() >= deadline {
            break;
        }
        cx.srv.drain(Duration::from_millis(20), Duration::from_millis(40));
    }
    // a short grace period to catch duplicate (extra) responses
    cx.srv.drain(Duration::from_millis(15), Duration::from_millis(60));
    absorb(cx);
    (view(cx, &want), probe_ok)
}

/// move the responses received so far into the global per-id record
fn absorb(cx: &mut Ctx) {
    for r in cx.srv.take_inbox() {
        cx.all_obs.entry(id_json(&r.id).to_string()).or_default().push(class_of(&r));
    }
}
fn complete(cx: &Ctx, want: &BTreeMap<String, usize>) -> bool {
    want.iter().all(|(k, n)| cx.all_obs.get(k).map(|v| v.len()).unwrap_or(0) >= *n)
}
/// the responses recorded so far for the ids of one case
fn view(cx: &Ctx, want: &BTreeMap<String, usize>) -> BTreeMap<String, Vec<String>> {
    let mut obs = BTreeMap::new();
    for k in want.keys() {
        let mut v = cx.all_obs.get(k).cloned().unwrap_or_default();
        v.sort();
        obs.insert(k.clone(), v);
    }
    obs
}

fn start(args: &Args) -> Ctx {
    let dir = std::path::PathBuf::from(args.str("dir", std::env::temp_dir().to_str().unwrap()));
    unsafe { std::env::set_var("VH_TMP", &dir) };
    let root = fresh_dir("c24");
    std::fs::write(root.join("main.lua"), DOC).unwrap();
    std::fs::write(root.join("other.lua"), "local M = {}\nfunction M.f() end\nreturn M\n").unwrap();
    let mut srv = MemServer::start(&root, default_caps());
    assert!(srv.wait_ready(1), "server did not become ready");
    let uri = format!("{}/main.lua", srv.root_uri);
    srv.send_notif("textDocument/didOpen", json!({"textDocument": {"uri": uri, "languageId": "lua", "version": 1, "text": DOC}}));
    std::thread::sleep(Duration::from_millis(300));
    srv.drain(Duration::from_millis(200), Duration::from_secs(3));
    srv.take_inbox();
    let methods: Vec<String> = match args.kv.get("methods") {
        Some(f) => std::fs::read_to_string(f).unwrap().lines().map(|l| l.trim().to_string()).filter(|l| !l.is_empty()).collect(),
        None => BUILTIN_METHODS.iter().map(|s| s.to_string()).collect(),
    };
    Ctx { srv, uri, methods, next_id: 100, no_template: HashSet::new(), all_obs: BTreeMap::new(), issued: HashSet::new() }
}

/// the request occurrences of a case with what the property demands: one response each
fn request_ids(msgs: &[Value]) -> BTreeMap<String, usize> {
    let mut m = BTreeMap::new();
    for x in msgs {
        if matches!(x["k"].as_str(), Some("req") | Some("unknown") | Some("task")) {
            *m.entry(id_json(&rid(&x["id"])).to_string()).or_insert(0) += 1;
        }
    }
    m
}

fn signature_of(msgs: &[Value], id: &str, got: usize, want: usize) -> (String, String) {
    // classify by the first request with that id
    let m = msgs.iter().find(|x| matches!(x["k"].as_str(), Some("req") | Some("unknown") | Some("task")) && id_json(&rid(&x["id"])).to_string() == id);
    let kind = match m {
        Some(x) => match x["k"].as_str().unwrap() {
            "req" => match x["pv"].as_str().unwrap_or("") {
                "valid" => format!("known-method-valid-params:{}", x["m"].as_str().unwrap_or("")),
                _ => "known-method-params-not-deserialisable".to_string(),
            },
            "unknown" => "unknown-method".to_string(),
            _ => format!("task-{}", x["mode"].as_str().unwrap_or("")),
        },
        None => "no-such-request".to_string(),
    };
    let dir = if got < want { "missing-response" } else { "extra-response" };
    (format!("{}:{}", dir, kind), format!("request id {} ({}) got {} response(s), expected {}", id, kind, got, want))
}

fn check_case(msgs: &[Value], obs: &BTreeMap<String, Vec<String>>, probe_ok: bool) -> Vec<(String, String)> {
    let mut v = Vec::new();
    let want = request_ids(msgs);
    for (id, n) in &want {
        let got = obs.get(id).map(|x| x.len()).unwrap_or(0);
        if got != *n {
            v.push(signature_of(msgs, id, got, *n));
        }
    }
    if !probe_ok {
        v.push(("server-stopped-serving".to_string(), "the probe request after the case got no response".to_string()));
    }
    v
}

fn case_shape(msgs: &[Value]) -> String {
    // structural key: kinds, methods, param validity, outcome modes, cancel targets relative to the case
    let mut ids: Vec<String> = Vec::new();
    let mut s = String::new();
    for m in msgs {
        let k = m["k"].as_str().unwrap_or("");
        s.push_str(k);
        if let Some(id) = m.get("id") {
            let key = id.to_string();
            let ix = match ids.iter().position(|x| *x == key) {
                Some(i) => i,
                None => {
                    ids.push(key);
                    ids.len() - 1
                }
            };
            s.push_str(&format!("#{}", ix));
        }
        for f in ["m", "pv", "mode", "ms"] {
            if let Some(x) = m.get(f) {
                s.push_str(&format!(":{}", x));
            }
        }
        s.push('|');
    }
    s
}

fn nontrivial(msgs: &[Value]) -> bool {
    // at least one request whose response depends on the dispatcher's non-default paths or on concurrency
    let reqs = msgs.iter().filter(|m| matches!(m["k"].as_str(), Some("req") | Some("unknown") | Some("task"))).count();
    let special = msgs.iter().any(|m| match m["k"].as_str() {
        Some("req") => m["pv"] != "valid",
        Some("unknown") | Some("cancel") => true,
        Some("task") => m["mode"] != "ok",
        _ => false,
    });
    reqs >= 1 && (special || reqs >= 2)
}

fn corpus_cases(args: &Args) -> Vec<Vec<Value>> {
    let mut out = Vec::new();
    if let Some(f) = args.kv.get("corpus") {
        if let Ok(s) = std::fs::read_to_string(f) {
            if let Ok(Value::Array(a)) = serde_json::from_str::<Value>(&s) {
                for c in a {
                    if let Some(ms) = c.get("msgs").and_then(Value::as_array) {
                        out.push(ms.clone());
                    }
                }
            }
        }
    }
    out
}

/// corpus ids are symbolic; give them fresh numeric ids (keeping equalities) so cases do not collide
fn rebase_ids(cx: &mut Ctx, msgs: &[Value]) -> Vec<Value> {
    let mut map: BTreeMap<String, Value> = BTreeMap::new();
    let mut out = Vec::new();
    for m in msgs {
        let mut m = m.clone();
        if let Some(id) = m.get("id").cloned() {
            if m["k"] != "resp" {
                let key = id.to_string();
                let v = map.entry(key).or_insert_with(|| {
                    cx.next_id += 1;
                    if id.is_string() { json!(format!("s{}", cx.next_id)) } else { json!(cx.next_id) }
                });
                m["id"] = v.clone();
            }
        }
        out.push(m);
    }
    out
}

fn main() {
    let args = Args::parse();
    let seed = args.u64("seed", 1);
    let n = args.usize("n", 100);
    match args.cmd.as_str() {
        "corr" | "search" => {
            let search = args.cmd == "search";
            let mut cx = start(&args);
            let mut rng = Rng::new(seed ^ if search { 0x5EA5C4 } else { 0xC022 });
            let wait = Duration::from_millis(args.u64("wait-ms", 3000));
            let mut seen = HashSet::new();
            let mut distinct_nontrivial = 0usize;
            let mut kinds: BTreeMap<String, usize> = BTreeMap::new();
            let mut classes: BTreeMap<String, usize> = BTreeMap::new();
            let mut methods_valid: HashSet<String> = HashSet::new();
            let mut methods_bad: HashSet<String> = HashSet::new();
            let mut violations = 0usize;
            let mut cases = 0usize;
            let max_viol = args.usize("max-viol", 60);
            let mut stopped_early = false;
            let mut provisional = 0usize;
            let mut records: Vec<(Vec<Value>, bool)> = Vec::new();
            let mut sig_count: BTreeMap<String, usize> = BTreeMap::new();
            let corpus = corpus_cases(&args);
            // systematic stream: every registered method x {valid, bad, absent} as single-request cases
            let mut systematic: Vec<Vec<Value>> = Vec::new();
            for m in cx.methods.clone() {
                for pv in ["valid", "bad", "absent"] {
                    systematic.push(vec![json!({"k": "req", "id": 0, "m": m, "pv": pv})]);
                }
            }
            // in quick corr runs only a seeded third of the systematic stream, all of it in search
            let total = n;
            let mut queue: Vec<Vec<Value>> = Vec::new();
            queue.extend(corpus);
            if search || args.flag("systematic") {
                queue.extend(systematic);
            } else {
                for (i, c) in systematic.into_iter().enumerate() {
                    if (i as u64 + seed) % 3 == 0 {
                        queue.push(c);
                    }
                }
            }
            let fixed = queue.len();
            let mut qi = 0usize;
            while cases < total.max(fixed) {
                let msgs = if qi < queue.len() {
                    qi += 1;
                    let q = queue[qi - 1].clone();
                    rebase_ids(&mut cx, &q)
                } else {
                    let stream = rng.below(4);
                    gen_case(&mut cx, &mut rng, stream)
                };
                cases += 1;
                let (obs, probe_ok) = run_case(&mut cx, &msgs, &mut rng, wait);
                for m in &msgs {
                    *kinds.entry(m["k"].as_str().unwrap_or("").to_string()).or_insert(0) += 1;
                    if m["k"] == "req" {
                        if m["pv"] == "valid" {
                            methods_valid.insert(m["m"].as_str().unwrap().to_string());
                        } else {
                            methods_bad.insert(m["m"].as_str().unwrap().to_string());
                        }
                    }
                }
                if seen.insert(case_shape(&msgs)) && nontrivial(&msgs) {
                    distinct_nontrivial += 1;
                }
                // provisional verdict (responses may still arrive late): only used to stop early on a broken tree
                if search && !check_case(&msgs, &obs, probe_ok).is_empty() {
                    provisional += 1;
                }
                records.push((msgs.clone(), probe_ok));
                if provisional >= max_viol {
                    stopped_early = true;
                    break;
                }
                if cx.srv.server_ended().is_some() {
                    println!("{}", json!({"signature": "server-stopped-serving", "what": "the server loop ended during the run", "case": {"msgs": msgs}}));
                    break;
                }
            }
            // final settle: a late response is credited to its request; only what never arrives is missing
            let all_want: Vec<BTreeMap<String, usize>> = records.iter().map(|(m, _)| request_ids(m)).collect();
            let t_end = Instant::now();
            while t_end.elapsed() < Duration::from_secs(10) {
                absorb(&mut cx);
                if all_want.iter().all(|w| complete(&cx, w)) {
                    break;
                }
                cx.srv.drain(Duration::from_millis(50), Duration::from_millis(200));
            }
            cx.srv.drain(Duration::from_millis(100), Duration::from_millis(300));
            absorb(&mut cx);
            for (msgs, probe_ok) in records.clone() {
                let obs = view(&cx, &request_ids(&msgs));
                for v in obs.values() {
                    for c in v {
                        *classes.entry(c.clone()).or_insert(0) += 1;
                    }
                }
                if search {
                    for (sig, what) in check_case(&msgs, &obs, probe_ok) {
                        violations += 1;
                        let seen_sig = sig_count.entry(sig.clone()).or_insert(0usize);
                        *seen_sig += 1;
                        // shrink (only the first few of a kind): does the single offending request alone reproduce it?
                        let mut shrunk = msgs.clone();
                        if msgs.len() > 1 && *seen_sig <= 3 {
                            for m in &msgs {
                                if matches!(m["k"].as_str(), Some("req") | Some("unknown") | Some("task")) {
                                    let one = rebase_ids(&mut cx, &[m.clone()]);
                                    let (o1, p1) = run_case(&mut cx, &one, &mut rng, Duration::from_secs(8));
                                    let v1 = check_case(&one, &o1, p1);
                                    if v1.iter().any(|(s, _)| *s == sig) {
                                        shrunk = one;
                                        break;
                                    }
                                }
                            }
                        }
                        println!("{}", json!({"signature": sig, "what": what, "case": {"msgs": shrunk, "original_len": msgs.len()}}));
                    }
                } else {
                    println!("{}", json!({"msgs": msgs, "obs": obs, "probe": probe_ok}));
                }
            }
            // responses for ids that no request of the run carried
            let strays: Vec<String> = cx.all_obs.keys().filter(|k| !cx.issued.contains(*k)).cloned().collect();
            if search {
                for k in strays {
                    violations += 1;
                    println!("{}", json!({"signature": "extra-response:no-such-request", "what": format!("response(s) {:?} for id {} that was never requested", cx.all_obs[&k], k), "case": {"msgs": []}}));
                }
            }
            println!("{}", json!({"summary": {"cases": cases, "distinct_nontrivial": distinct_nontrivial, "message_kinds": kinds,
                "response_classes": classes, "methods": cx.methods.len(), "methods_with_valid_params_case": methods_valid.len(),
                "methods_with_bad_or_absent_params_case": methods_bad.len(), "methods_without_template": cx.no_template.iter().collect::<Vec<_>>(),
                "violations": violations, "stopped_early_after_max_violations": stopped_early, "server_notifications_seen": cx.srv.notifications}}));
            std::io::stdout().flush().unwrap();
            std::process::exit(0);
        }
        "one" => {
            let mut cx = start(&args);
            let mut rng = Rng::new(seed);
            let case: Value = serde_json::from_str(&args.str("case-json", "{}")).unwrap();
            let msgs0 = case["msgs"].as_array().cloned().unwrap_or_default();
            let msgs = rebase_ids(&mut cx, &msgs0);
            let (obs, probe_ok) = run_case(&mut cx, &msgs, &mut rng, Duration::from_millis(args.u64("wait-ms", 2500)));
            println!("{}", json!({"msgs": msgs, "obs": obs, "probe": probe_ok}));
            for (sig, what) in check_case(&msgs, &obs, probe_ok) {
                println!("{}", json!({"signature": sig, "what": what, "case": {"msgs": msgs}}));
            }
            std::io::stdout().flush().unwrap();
            std::process::exit(0);
        }
        "stdio" => stdio_cases(&args),
        _ => {
            eprintln!("usage: c24 corr|search|one|stdio …");
            std::process::exit(2);
        }
    }
}

// ------------------------------------------------------------------------------------------------
// handshake cases against the real stdio binary (run_ls): requests before initialize, an initialize
// whose params do not deserialise, a good initialize, a request, shutdown/exit.

struct Child {
    child: std::process::Child,
    rx: std::sync::mpsc::Receiver<Value>,
}

fn frame(v: &Value) -> Vec<u8> {
    let s = serde_json::to_string(v).unwrap();
    format!("Content-Length: {}\r\n\r\n{}", s.len(), s).into_bytes()
}

impl Child {
    fn spawn(bin: &str, cwd: &std::path::Path) -> Child {
        let mut child = std::process::Command::new(bin)
            .current_dir(cwd)
            .stdin(std::process::Stdio::piped())
            .stdout(std::process::Stdio::piped())
            .stderr(std::process::Stdio::null())
            .spawn()
            .expect("spawn emmylua_ls");
        let out = child.stdout.take().unwrap();
        let (tx, rx) = std::sync::mpsc::channel();
        std::thread::spawn(move || {
            let mut r = BufReader::new(out);
            loop {
                let mut len = 0usize;
                loop {
                    let mut line = String::new();
                    match r.read_line(&mut line) {
                        Ok(0) | Err(_) => return,
                        _ => {}
                    }
                    let l = line.trim();
                    if l.is_empty() {
                        break;
                    }
                    if let Some(v) = l.to_ascii_lowercase().strip_prefix("content-length:") {
                        len = v.trim().parse().unwrap_or(0);
                    }
                }
                let mut buf = vec![0u8; len];
                if r.read_exact(&mut buf).is_err() {
                    return;
                }
                if let Ok(v) = serde_json::from_slice::<Value>(&buf) {
                    if tx.send(v).is_err() {
                        return;
                    }
                }
            }
        });
        Child { child, rx }
    }
    fn send(&mut self, v: Value) -> bool {
        match self.child.stdin.as_mut() {
            Some(i) => i.write_all(&frame(&v)).and_then(|_| i.flush()).is_ok(),
            None => false,
        }
    }
    /// responses (messages with an id and no method) received within `t`, until `want` ids are all seen
    fn collect(&mut self, want: &[Value], t: Duration, obs: &mut BTreeMap<String, Vec<String>>) {
        let deadline = Instant::now() + t;
        loop {
            let done = want.iter().all(|w| obs.get(&w.to_string()).map(|v| !v.is_empty()).unwrap_or(false));
            if done {
                return;
            }
            let left = match deadline.checked_duration_since(Instant::now()) {
                Some(l) => l,
                None => return,
            };
            match self.rx.recv_timeout(left.min(Duration::from_millis(100))) {
                Ok(v) => {
                    if v.get("method").is_some() {
                        // server->client request: answer it; notification: ignore
                        if let Some(id) = v.get("id") {
                            self.send(json!({"jsonrpc": "2.0", "id": id, "result": null}));
                        }
                        continue;
                    }
                    if let Some(id) = v.get("id") {
                        let class = match v.get("error") {
                            Some(e) => format!("err:{}", e["code"]),
                            None => "ok".to_string(),
                        };
                        obs.entry(id.to_string()).or_default().push(class);
                    }
                }
                Err(std::sync::mpsc::RecvTimeoutError::Timeout) => {}
                Err(_) => return,
            }
        }
    }
}

fn stdio_cases(args: &Args) {
    let bin = args.str("bin", "emmylua_ls");
    let dir = std::path::PathBuf::from(args.str("dir", std::env::temp_dir().to_str().unwrap()));
    unsafe { std::env::set_var("VH_TMP", &dir) };
    let root = fresh_dir("c24stdio");
    std::fs::write(root.join("main.lua"), DOC).unwrap();
    let root_uri = path_to_uri(&root);
    let uri = format!("{}/main.lua", root_uri);
    let good_init = json!({"processId": null, "rootUri": root_uri, "capabilities": {"workspace": {"configuration": false}},
                           "workspaceFolders": [{"uri": root_uri, "name": "w"}]});
    // each case: list of (message, is_request); all ids distinct
    let bad_inits: Vec<(&str, Value)> = vec![
        ("capabilities-not-an-object", json!({"processId": null, "rootUri": root_uri, "capabilities": 5})),
        ("capabilities-missing", json!({"processId": null, "rootUri": root_uri})),
        ("capabilities-field-wrong-type", json!({"processId": null, "rootUri": root_uri, "capabilities": {"workspace": {"configuration": "yes"}}})),
        ("params-absent", Value::Null),
        ("rootUri-wrong-type", json!({"processId": null, "rootUri": 7, "capabilities": {}})),
    ];
    let mut variants: Vec<(String, Vec<Value>)> = Vec::new();
    variants.push(("good-initialize".into(), vec![]));
    variants.push(("request-before-initialize".into(), vec![json!({"jsonrpc": "2.0", "id": 50, "method": "textDocument/hover", "params": {"textDocument": {"uri": uri}, "position": {"line": 0, "character": 0}}})]));
    for (name, p) in &bad_inits {
        let mut m = json!({"jsonrpc": "2.0", "id": 60, "method": "initialize"});
        if !p.is_null() {
            m["params"] = p.clone();
        }
        variants.push((format!("bad-initialize:{}", name), vec![m]));
    }
    for (name, pre) in variants {
        let mut ch = Child::spawn(&bin, &root);
        let mut obs: BTreeMap<String, Vec<String>> = BTreeMap::new();
        let mut want: Vec<Value> = Vec::new();
        for m in &pre {
            ch.send(m.clone());
            want.push(m["id"].clone());
        }
        ch.collect(&want, Duration::from_secs(3), &mut obs);
        // now a good initialize: the server must still be there
        ch.send(json!({"jsonrpc": "2.0", "id": 1, "method": "initialize", "params": good_init}));
        want.push(json!(1));
        ch.collect(&want, Duration::from_secs(10), &mut obs);
        ch.send(json!({"jsonrpc": "2.0", "method": "initialized", "params": {}}));
        // a request sent during the initialization phase (queued and replayed), a malformed one, an unknown one
        ch.send(json!({"jsonrpc": "2.0", "id": 2, "method": "textDocument/hover", "params": {"textDocument": {"uri": uri}, "position": {"line": 2, "character": 7}}}));
        ch.send(json!({"jsonrpc": "2.0", "id": 3, "method": "textDocument/hover", "params": {"textDocument": 5}}));
        ch.send(json!({"jsonrpc": "2.0", "id": 4, "method": "textDocument/hover"}));
        ch.send(json!({"jsonrpc": "2.0", "id": 5, "method": "no/such", "params": {}}));
        want.extend([json!(2), json!(3), json!(4), json!(5)]);
        ch.collect(&want, Duration::from_secs(if obs.contains_key("1") { 40 } else { 3 }), &mut obs);
        ch.send(json!({"jsonrpc": "2.0", "id": 6, "method": "shutdown"}));
        want.push(json!(6));
        ch.collect(&want, Duration::from_secs(if obs.contains_key("1") { 10 } else { 1 }), &mut obs);
        ch.send(json!({"jsonrpc": "2.0", "method": "exit"}));
        // exit status
        let t0 = Instant::now();
        let mut status: Option<i32> = None;
        let mut exited = false;
        while t0.elapsed() < Duration::from_secs(10) {
            match ch.child.try_wait() {
                Ok(Some(st)) => {
                    exited = true;
                    status = st.code();
                    break;
                }
                _ => std::thread::sleep(Duration::from_millis(50)),
            }
        }
        if !exited {
            let _ = ch.child.kill();
            let _ = ch.child.wait();
        }
        let mut buf = Vec::new();
        if let Some(mut e) = ch.child.stderr.take() {
            let _ = e.read_to_end(&mut buf);
        }
        let pre_ids: Vec<Value> = pre.iter().map(|m| m["id"].clone()).collect();
        println!("{}", json!({"variant": name, "pre_ids": pre_ids, "obs": obs, "exited": exited, "status": status}));
    }
    let _ = std::fs::remove_dir_all(&root);
}
