//! C28 harness: the server never deadlocks — seeded stress of the REAL in-process server with a watchdog.
//!   c28 search --seed S --n ROUNDS --dir D [--watchdog-ms T] [--files K] [--trace-out FILE]
//!        --trace-out: record every lock acquisition / release per task (hook verif_lock) and write them as JSON
//!        lines [task, event, lock] in global order (the check compares them with the regenerated lock programs)
//!        -> JSON lines {"signature","what","case"} for a hang + final {"summary":{..}}
//!   c28 workers --workers W --dir D [--watchdog-ms T]
//!        start the server on a runtime with W worker threads and a client WITHOUT dynamic watched-files
//!        registration (the server then watches the workspace itself); after initialization a canary request
//!        must be answered.  A task that blocks a worker thread forever (not a lock: a blocking call inside
//!        an async task) shows up as a hang when W = 1.   -> JSON line {"signature":"worker-parked",..} or {"summary":..}
//!   c28 one --case-json '{"burst":[..]}' --dir D [--repeat R] [--watchdog-ms T]
//! A round = a burst of notifications and requests sent back to back (so that their handler tasks run
//! concurrently on the multi-thread runtime), followed by canary requests that need both the analysis
//! and the workspace-manager lock.  Oracle: every request of the round and the canaries are answered
//! within the watchdog time.  A hang is the replay (the burst is printed).
//!
//! burst items: ["open",f,k] ["change",f,k] ["close",f] ["save",f] ["watched",[[f,typ]..],emmyrc?]
//!              ["req",method,f]   (f = file index, k = text id, typ 1 created 2 changed 3 deleted)
#[path = "../memserver.rs"]
mod memserver;

use lsp_server::RequestId;
use memserver::*;
use serde_json::{Value, json};
use std::collections::BTreeMap;
use std::io::Write;
use std::path::PathBuf;
use std::time::{Duration, Instant};
use vh_common::{Args, Rng};

const REQS: [&str; 10] = [
    "textDocument/semanticTokens/full",
    "completionItem/resolve",
    "textDocument/formatting",
    "textDocument/rangeFormatting",
    "textDocument/foldingRange",
    "textDocument/inlayHint",
    "codeLens/resolve",
    "textDocument/hover",
    "textDocument/documentSymbol",
    "workspace/symbol",
];

fn text_of(f: usize, k: u64) -> String {
    let mut s = format!("---@class C{f}_{k}\nlocal M{f} = {{}}\n");
    for i in 0..(8 + (k % 5)) {
        s.push_str(&format!("function M{f}.f{i}(a, b)\n  local x{i} = a + {k}\n  return x{i} * b\nend\n"));
    }
    s.push_str(&format!("return M{f}\n"));
    s
}

struct Ctx {
    srv: MemServer,
    root: PathBuf,
    files: usize,
    next_id: i32,
    version: i64,
}

fn caps() -> Value {
    // dynamic watched-files registration: the server asks the client to watch (no fs-notify thread), so the
    // only watched-file events are the ones this harness sends
    json!({"workspace": {"configuration": false, "didChangeWatchedFiles": {"dynamicRegistration": true}},
           "textDocument": {}})
}

fn start(args: &Args) -> Ctx {
    let dir = PathBuf::from(args.str("dir", std::env::temp_dir().to_str().unwrap()));
    unsafe { std::env::set_var("VH_TMP", &dir) };
    let root = fresh_dir("c28ws");
    let files = args.usize("files", 24);
    for f in 0..files {
        std::fs::write(root.join(format!("m{}.lua", f)), text_of(f, 0)).unwrap();
    }
    std::fs::write(root.join(".emmyrc.json"), "{\n  \"diagnostics\": {\"enable\": true}\n}\n").unwrap();
    let mut srv = MemServer::start(&root, caps());
    assert!(srv.wait_ready(1), "server did not become ready");
    srv.drain(Duration::from_millis(300), Duration::from_secs(5));
    srv.take_inbox();
    Ctx { srv, root, files, next_id: 10, version: 1 }
}

fn uri(cx: &Ctx, f: usize) -> String {
    format!("{}/m{}.lua", cx.srv.root_uri, f % cx.files)
}

fn gen_burst(rng: &mut Rng, files: usize, emmyrc: bool) -> Vec<Value> {
    let mut b = Vec::new();
    let shape = if emmyrc { rng.below(4) } else { 1 + rng.below(3) };
    let f0 = rng.below(files);
    match shape {
        0 => {
            // watched-files notification that ends with a config event, then a writer on workspace_manager
            let n = rng.range(20, 200);
            let evs: Vec<Value> = (0..n).map(|i| json!([(f0 + i) % files, 2])).collect();
            b.push(json!(["watched", evs, true]));
            b.push(json!(["close", f0]));
            b.push(json!(["open", f0, rng.range(1, 9)]));
            for _ in 0..rng.range(0, 4) {
                b.push(json!(["req", REQS[rng.below(REQS.len())], rng.below(files)]));
            }
        }
        1 => {
            // readers holding analysis and asking for workspace_manager / watched files the other way round /
            // writers on workspace_manager in between
            for _ in 0..rng.range(4, 14) {
                b.push(json!(["req", REQS[rng.below(7)], rng.below(files)]));
                if rng.chance(1, 2) {
                    let n = rng.range(1, 6);
                    let evs: Vec<Value> = (0..n).map(|_| json!([rng.below(files), rng.range(1, 2)])).collect();
                    b.push(json!(["watched", evs, false]));
                }
                let f = rng.below(files);
                b.push(json!(["close", f]));
                b.push(json!(["open", f, rng.range(1, 9)]));
                b.push(json!(["req", REQS[rng.below(7)], f]));
            }
        }
        _ => {
            for _ in 0..rng.range(5, 40) {
                let f = rng.below(files);
                match rng.below(9) {
                    0 => b.push(json!(["open", f, rng.range(1, 9)])),
                    1 | 2 => b.push(json!(["change", f, rng.range(1, 9)])),
                    3 => b.push(json!(["close", f])),
                    4 => b.push(json!(["save", f])),
                    5 => {
                        let n = rng.range(1, 30);
                        let evs: Vec<Value> = (0..n).map(|_| json!([rng.below(files), rng.range(1, 3)])).collect();
                        b.push(json!(["watched", evs, emmyrc && rng.chance(1, 3)]));
                    }
                    _ => b.push(json!(["req", REQS[rng.below(REQS.len())], f])),
                }
            }
        }
    }
    b
}

/// send the burst; returns the ids (and methods) of the requests it contains
fn send_burst(cx: &mut Ctx, burst: &[Value]) -> Vec<(RequestId, String)> {
    let mut pending = Vec::new();
    for it in burst {
        let op = it[0].as_str().unwrap_or("");
        match op {
            "open" => {
                cx.version += 1;
                let f = it[1].as_u64().unwrap_or(0) as usize;
                cx.srv.send_notif("textDocument/didOpen", json!({"textDocument": {"uri": uri(cx, f), "languageId": "lua", "version": cx.version, "text": text_of(f, it[2].as_u64().unwrap_or(1))}}));
            }
            "change" => {
                cx.version += 1;
                let f = it[1].as_u64().unwrap_or(0) as usize;
                cx.srv.send_notif("textDocument/didChange", json!({"textDocument": {"uri": uri(cx, f), "version": cx.version}, "contentChanges": [{"text": text_of(f, it[2].as_u64().unwrap_or(1))}]}));
            }
            "close" => {
                let f = it[1].as_u64().unwrap_or(0) as usize;
                cx.srv.send_notif("textDocument/didClose", json!({"textDocument": {"uri": uri(cx, f)}}));
            }
            "save" => {
                let f = it[1].as_u64().unwrap_or(0) as usize;
                cx.srv.send_notif("textDocument/didSave", json!({"textDocument": {"uri": uri(cx, f)}}));
            }
            "watched" => {
                let mut changes: Vec<Value> = Vec::new();
                for e in it[1].as_array().cloned().unwrap_or_default() {
                    let f = e[0].as_u64().unwrap_or(0) as usize;
                    let typ = e[1].as_u64().unwrap_or(2);
                    // never really delete: typ 3 is reported for a file that still exists (the handler only
                    // removes it from the analysis; a later event brings it back)
                    changes.push(json!({"uri": uri(cx, f), "type": typ}));
                }
                if it[2].as_bool().unwrap_or(false) {
                    changes.push(json!({"uri": format!("{}/.emmyrc.json", cx.srv.root_uri), "type": 2}));
                }
                cx.srv.send_notif("workspace/didChangeWatchedFiles", json!({"changes": changes}));
            }
            "req" => {
                cx.next_id += 1;
                let id = RequestId::from(cx.next_id);
                let m = it[1].as_str().unwrap_or("textDocument/hover").to_string();
                let f = it[2].as_u64().unwrap_or(0) as usize;
                let u = uri(cx, f);
                let td = json!({"uri": u});
                let params = match m.as_str() {
                    "completionItem/resolve" => json!({"label": "x", "data": {"field_id": 0, "typ": "Module", "function_overload_count": null}}),
                    "textDocument/formatting" => json!({"textDocument": td, "options": {"tabSize": 4, "insertSpaces": true}}),
                    "textDocument/rangeFormatting" => json!({"textDocument": td, "range": {"start": {"line": 1, "character": 0}, "end": {"line": 4, "character": 0}}, "options": {"tabSize": 4, "insertSpaces": true}}),
                    "textDocument/inlayHint" => json!({"textDocument": td, "range": {"start": {"line": 0, "character": 0}, "end": {"line": 30, "character": 0}}}),
                    "codeLens/resolve" => json!({"range": {"start": {"line": 2, "character": 0}, "end": {"line": 2, "character": 5}}, "data": {"DeclId": {"file_id": 0, "position": 0}}}),
                    "textDocument/hover" => json!({"textDocument": td, "position": {"line": 1, "character": 7}}),
                    "workspace/symbol" => json!({"query": "M"}),
                    _ => json!({"textDocument": td}),
                };
                cx.srv.send_req(id.clone(), &m, params);
                pending.push((id, m));
            }
            _ => {}
        }
    }
    pending
}

/// returns the methods that were not answered in time (empty = fine)
fn run_round(cx: &mut Ctx, burst: &[Value], watchdog: Duration) -> Vec<String> {
    let mut pending = send_burst(cx, burst);
    // canaries: need analysis + workspace_manager (semantic tokens), workspace_manager write (didClose of a
    // document that is not open is harmless) and the main loop itself (verif/task is dispatched by it)
    for m in ["textDocument/semanticTokens/full", "textDocument/hover", "verif/task"] {
        cx.next_id += 1;
        let id = RequestId::from(cx.next_id);
        let params = match m {
            "verif/task" => json!({"mode": "ok", "ms": 0}),
            "textDocument/hover" => json!({"textDocument": {"uri": uri(cx, 0)}, "position": {"line": 1, "character": 7}}),
            _ => json!({"textDocument": {"uri": uri(cx, 0)}}),
        };
        cx.srv.send_req(id.clone(), m, params);
        pending.push((id, format!("canary:{}", m)));
    }
    let t0 = Instant::now();
    let mut missing = Vec::new();
    for (id, m) in pending {
        let left = watchdog.checked_sub(t0.elapsed()).unwrap_or(Duration::from_millis(1));
        if cx.srv.wait_response(&id, left).is_none() {
            missing.push(m);
        }
    }
    missing
}

fn report(out: &mut impl Write, burst: &[Value], missing: &[String], round: usize) {
    let canary = missing.iter().any(|m| m.starts_with("canary:"));
    let sig = if canary { "hang" } else { "request-unanswered" };
    let v = json!({"signature": sig,
        "what": format!("round {}: {} request(s) not answered within the watchdog ({}); the server {}", round, missing.len(),
            missing.iter().take(6).cloned().collect::<Vec<_>>().join(", "),
            if canary { "no longer answers requests that need the analysis / workspace_manager locks: deadlock" } else { "still answers the canaries" }),
        "case": {"burst": burst, "missing": missing}});
    writeln!(out, "{}", v).unwrap();
}

fn main() {
    let args = Args::parse();
    let stdout = std::io::stdout();
    let mut out = stdout.lock();
    let watchdog = Duration::from_millis(args.u64("watchdog-ms", 20000));
    match args.cmd.as_str() {
        "search" => {
            let mut rng = Rng::new(args.u64("seed", 1) ^ 0xC28);
            let n = args.usize("n", 40);
            let trace_out = args.str("trace-out", "");
            if !trace_out.is_empty() {
                emmylua_ls::verif_lock_trace_enable(true);
            }
            let mut cx = start(&args);
            let mut dist: BTreeMap<String, u64> = BTreeMap::new();
            let mut msgs = 0u64;
            let mut distinct = std::collections::HashSet::new();
            let mut hung = false;
            let corpus = args.str("corpus", "");
            let mut bursts: Vec<Vec<Value>> = Vec::new();
            if !corpus.is_empty() {
                if let Ok(txt) = std::fs::read_to_string(&corpus) {
                    for l in txt.lines().filter(|l| l.trim_start().starts_with('{')) {
                        if let Ok(v) = serde_json::from_str::<Value>(l) {
                            if let Some(b) = v["burst"].as_array() {
                                bursts.push(b.clone());
                            }
                        }
                    }
                }
            }
            let ncorpus = bursts.len();
            for _ in 0..n {
                let files = cx.files;
                bursts.push(gen_burst(&mut rng, files, args.u64("emmyrc", 1) != 0));
            }
            let mut rounds = 0;
            for (r, burst) in bursts.iter().enumerate() {
                for it in burst {
                    *dist.entry(it[0].as_str().unwrap_or("?").to_string()).or_insert(0) += 1;
                }
                msgs += burst.len() as u64;
                distinct.insert(serde_json::to_string(burst).unwrap());
                let missing = run_round(&mut cx, burst, watchdog);
                rounds += 1;
                if !missing.is_empty() {
                    report(&mut out, burst, &missing, r);
                    if missing.iter().any(|m| m.starts_with("canary:")) {
                        hung = true;
                        break;
                    }
                }
            }
            // let debounced reloads triggered by the config events run, then a last liveness probe
            if !hung {
                std::thread::sleep(Duration::from_millis(args.u64("settle-ms", 2600)));
                let missing = run_round(&mut cx, &[], watchdog);
                if !missing.is_empty() {
                    report(&mut out, &[], &missing, rounds);
                }
            }
            let mut trace_events = 0usize;
            if !trace_out.is_empty() {
                emmylua_ls::verif_lock_trace_enable(false);
                let ev = emmylua_ls::verif_lock_trace_take();
                trace_events = ev.len();
                let mut f = std::io::BufWriter::new(std::fs::File::create(&trace_out).expect("trace-out"));
                for (task, kind, lock) in ev {
                    writeln!(f, "{}", json!([task, kind, lock])).unwrap();
                }
                f.flush().unwrap();
            }
            writeln!(out, "{}", json!({"summary": {"rounds": rounds, "corpus_rounds": ncorpus, "lock_trace_events": trace_events, "messages": msgs, "distinct_nontrivial": distinct.len(), "ops": dist,
                "server_notifications": cx.srv.notifications, "hung": hung}})).unwrap();
            let _ = std::fs::remove_dir_all(&cx.root);
            out.flush().unwrap();
            std::process::exit(0);
        }
        "one" => {
            let case: Value = serde_json::from_str(&args.str("case-json", "{}")).expect("case-json");
            let burst = case["burst"].as_array().cloned().unwrap_or_default();
            let mut cx = start(&args);
            let mut bad = 0;
            for r in 0..args.usize("repeat", 20) {
                let missing = run_round(&mut cx, &burst, watchdog);
                if !missing.is_empty() {
                    report(&mut out, &burst, &missing, r);
                    bad += 1;
                    if missing.iter().any(|m| m.starts_with("canary:")) {
                        break;
                    }
                }
            }
            writeln!(out, "{}", json!({"summary": {"failed_rounds": bad}})).unwrap();
            let _ = std::fs::remove_dir_all(&cx.root);
            out.flush().unwrap();
            std::process::exit(0);
        }
        "workers" => {
            use emmylua_ls::{CmdArgs, Parser, verif_serve};
            use lsp_server::{Connection, Message, Request, Response};
            let w = args.usize("workers", 1);
            let dir = PathBuf::from(args.str("dir", std::env::temp_dir().to_str().unwrap()));
            unsafe { std::env::set_var("VH_TMP", &dir) };
            let root = fresh_dir("c28w");
            for f in 0..4 {
                std::fs::write(root.join(format!("m{}.lua", f)), text_of(f, 0)).unwrap();
            }
            let (server, client) = Connection::memory();
            std::thread::Builder::new().name("vh-ls-server".into()).stack_size(64 << 20).spawn(move || {
                let rt = tokio::runtime::Builder::new_multi_thread().worker_threads(w).enable_all().thread_stack_size(32 << 20).build().unwrap();
                let _ = rt.block_on(async move { verif_serve(server, CmdArgs::parse_from(["emmylua_ls"])).await });
                std::mem::forget(rt);
            }).unwrap();
            let root_uri = path_to_uri(&root);
            let send = |m: Message| { let _ = client.sender.send(m); };
            send(Message::Request(Request { id: RequestId::from(0), method: "initialize".into(), params: json!({"processId": null, "rootUri": root_uri,
                "capabilities": {"workspace": {"configuration": false}, "textDocument": {}}, "workspaceFolders": [{"uri": root_uri, "name": "w"}]}) }));
            let wait = |id: i32, d: Duration| -> bool {
                let t0 = Instant::now();
                while t0.elapsed() < d {
                    match client.receiver.recv_timeout(Duration::from_millis(50)) {
                        Ok(Message::Response(r)) if r.id == RequestId::from(id) => return true,
                        Ok(Message::Request(r)) => { let _ = client.sender.send(Message::Response(Response::new_ok(r.id, Value::Null))); }
                        _ => {}
                    }
                }
                false
            };
            let init_ok = wait(0, Duration::from_secs(60));
            send(Message::Notification(lsp_server::Notification { method: "initialized".into(), params: json!({}) }));
            // wait for the background initialization (it ends by registering the file watcher)
            std::thread::sleep(Duration::from_millis(args.u64("init-ms", 4000)));
            let mut answered = 0;
            for (i, m) in ["verif/task", "textDocument/hover", "textDocument/documentSymbol"].iter().enumerate() {
                let params = match *m {
                    "verif/task" => json!({"mode": "ok", "ms": 0}),
                    "textDocument/hover" => json!({"textDocument": {"uri": format!("{}/m0.lua", root_uri)}, "position": {"line": 1, "character": 7}}),
                    _ => json!({"textDocument": {"uri": format!("{}/m0.lua", root_uri)}}),
                };
                send(Message::Request(Request { id: RequestId::from(10 + i as i32), method: m.to_string(), params }));
                if wait(10 + i as i32, watchdog) {
                    answered += 1;
                }
            }
            if init_ok && answered < 3 {
                writeln!(out, "{}", json!({"signature": "worker-parked", "what": format!("with {} runtime worker thread(s) and a server-side file watcher, only {} of 3 requests sent after initialization were answered within the watchdog: a spawned task blocks a worker thread", w, answered),
                    "case": {"workers": w, "answered": answered}})).unwrap();
            }
            writeln!(out, "{}", json!({"summary": {"workers": w, "initialize_answered": init_ok, "answered": answered}})).unwrap();
            let _ = std::fs::remove_dir_all(&root);
            out.flush().unwrap();
            std::process::exit(0);
        }
        _ => {
            eprintln!("usage: c28 search|one|workers ...");
            std::process::exit(2);
        }
    }
}
