//! smoke test of the H5 hook: run the real server on an in-memory connection
use emmylua_ls::{CmdArgs, Parser, verif_serve};
use lsp_server::{Connection, Message, Notification, Request};
use serde_json::json;
use std::time::Duration;

fn main() {
    let rt = tokio::runtime::Builder::new_multi_thread().enable_all().build().unwrap();
    let (server, client) = Connection::memory();
    let dir = std::env::temp_dir().join(format!("vh_ls_probe_{}", std::process::id()));
    std::fs::create_dir_all(&dir).unwrap();
    let root = format!("file://{}", dir.display());
    let h = std::thread::spawn(move || {
        rt.block_on(async move {
            let args = CmdArgs::parse_from(["emmylua_ls"]);
            let _ = verif_serve(server, args).await;
        });
    });
    client.sender.send(Message::Request(Request::new(1.into(), "initialize".into(), json!({"processId": null, "rootUri": root, "capabilities": {}, "workspaceFolders": [{"uri": root, "name": "w"}]})))).unwrap();
    let r = client.receiver.recv_timeout(Duration::from_secs(20)).unwrap();
    println!("init: {}", serde_json::to_string(&r).unwrap().len());
    client.sender.send(Message::Notification(Notification::new("initialized".into(), json!({})))).unwrap();
    std::thread::sleep(Duration::from_secs(3));
    let uri = format!("{}/a.lua", root);
    client.sender.send(Message::Notification(Notification::new("textDocument/didOpen".into(), json!({"textDocument": {"uri": uri, "languageId": "lua", "version": 1, "text": "local x = 1\nprint(x)\n"}})))).unwrap();
    std::thread::sleep(Duration::from_millis(500));
    client.sender.send(Message::Request(Request::new(2.into(), "textDocument/hover".into(), json!({"textDocument": {"uri": uri}, "position": {"line": 0, "character": 6}})))).unwrap();
    client.sender.send(Message::Request(Request::new(3.into(), "no/such".into(), json!({})))).unwrap();
    let t0 = std::time::Instant::now();
    while t0.elapsed() < Duration::from_secs(5) {
        if let Ok(m) = client.receiver.recv_timeout(Duration::from_millis(500)) {
            let s = serde_json::to_string(&m).unwrap();
            println!("msg: {}", &s[..s.len().min(200)]);
        }
    }
    client.sender.send(Message::Request(Request::new(9.into(), "shutdown".into(), json!(null)))).unwrap();
    client.sender.send(Message::Notification(Notification::new("exit".into(), json!(null)))).unwrap();
    drop(h); // the server's blocking receiver task never ends on a memory connection: exit the process instead of joining
    let _ = std::fs::remove_dir_all(&dir);
    println!("done");
    std::process::exit(0);
}
