//! In-process driver of the real emmylua_ls server (hook `emmylua_ls::verif_serve`) on an
//! `lsp_server::Connection::memory()` pair.  Included by the C24/C27 bins with `#[path]`.
//! One `MemServer` = one server instance (its own runtime thread, which never ends on a memory
//! connection: finish the process with `std::process::exit`).
#![allow(dead_code)]
use emmylua_ls::{CmdArgs, Parser, verif_serve};
use lsp_server::{Connection, Message, Notification, Request, RequestId, Response};
use serde_json::{Value, json};
use std::collections::VecDeque;
use std::path::{Path, PathBuf};
use std::time::{Duration, Instant};

pub struct MemServer {
    pub client: Connection,
    pub root: PathBuf,
    pub root_uri: String,
    /// responses received from the server that nobody consumed yet
    pub inbox: VecDeque<Response>,
    /// number of server->client notifications seen (diagnostics, progress ...)
    pub notifications: usize,
    /// the server thread ended (the serve future returned): Some(ok?)
    pub ended: std::sync::Arc<std::sync::Mutex<Option<bool>>>,
    /// when set, the next `window/workDoneProgress/create` request for token 0 (the LoadWorkspace task of a
    /// workspace reload: it is sent between the reload's open-files snapshot and its re-index) is kept
    /// unanswered in `held` instead of being answered at once
    pub want_hold: bool,
    pub held: Option<RequestId>,
}

pub fn path_to_uri(p: &Path) -> String {
    format!("file://{}", p.display())
}

pub fn default_caps() -> Value {
    // `workspace` must be present: initialized_handler returns early (`?`) without it.
    // publishDiagnostics only (no pull diagnostics), no dynamic registration, no work-done progress.
    json!({"workspace": {"configuration": false}, "textDocument": {}})
}

impl MemServer {
    /// Start a server whose only workspace folder is `root`, run the initialize handshake and
    /// `initialized`; does NOT wait for the background initialization (see `wait_ready`).
    pub fn start(root: &Path, caps: Value) -> MemServer {
        let (server, client) = Connection::memory();
        let root_uri = path_to_uri(root);
        let ended = std::sync::Arc::new(std::sync::Mutex::new(None));
        let ended2 = ended.clone();
        std::thread::Builder::new()
            .name("vh-ls-server".into())
            .stack_size(64 << 20)
            .spawn(move || {
                let rt = tokio::runtime::Builder::new_multi_thread()
                    .enable_all()
                    .thread_stack_size(32 << 20)
                    .build()
                    .unwrap();
                let r = rt.block_on(async move {
                    let args = CmdArgs::parse_from(["emmylua_ls"]);
                    verif_serve(server, args).await
                });
                *ended2.lock().unwrap() = Some(r.is_ok());
                // leak the runtime: spawned tasks may still run
                std::mem::forget(rt);
            })
            .unwrap();
        let mut s = MemServer {
            client,
            root: root.to_path_buf(),
            root_uri: root_uri.clone(),
            inbox: VecDeque::new(),
            notifications: 0,
            ended,
            want_hold: false,
            held: None,
        };
        s.send_req(
            RequestId::from(0),
            "initialize",
            json!({"processId": null, "rootUri": root_uri, "capabilities": caps,
                   "workspaceFolders": [{"uri": root_uri, "name": "w"}]}),
        );
        let r = s.wait_response(&RequestId::from(0), Duration::from_secs(30));
        assert!(r.is_some(), "no initialize response");
        s.send_notif("initialized", json!({}));
        s
    }

    /// Block until the server answers a probe request, i.e. the initialization task is done and the
    /// pending queue has been replayed.
    pub fn wait_ready(&mut self, probe_id: i32) -> bool {
        let id = RequestId::from(probe_id);
        self.send_req(id.clone(), "verif/task", json!({"mode": "ok", "ms": 0}));
        self.wait_response(&id, Duration::from_secs(120)).is_some()
    }

    pub fn send(&self, m: Message) {
        let _ = self.client.sender.send(m);
    }
    pub fn send_req(&self, id: RequestId, method: &str, params: Value) {
        // absent params = Value::Null (lsp_server::Request's serde default)
        self.send(Message::Request(Request { id, method: method.to_string(), params }));
    }
    pub fn send_notif(&self, method: &str, params: Value) {
        self.send(Message::Notification(Notification { method: method.to_string(), params }));
    }

    /// Receive one message (answering server->client requests with a null result, counting
    /// notifications); returns a response if one arrived.
    fn pump(&mut self, timeout: Duration) -> bool {
        match self.client.receiver.recv_timeout(timeout) {
            Ok(Message::Response(r)) => {
                self.inbox.push_back(r);
                true
            }
            Ok(Message::Request(r)) => {
                if self.want_hold && self.held.is_none() && r.method == "window/workDoneProgress/create" && r.params["token"] == json!(0) {
                    self.held = Some(r.id);
                    self.want_hold = false;
                } else {
                    let _ = self.client.sender.send(Message::Response(Response::new_ok(r.id, Value::Null)));
                }
                true
            }
            Ok(Message::Notification(_)) => {
                self.notifications += 1;
                true
            }
            Err(_) => false,
        }
    }

    /// Wait until a response with this id is in the inbox; removes and returns it.
    pub fn wait_response(&mut self, id: &RequestId, timeout: Duration) -> Option<Response> {
        let t0 = Instant::now();
        loop {
            if let Some(pos) = self.inbox.iter().position(|r| &r.id == id) {
                return self.inbox.remove(pos);
            }
            let left = timeout.checked_sub(t0.elapsed())?;
            self.pump(left.min(Duration::from_millis(50)));
        }
    }

    /// Collect everything that arrives during `quiet` of silence (at most `max`), leaving responses
    /// in the inbox.
    pub fn drain(&mut self, quiet: Duration, max: Duration) {
        let t0 = Instant::now();
        let mut last = Instant::now();
        while t0.elapsed() < max && last.elapsed() < quiet {
            if self.pump(Duration::from_millis(10)) {
                last = Instant::now();
            }
        }
    }

    /// answer the held progress-create request, if any
    pub fn release(&mut self) {
        self.want_hold = false;
        if let Some(id) = self.held.take() {
            let _ = self.client.sender.send(Message::Response(Response::new_ok(id, Value::Null)));
        }
    }

    /// wait (at most `max`) until the next reload's progress-create request has arrived and is being held
    pub fn hold(&mut self, max: Duration) -> bool {
        self.want_hold = true;
        let t0 = Instant::now();
        while self.held.is_none() && t0.elapsed() < max {
            self.pump(Duration::from_millis(20));
        }
        if self.held.is_none() {
            self.want_hold = false;
        }
        self.held.is_some()
    }

    /// caps of a client that supports work-done progress and watches files itself (the server then relies on
    /// `workspace/didChangeWatchedFiles` notifications, which a harness can send to trigger a workspace reload)
    pub fn reload_caps() -> Value {
        json!({"workspace": {"configuration": false, "didChangeWatchedFiles": {"dynamicRegistration": true}}, "textDocument": {},
               "window": {"workDoneProgress": true}})
    }

    pub fn take_inbox(&mut self) -> Vec<Response> {
        self.inbox.drain(..).collect()
    }

    pub fn server_ended(&self) -> Option<bool> {
        *self.ended.lock().unwrap()
    }
}

/// classify a response: "ok" or "err:<code>"
pub fn class_of(r: &Response) -> String {
    match &r.error {
        Some(e) => format!("err:{}", e.code),
        None => "ok".to_string(),
    }
}

pub fn id_json(id: &RequestId) -> Value {
    serde_json::to_value(id).unwrap()
}

pub fn fresh_dir(tag: &str) -> PathBuf {
    let base = std::env::var("VH_TMP").map(PathBuf::from).unwrap_or_else(|_| std::env::temp_dir());
    let d = base.join(format!("vh_ls_{}_{}", tag, std::process::id()));
    let _ = std::fs::remove_dir_all(&d);
    std::fs::create_dir_all(&d).unwrap();
    d
}
